use circular_buffer::CircularBuffer;
use std::cell::Cell;
use std::panic::{catch_unwind, AssertUnwindSafe};
use std::rc::Rc;

struct D { id: usize, drops: Rc<Cell<[u8; 16]>>, bomb: bool }
impl Drop for D {
    fn drop(&mut self) {
        let mut a = self.drops.get(); a[self.id] += 1; self.drops.set(a);
        if self.bomb && a[self.id] == 1 { panic!("bomb {}", self.id); }
    }
}
#[derive(Debug)]
struct C { id: usize, live: Rc<Cell<i64>>, bomb_at: usize }
impl Clone for C {
    fn clone(&self) -> Self {
        if self.id == self.bomb_at { panic!("clone bomb"); }
        self.live.set(self.live.get() + 1);
        C { id: self.id, live: self.live.clone(), bomb_at: self.bomb_at }
    }
}
impl Drop for C { fn drop(&mut self) { self.live.set(self.live.get() - 1); } }

fn f1() -> bool {
    let mut b = CircularBuffer::<0, String>::new();
    let r = b.try_push_back("x".to_string());
    let r2 = b.try_push_front("y".to_string());
    r == Err("x".to_string()) && r2 == Err("y".to_string())
}
fn f2() -> bool {
    let drops = Rc::new(Cell::new([0u8; 16]));
    let mut ok = true;
    for front in [false, true] {
        drops.set([0; 16]);
        let mut b = CircularBuffer::<4, D>::new();
        for i in 0..3 { b.push_back(D { id: i, drops: drops.clone(), bomb: i == 1 }); }
        let r = catch_unwind(AssertUnwindSafe(|| if front { b.truncate_front(0) } else { b.clear() }));
        assert!(r.is_err());
        let _ = catch_unwind(AssertUnwindSafe(move || drop(b)));
        ok &= drops.get()[..3].iter().all(|&c| c == 1);
    }
    ok
}
fn f3() -> bool {
    let drops = Rc::new(Cell::new([0u8; 16]));
    let arr = [0, 1, 2, 3].map(|i| D { id: i, drops: drops.clone(), bomb: i == 0 });
    let r = catch_unwind(AssertUnwindSafe(move || { let b: CircularBuffer<2, D> = CircularBuffer::from(arr); drop(b); }));
    assert!(r.is_err());
    drops.get()[..4].iter().all(|&c| c <= 1)
}
fn f4() -> bool {
    let live = Rc::new(Cell::new(0i64));
    {
        let mut b = CircularBuffer::<4, C>::new();
        // start = 2, size = 1: free space wraps
        for i in 0..3 { b.push_back(C { id: 100 + i, live: live.clone(), bomb_at: 999 }); live.set(live.get() + 1); }
        b.pop_front(); b.pop_front();
        let src = [C { id: 0, live: live.clone(), bomb_at: 999 }, C { id: 1, live: live.clone(), bomb_at: 999 }, C { id: 2, live: live.clone(), bomb_at: 2 }];
        live.set(live.get() + 3);
        let r = catch_unwind(AssertUnwindSafe(|| b.extend_from_slice(&src)));
        assert!(r.is_err());
        drop(src);
    }
    live.get() == 0
}
fn f5() -> bool {
    let r = catch_unwind(|| { let mut b = CircularBuffer::<0, u8>::new(); b.drain(..); });
    let r2 = catch_unwind(|| { use std::io::BufRead; let mut b = CircularBuffer::<0, u8>::new(); b.consume(3); });
    r.is_ok() && r2.is_ok()
}
fn main() {
    std::panic::set_hook(Box::new(|_| {}));
    let res = [("F1", f1()), ("F2", f2()), ("F3", f3()), ("F4", f4()), ("F5", f5())];
    for (n, ok) in res { println!("{} {}", n, if ok { "holds" } else { "VIOLATED" }); }
}
