// mirdump: rustc_private driver that dumps type-checked, trait-resolved facts (MIR, HIR, type
// level) of the crate under analysis as one JSON document per compilation.
//
// Used as RUSTC_WORKSPACE_WRAPPER under `cargo +nightly check`. Only the crate whose name is
// given in MIRDUMP_CRATE (default `circular_buffer`) is dumped; everything else is compiled
// normally. The output file is MIRDUMP_OUT (one write per process).
#![feature(rustc_private)]
#![allow(clippy::all)]

extern crate rustc_abi;
extern crate rustc_driver;
extern crate rustc_hir;
extern crate rustc_interface;
extern crate rustc_middle;
extern crate rustc_span;

use rustc_driver::Compilation;
use rustc_hir::def::DefKind;
use rustc_hir::def_id::{DefId, LocalDefId, LOCAL_CRATE};
use rustc_hir::definitions::DefPathData;
use rustc_interface::interface::Compiler;
use rustc_middle::mir::{self, *};
use rustc_middle::ty::{self, GenericArgKind, GenericArgsRef, Ty, TyCtxt, TypeVisitableExt};
use rustc_span::Span;
use std::fmt::Write as _;

// ------------------------------------------------------------------------------------------
// minimal JSON
// ------------------------------------------------------------------------------------------

#[derive(Clone)]
enum J {
    Null,
    B(bool),
    I(i64),
    S(String),
    A(Vec<J>),
    O(Vec<(&'static str, J)>),
}

fn s<T: Into<String>>(x: T) -> J {
    J::S(x.into())
}

impl J {
    fn write(&self, out: &mut String) {
        match self {
            J::Null => out.push_str("null"),
            J::B(b) => out.push_str(if *b { "true" } else { "false" }),
            J::I(i) => {
                let _ = write!(out, "{}", i);
            }
            J::S(st) => {
                out.push('"');
                for c in st.chars() {
                    match c {
                        '"' => out.push_str("\\\""),
                        '\\' => out.push_str("\\\\"),
                        '\n' => out.push_str("\\n"),
                        '\r' => out.push_str("\\r"),
                        '\t' => out.push_str("\\t"),
                        c if (c as u32) < 0x20 => {
                            let _ = write!(out, "\\u{:04x}", c as u32);
                        }
                        c => out.push(c),
                    }
                }
                out.push('"');
            }
            J::A(v) => {
                out.push('[');
                for (i, x) in v.iter().enumerate() {
                    if i > 0 {
                        out.push(',');
                    }
                    x.write(out);
                }
                out.push(']');
            }
            J::O(v) => {
                out.push('{');
                for (i, (k, x)) in v.iter().enumerate() {
                    if i > 0 {
                        out.push(',');
                    }
                    let _ = write!(out, "\"{}\":", k);
                    x.write(out);
                }
                out.push('}');
            }
        }
    }
}

// ------------------------------------------------------------------------------------------
// naming: crate-qualified definition paths, never "visible" paths
// ------------------------------------------------------------------------------------------

thread_local! {
    static REGION_TABLE: std::cell::RefCell<Option<Vec<String>>> = const { std::cell::RefCell::new(None) };
}

/// Regions are omitted everywhere (MIR is region-erased, and names of lifetimes are irrelevant
/// for def paths) except inside `with_regions`, where each distinct region gets a canonical
/// name `'r0`, `'r1`, … in order of first appearance (`'static` stays).
fn region_str(r: ty::Region<'_>) -> String {
    let st = format!("{:?}", r);
    REGION_TABLE.with(|t| {
        let mut t = t.borrow_mut();
        match t.as_mut() {
            None => String::new(),
            Some(tab) => {
                if st.contains("erased") {
                    return String::new();
                }
                if st == "'static" {
                    return st;
                }
                let idx = match tab.iter().position(|x| *x == st) {
                    Some(i) => i,
                    None => {
                        tab.push(st);
                        tab.len() - 1
                    }
                };
                format!("'r{}", idx)
            }
        }
    })
}

fn with_regions<R>(f: impl FnOnce() -> R) -> R {
    REGION_TABLE.with(|t| *t.borrow_mut() = Some(vec![]));
    let r = f();
    REGION_TABLE.with(|t| *t.borrow_mut() = None);
    r
}

fn const_str<'tcx>(tcx: TyCtxt<'tcx>, c: ty::Const<'tcx>) -> String {
    match c.kind() {
        ty::ConstKind::Param(p) => p.name.to_string(),
        _ => {
            let _ = tcx;
            format!("{}", c)
        }
    }
}

fn args_str<'tcx>(tcx: TyCtxt<'tcx>, args: &[ty::GenericArg<'tcx>], regions: bool) -> Vec<String> {
    let mut v = vec![];
    for a in args {
        match a.kind() {
            GenericArgKind::Type(t) => v.push(ty_str(tcx, t)),
            GenericArgKind::Const(c) => v.push(const_str(tcx, c)),
            GenericArgKind::Lifetime(r) => {
                if regions {
                    let st = region_str(r);
                    if !st.is_empty() {
                        v.push(st);
                    }
                }
            }
        }
    }
    v
}

fn with_args(base: String, a: Vec<String>) -> String {
    if a.is_empty() {
        base
    } else {
        format!("{}<{}>", base, a.join(", "))
    }
}

fn ty_str<'tcx>(tcx: TyCtxt<'tcx>, t: Ty<'tcx>) -> String {
    match t.kind() {
        ty::Adt(def, args) => with_args(nice(tcx, def.did()), args_str(tcx, args, true)),
        ty::Ref(r, inner, m) => {
            let rs = region_str(*r);
            let sp = if rs.is_empty() { "" } else { " " };
            format!("&{}{}{}{}", rs, sp, if m.is_mut() { "mut " } else { "" }, ty_str(tcx, *inner))
        }
        ty::RawPtr(inner, m) => {
            format!("*{} {}", if m.is_mut() { "mut" } else { "const" }, ty_str(tcx, *inner))
        }
        ty::Slice(inner) => format!("[{}]", ty_str(tcx, *inner)),
        ty::Array(inner, c) => format!("[{}; {}]", ty_str(tcx, *inner), const_str(tcx, *c)),
        ty::Tuple(ts) => {
            let v: Vec<String> = ts.iter().map(|x| ty_str(tcx, x)).collect();
            if v.len() == 1 {
                format!("({},)", v[0])
            } else {
                format!("({})", v.join(", "))
            }
        }
        ty::Param(p) => p.name.to_string(),
        ty::FnDef(did, args) => {
            format!("fn{{{}}}", with_args(nice(tcx, *did), args_str(tcx, args, false)))
        }
        ty::Closure(did, _) => format!("{{closure:{}}}", nice(tcx, *did)),
        ty::Coroutine(did, _) => format!("{{coroutine:{}}}", nice(tcx, *did)),
        ty::CoroutineClosure(did, _) => format!("{{coroutine-closure:{}}}", nice(tcx, *did)),
        ty::Alias(..) => alias_str(tcx, t),
        ty::Dynamic(preds, _) => {
            let mut parts: Vec<String> = vec![];
            for p in preds.iter() {
                match p.skip_binder() {
                    ty::ExistentialPredicate::Trait(tr) => {
                        let a: Vec<ty::GenericArg<'tcx>> = tr.args.iter().collect();
                        parts.push(with_args(nice(tcx, tr.def_id), args_str(tcx, &a, true)));
                    }
                    ty::ExistentialPredicate::AutoTrait(d) => parts.push(nice(tcx, d)),
                    ty::ExistentialPredicate::Projection(pr) => {
                        parts.push(format!("{}=..", nice(tcx, pr.def_id)));
                    }
                }
            }
            format!("dyn {}", parts.join(" + "))
        }
        _ => format!("{}", t),
    }
}

fn alias_str<'tcx>(tcx: TyCtxt<'tcx>, t: Ty<'tcx>) -> String {
    // Projections: <Self as Trait<Args>>::Name ; everything else: Display
    if let ty::Alias(at) = t.kind() {
        let did = at.kind.def_id();
        if matches!(tcx.def_kind(did), DefKind::AssocTy) {
            let parent = tcx.parent(did);
            if matches!(tcx.def_kind(parent), DefKind::Trait) {
                let a: Vec<ty::GenericArg<'tcx>> = at.args.iter().collect();
                if !a.is_empty() {
                    let n_trait = tcx.generics_of(parent).count();
                    let selfs = match a[0].kind() {
                        GenericArgKind::Type(t0) => ty_str(tcx, t0),
                        _ => "?".to_string(),
                    };
                    let upto = n_trait.min(a.len());
                    let rest = args_str(tcx, &a[1..upto], true);
                    return format!(
                        "<{} as {}>::{}",
                        selfs,
                        with_args(nice(tcx, parent), rest),
                        tcx.item_name(did)
                    );
                }
            }
        }
    }
    format!("{}", t)
}

fn impl_str<'tcx>(tcx: TyCtxt<'tcx>, impl_did: DefId) -> String {
    let self_ty = tcx.type_of(impl_did).instantiate_identity().skip_norm_wip();
    match tcx.impl_opt_trait_ref(impl_did) {
        Some(tr) => {
            let tr = tr.instantiate_identity().skip_norm_wip();
            let a: Vec<ty::GenericArg<'tcx>> = tr.args.iter().collect();
            let rest = args_str(tcx, &a[1..], true);
            format!("<{} as {}>", ty_str(tcx, self_ty), with_args(nice(tcx, tr.def_id), rest))
        }
        None => match self_ty.kind() {
            ty::Adt(def, _) => nice(tcx, def.did()),
            _ => format!("<{}>", ty_str(tcx, self_ty)),
        },
    }
}

thread_local! {
    static SHORT: std::cell::Cell<bool> = const { std::cell::Cell::new(false) };
}

/// Short form of a definition path: modules are dropped, and so is the crate name for the
/// local crate, `core` and `alloc`. Used for anchors and display; classification tables of
/// external callees use the full form.
fn short<'tcx>(tcx: TyCtxt<'tcx>, did: DefId) -> String {
    SHORT.with(|c| c.set(true));
    let r = nice(tcx, did);
    SHORT.with(|c| c.set(false));
    r
}

fn nice<'tcx>(tcx: TyCtxt<'tcx>, did: DefId) -> String {
    let is_short = SHORT.with(|c| c.get());
    let key = tcx.def_key(did);
    match key.parent {
        None => {
            let name = tcx.crate_name(did.krate).to_string();
            if is_short && (did.krate == LOCAL_CRATE || name == "core" || name == "alloc") {
                String::new()
            } else {
                name
            }
        }
        Some(pidx) => {
            if let DefPathData::Impl = key.disambiguated_data.data {
                return impl_str(tcx, did);
            }
            let parent = DefId { krate: did.krate, index: pidx };
            let p = nice(tcx, parent);
            if is_short && matches!(tcx.def_kind(did), DefKind::Mod) {
                return p;
            }
            if p.is_empty() {
                format!("{}", key.disambiguated_data.as_sym(true))
            } else {
                format!("{}::{}", p, key.disambiguated_data.as_sym(true))
            }
        }
    }
}

fn mentions_type_param<'tcx>(t: Ty<'tcx>) -> bool {
    t.walk().any(|a| match a.kind() {
        GenericArgKind::Type(x) => matches!(x.kind(), ty::Param(_)),
        _ => false,
    })
}

// ------------------------------------------------------------------------------------------
// spans
// ------------------------------------------------------------------------------------------

fn loc(tcx: TyCtxt<'_>, sp: Span) -> String {
    let sp = sp.source_callsite();
    let sm = tcx.sess.source_map();
    let lo = sm.lookup_char_pos(sp.lo());
    let name = format!("{}", lo.file.name.prefer_local_unconditionally());
    format!("{}:{}", name, lo.line)
}

fn expansion(sp: Span) -> J {
    let mut v = vec![];
    for e in sp.macro_backtrace() {
        if let rustc_span::hygiene::ExpnKind::Macro(_, name) = e.kind {
            v.push(s(name.to_string()));
        } else {
            v.push(s(format!("{:?}", e.kind)));
        }
    }
    J::A(v)
}

// ------------------------------------------------------------------------------------------
// MIR serialisation
// ------------------------------------------------------------------------------------------

struct Cx<'a, 'tcx> {
    tcx: TyCtxt<'tcx>,
    body: &'a Body<'tcx>,
    did: DefId,
    env: ty::TypingEnv<'tcx>,
}

impl<'a, 'tcx> Cx<'a, 'tcx> {
    fn place(&self, p: &Place<'tcx>) -> J {
        let tcx = self.tcx;
        let mut pty = mir::PlaceTy::from_ty(self.body.local_decls[p.local].ty);
        let mut proj = vec![];
        for elem in p.projection.iter() {
            let j = match elem {
                ProjectionElem::Deref => J::O(vec![("k", s("deref"))]),
                ProjectionElem::Field(f, fty) => {
                    let mut name = format!("{}", f.index());
                    if let ty::Adt(def, _) = pty.ty.kind() {
                        let vi = pty.variant_index.unwrap_or(rustc_abi::FIRST_VARIANT);
                        if def.variants().len() > vi.index() {
                            let var = def.variant(vi);
                            if var.fields.len() > f.index() {
                                name = var.fields[f].name.to_string();
                            }
                        }
                    }
                    J::O(vec![
                        ("k", s("field")),
                        ("i", J::I(f.index() as i64)),
                        ("name", s(name)),
                        ("ty", s(ty_str(tcx, fty))),
                    ])
                }
                ProjectionElem::Index(l) => {
                    J::O(vec![("k", s("index")), ("local", J::I(l.index() as i64))])
                }
                ProjectionElem::ConstantIndex { offset, min_length, from_end } => J::O(vec![
                    ("k", s("constindex")),
                    ("offset", J::I(offset as i64)),
                    ("min_length", J::I(min_length as i64)),
                    ("from_end", J::B(from_end)),
                ]),
                ProjectionElem::Subslice { from, to, from_end } => J::O(vec![
                    ("k", s("subslice")),
                    ("from", J::I(from as i64)),
                    ("to", J::I(to as i64)),
                    ("from_end", J::B(from_end)),
                ]),
                ProjectionElem::Downcast(name, vi) => J::O(vec![
                    ("k", s("downcast")),
                    ("variant", s(name.map(|n| n.to_string()).unwrap_or_default())),
                    ("i", J::I(vi.index() as i64)),
                ]),
                other => J::O(vec![("k", s("other")), ("dbg", s(format!("{:?}", other)))]),
            };
            proj.push(j);
            pty = pty.projection_ty(tcx, elem);
        }
        J::O(vec![
            ("local", J::I(p.local.index() as i64)),
            ("proj", J::A(proj)),
            ("ty", s(ty_str(tcx, pty.ty))),
        ])
    }

    fn konst(&self, c: &ConstOperand<'tcx>) -> J {
        let tcx = self.tcx;
        let ty = c.const_.ty();
        let mut o = vec![("k", s("const")), ("ty", s(ty_str(tcx, ty)))];
        match ty.kind() {
            ty::FnDef(did, args) => {
                o.push(("fn", self.fn_ref(*did, args)));
            }
            _ => {}
        }
        let mut param = None;
        if let mir::Const::Ty(_, tc) = c.const_ {
            if let ty::ConstKind::Param(p) = tc.kind() {
                param = Some(p.name.to_string());
            }
        }
        if let Some(p) = param {
            o.push(("param", s(p)));
        }
        // value: integers / bools as decimal string, else display
        let mut val = None;
        if ty.is_integral() || ty.is_bool() || ty.is_char() {
            if let Some(sc) = c.const_.try_eval_scalar_int(tcx, self.env) {
                let size = sc.size();
                if ty.is_signed() {
                    val = Some(format!("{}", sc.to_int(size)));
                } else {
                    val = Some(format!("{}", sc.to_uint(size)));
                }
            }
        }
        match val {
            Some(v) => o.push(("int", s(v))),
            None => {}
        }
        o.push(("disp", s(format!("{}", c.const_))));
        if let mir::Const::Unevaluated(uv, _) = c.const_ {
            o.push(("uneval", s(nice(tcx, uv.def))));
            if let Some(pi) = uv.promoted {
                o.push(("promoted", J::B(true)));
                o.push(("promoted_index", J::I(pi.index() as i64)));
            }
        }
        J::O(o)
    }

    fn operand(&self, op: &Operand<'tcx>) -> J {
        match op {
            Operand::Copy(p) => J::O(vec![("k", s("copy")), ("place", self.place(p))]),
            Operand::Move(p) => J::O(vec![("k", s("move")), ("place", self.place(p))]),
            Operand::Constant(c) => self.konst(c),
            #[allow(unreachable_patterns)]
            other => J::O(vec![("k", s("otherop")), ("dbg", s(format!("{:?}", other)))]),
        }
    }

    /// A reference to a function definition with generic arguments: identity, resolution,
    /// where-clauses that can dispatch to caller-chosen code.
    fn fn_ref(&self, did: DefId, args: GenericArgsRef<'tcx>) -> J {
        let tcx = self.tcx;
        let mut o = vec![
            ("path", s(nice(tcx, did))),
            ("short", s(short(tcx, did))),
            ("krate", s(tcx.crate_name(did.krate).to_string())),
            ("name", s(tcx.opt_item_name(did).map(|n| n.to_string()).unwrap_or_default())),
            ("local", J::B(did.is_local())),
            ("args", J::A(args_str(tcx, args, false).into_iter().map(s).collect())),
        ];
        // trait method?
        let mut in_trait = None;
        if let Some(assoc) = tcx.opt_associated_item(did) {
            let container = tcx.parent(did);
            if matches!(tcx.def_kind(container), DefKind::Trait) {
                in_trait = Some(container);
                o.push(("trait", s(nice(tcx, container))));
            }
            let _ = assoc;
        }
        if tcx.is_intrinsic(did, tcx.item_name(did)) {
            o.push(("intrinsic", J::B(true)));
        }
        // resolution
        match ty::Instance::try_resolve(tcx, self.env, did, args) {
            Ok(Some(inst)) => {
                let rd = inst.def_id();
                let kind = match inst.def {
                    ty::InstanceKind::Item(_) => "item".to_string(),
                    other => {
                        let d = format!("{:?}", other);
                        d.split('(').next().unwrap_or("").to_string()
                    }
                };
                o.push(("rkind", s(kind)));
                if tcx.coroutine_kind(rd).is_some() {
                    // number of states of the polled coroutine: 3 (Unresumed/Returned/Panicked)
                    // means it has no suspension point, i.e. its poll() is Ready on first call
                    if let Some(layout) = tcx.mir_coroutine_witnesses(rd) {
                        o.push(("coroutine_variants", J::I(layout.variant_fields.len() as i64)));
                    }
                }
                o.push(("rpath", s(nice(tcx, rd))));
                o.push(("rshort", s(short(tcx, rd))));
                o.push(("rkrate", s(tcx.crate_name(rd.krate).to_string())));
                o.push(("rlocal", J::B(rd.is_local())));
                o.push((
                    "rargs",
                    J::A(args_str(tcx, inst.args, false).into_iter().map(s).collect()),
                ));
                if in_trait.is_some() && matches!(tcx.def_kind(tcx.parent(rd)), DefKind::Trait) {
                    // stayed on the trait's declaration: either a provided method or
                    // unresolvable (generic receiver)
                    o.push(("unresolved_trait_method", J::B(!matches!(inst.def, ty::InstanceKind::Item(_)) || tcx.defaultness(rd).has_value() == false)));
                }
            }
            Ok(None) => {
                o.push(("rkind", s("generic")));
            }
            Err(_) => {
                o.push(("rkind", s("error")));
            }
        }
        // comparisons through core's `&A == &B` impls: peel the references and re-resolve, so that
        // `self == &other[..]` is an edge to the in-crate `PartialEq<[U]>` impl
        if tcx.crate_name(did.krate).as_str() == "core" && in_trait.is_some() {
            let tname = tcx.item_name(in_trait.unwrap());
            if (tname.as_str() == "PartialEq" || tname.as_str() == "PartialOrd") && args.len() == 2 {
                if let (GenericArgKind::Type(mut a), GenericArgKind::Type(mut b)) =
                    (args[0].kind(), args[1].kind())
                {
                    let mut peeled = false;
                    loop {
                        match (a.kind(), b.kind()) {
                            (ty::Ref(_, ia, _), ty::Ref(_, ib, _)) => {
                                a = *ia;
                                b = *ib;
                                peeled = true;
                            }
                            _ => break,
                        }
                    }
                    if peeled {
                        let nargs = tcx.mk_args(&[a.into(), b.into()]);
                        if let Ok(Some(inst)) = ty::Instance::try_resolve(tcx, self.env, did, nargs) {
                            let rd = inst.def_id();
                            o.push(("peeled_rpath", s(nice(tcx, rd))));
                            o.push(("peeled_rshort", s(short(tcx, rd))));
                            o.push(("peeled_rlocal", J::B(rd.is_local())));
                        }
                    }
                }
            }
        }
        // instantiated where-clauses (trait predicates) whose self type mentions a type param or
        // a closure: the callee may dispatch to code chosen by our caller.
        let preds = tcx.predicates_of(did).instantiate(tcx, args);
        let mut pv = vec![];
        for (clause, _) in preds.into_iter() {
            let clause = clause.skip_norm_wip();
            if let Some(tp) = clause.as_trait_clause() {
                let tp = tp.skip_binder();
                let st = tp.self_ty();
                let has_closure = st.walk().any(|a| match a.kind() {
                    GenericArgKind::Type(x) => matches!(x.kind(), ty::Closure(..)),
                    _ => false,
                });
                if mentions_type_param(st) || has_closure {
                    let tdid = tp.def_id();
                    let has_fn = tcx
                        .associated_items(tdid)
                        .in_definition_order()
                        .any(|i| matches!(i.kind, ty::AssocKind::Fn { .. }));
                    let closure_def = st.walk().find_map(|a| match a.kind() {
                        GenericArgKind::Type(x) => match x.kind() {
                            ty::Closure(cd, _) => Some(short(tcx, *cd)),
                            _ => None,
                        },
                        _ => None,
                    });
                    pv.push(J::O(vec![
                        ("trait", s(nice(tcx, tdid))),
                        ("self", s(ty_str(tcx, st))),
                        ("has_fn", J::B(has_fn)),
                        ("auto", J::B(tcx.trait_is_auto(tdid))),
                        ("closure", closure_def.map(s).unwrap_or(J::Null)),
                    ]));
                }
            }
        }
        o.push(("preds", J::A(pv)));
        J::O(o)
    }

    fn rvalue(&self, rv: &Rvalue<'tcx>) -> J {
        let tcx = self.tcx;
        match rv {
            Rvalue::Use(op, ..) => J::O(vec![("k", s("use")), ("op", self.operand(op))]),
            Rvalue::Repeat(op, c) => J::O(vec![
                ("k", s("repeat")),
                ("op", self.operand(op)),
                ("count", s(const_str(tcx, *c))),
            ]),
            Rvalue::Ref(_, bk, p) => J::O(vec![
                ("k", s("ref")),
                ("mut", J::B(matches!(bk, BorrowKind::Mut { .. }))),
                ("bk", s(format!("{:?}", bk))),
                ("place", self.place(p)),
            ]),
            Rvalue::RawPtr(kind, p) => J::O(vec![
                ("k", s("rawptr")),
                ("mut", J::B(format!("{:?}", kind).contains("Mut"))),
                ("place", self.place(p)),
            ]),
            Rvalue::Cast(kind, op, ty) => J::O(vec![
                ("k", s("cast")),
                ("kind", s(format!("{:?}", kind))),
                ("op", self.operand(op)),
                ("ty", s(ty_str(tcx, *ty))),
            ]),
            Rvalue::BinaryOp(bop, ops) => J::O(vec![
                ("k", s("binop")),
                ("op", s(format!("{:?}", bop))),
                ("a", self.operand(&ops.0)),
                ("b", self.operand(&ops.1)),
            ]),
            Rvalue::UnaryOp(uop, op) => J::O(vec![
                ("k", s("unop")),
                ("op", s(format!("{:?}", uop))),
                ("a", self.operand(op)),
            ]),
            Rvalue::Discriminant(p) => {
                J::O(vec![("k", s("discriminant")), ("place", self.place(p))])
            }
            Rvalue::Aggregate(kind, ops) => {
                let mut o = vec![("k", s("aggregate"))];
                let mut names: Vec<String> = vec![];
                match &**kind {
                    AggregateKind::Adt(did, vi, args, _, active) => {
                        let def = tcx.adt_def(*did);
                        let var = def.variant(*vi);
                        o.push(("agg", s("adt")));
                        o.push(("adt", s(nice(tcx, *did))));
                        o.push(("variant", s(var.name.to_string())));
                        o.push(("vi", J::I(vi.index() as i64)));
                        o.push((
                            "args",
                            J::A(args_str(tcx, args, false).into_iter().map(s).collect()),
                        ));
                        if let Some(a) = active {
                            names.push(var.fields[*a].name.to_string());
                        } else {
                            for f in var.fields.iter() {
                                names.push(f.name.to_string());
                            }
                        }
                    }
                    AggregateKind::Tuple => o.push(("agg", s("tuple"))),
                    AggregateKind::Array(t) => {
                        o.push(("agg", s("array")));
                        o.push(("elem", s(ty_str(tcx, *t))));
                    }
                    AggregateKind::Closure(did, _) => {
                        o.push(("agg", s("closure")));
                        o.push(("closure", s(nice(tcx, *did))));
                    }
                    AggregateKind::Coroutine(did, _) => {
                        o.push(("agg", s("coroutine")));
                        o.push(("closure", s(nice(tcx, *did))));
                    }
                    AggregateKind::RawPtr(t, m) => {
                        o.push(("agg", s("rawptr")));
                        o.push(("elem", s(ty_str(tcx, *t))));
                        o.push(("mut", J::B(m.is_mut())));
                    }
                    other => {
                        o.push(("agg", s("other")));
                        o.push(("dbg", s(format!("{:?}", other))));
                    }
                }
                let mut fields = vec![];
                for (i, op) in ops.iter().enumerate() {
                    let name = names.get(i).cloned().unwrap_or_else(|| format!("{}", i));
                    fields.push(J::O(vec![("name", s(name)), ("op", self.operand(op))]));
                }
                o.push(("fields", J::A(fields)));
                J::O(o)
            }
            Rvalue::CopyForDeref(p) => {
                J::O(vec![("k", s("use")), ("op", J::O(vec![("k", s("copy")), ("place", self.place(p))]))])
            }
            other => J::O(vec![("k", s("other")), ("dbg", s(format!("{:?}", other)))]),
        }
    }

    fn drop_info(&self, t: Ty<'tcx>) -> (Vec<String>, bool) {
        // in-crate/any Drop impls reachable through the type's structure + whether a bare type
        // parameter (user destructor) is reachable
        let tcx = self.tcx;
        let mut impls = vec![];
        let mut user = false;
        let mut seen: Vec<Ty<'tcx>> = vec![];
        let mut stack = vec![(t, 0usize)];
        while let Some((cur, depth)) = stack.pop() {
            if depth > 8 || seen.contains(&cur) {
                continue;
            }
            seen.push(cur);
            match cur.kind() {
                ty::Param(_) | ty::Alias(..) | ty::Dynamic(..) => user = true,
                ty::Adt(def, args) => {
                    if def.is_manually_drop() {
                        continue;
                    }
                    if let Some(d) = tcx.adt_destructor(def.did()) {
                        impls.push(short(tcx, d.did));
                    }
                    if def.is_union() {
                        continue;
                    }
                    if !def.did().is_local() && !def.is_box() {
                        // foreign ADT: do not descend into private fields by name, but generic
                        // args that need drop are conservatively assumed to be owned
                        for a in args.iter() {
                            if let GenericArgKind::Type(x) = a.kind() {
                                if def.did().krate != LOCAL_CRATE
                                    && tcx.item_name(def.did()).as_str() == "MaybeUninit"
                                {
                                    continue;
                                }
                                if tcx.item_name(def.did()).as_str() == "PhantomData"
                                    || tcx.item_name(def.did()).as_str() == "NonNull"
                                {
                                    continue;
                                }
                                stack.push((x, depth + 1));
                            }
                        }
                        continue;
                    }
                    for v in def.variants() {
                        for f in v.fields.iter() {
                            stack.push((f.ty(tcx, args), depth + 1));
                        }
                    }
                }
                ty::Array(x, _) | ty::Slice(x) => stack.push((*x, depth + 1)),
                ty::Tuple(ts) => {
                    for x in ts.iter() {
                        stack.push((x, depth + 1));
                    }
                }
                ty::Closure(_, cargs) => {
                    for x in cargs.as_closure().upvar_tys().iter() {
                        stack.push((x, depth + 1));
                    }
                }
                _ => {}
            }
        }
        (impls, user)
    }

    fn unwind(&self, u: &UnwindAction) -> J {
        match u {
            UnwindAction::Continue => s("continue"),
            UnwindAction::Unreachable => s("unreachable"),
            UnwindAction::Terminate(_) => s("terminate"),
            UnwindAction::Cleanup(bb) => J::I(bb.index() as i64),
        }
    }

    fn terminator(&self, t: &Terminator<'tcx>) -> J {
        let tcx = self.tcx;
        let sp = t.source_info.span;
        let mut o: Vec<(&'static str, J)> = vec![];
        match &t.kind {
            TerminatorKind::Goto { target } => {
                o.push(("k", s("goto")));
                o.push(("target", J::I(target.index() as i64)));
            }
            TerminatorKind::SwitchInt { discr, targets } => {
                o.push(("k", s("switch")));
                o.push(("discr", self.operand(discr)));
                let mut tv = vec![];
                for (val, bb) in targets.iter() {
                    tv.push(J::A(vec![s(format!("{}", val)), J::I(bb.index() as i64)]));
                }
                o.push(("targets", J::A(tv)));
                o.push(("otherwise", J::I(targets.otherwise().index() as i64)));
            }
            TerminatorKind::UnwindResume => o.push(("k", s("resume"))),
            TerminatorKind::UnwindTerminate(_) => o.push(("k", s("terminate"))),
            TerminatorKind::Return => o.push(("k", s("return"))),
            TerminatorKind::Unreachable => o.push(("k", s("unreachable"))),
            TerminatorKind::Drop { place, target, unwind, .. } => {
                let pty = place.ty(self.body, tcx).ty;
                let (impls, user) = self.drop_info(pty);
                o.push(("k", s("drop")));
                o.push(("place", self.place(place)));
                o.push(("target", J::I(target.index() as i64)));
                o.push(("unwind", self.unwind(unwind)));
                o.push(("ty", s(ty_str(tcx, pty))));
                o.push(("drop_impls", J::A(impls.into_iter().map(s).collect())));
                o.push(("user_drop", J::B(user)));
                o.push(("needs_drop", J::B(pty.needs_drop(tcx, self.env))));
            }
            TerminatorKind::Call { func, args, destination, target, unwind, .. } => {
                o.push(("k", s("call")));
                o.push(("func", self.operand(func)));
                o.push(("args", J::A(args.iter().map(|a| self.operand(&a.node)).collect())));
                o.push(("dest", self.place(destination)));
                // Drop impls (and user destructors) reachable through by-value arguments: an
                // external callee that receives ownership may run them
                let mut ad_impls: Vec<String> = vec![];
                let mut ad_user = false;
                for a in args.iter() {
                    if let Operand::Move(p) = &a.node {
                        let aty = p.ty(self.body, tcx).ty;
                        if aty.needs_drop(tcx, self.env) {
                            let (impls, user) = self.drop_info(aty);
                            for i in impls {
                                if !ad_impls.contains(&i) {
                                    ad_impls.push(i);
                                }
                            }
                            ad_user |= user;
                        }
                    }
                }
                o.push(("arg_drop_impls", J::A(ad_impls.into_iter().map(s).collect())));
                o.push(("arg_user_drop", J::B(ad_user)));
                o.push((
                    "target",
                    target.map(|b| J::I(b.index() as i64)).unwrap_or(J::Null),
                ));
                o.push(("unwind", self.unwind(unwind)));
            }
            TerminatorKind::TailCall { func, args, .. } => {
                o.push(("k", s("tailcall")));
                o.push(("func", self.operand(func)));
                o.push(("args", J::A(args.iter().map(|a| self.operand(&a.node)).collect())));
            }
            TerminatorKind::Assert { cond, expected, msg, target, unwind } => {
                o.push(("k", s("assert")));
                o.push(("cond", self.operand(cond)));
                o.push(("expected", J::B(*expected)));
                let kind = match &**msg {
                    AssertKind::BoundsCheck { len, index } => {
                        o.push(("len", self.operand(len)));
                        o.push(("index", self.operand(index)));
                        "BoundsCheck".to_string()
                    }
                    AssertKind::Overflow(op, a, b) => {
                        o.push(("a", self.operand(a)));
                        o.push(("b", self.operand(b)));
                        format!("Overflow({:?})", op)
                    }
                    AssertKind::DivisionByZero(a) => {
                        o.push(("a", self.operand(a)));
                        "DivisionByZero".to_string()
                    }
                    AssertKind::RemainderByZero(a) => {
                        o.push(("a", self.operand(a)));
                        "RemainderByZero".to_string()
                    }
                    other => {
                        let d = format!("{:?}", other);
                        d.split(|c| c == '(' || c == ' ' || c == '{').next().unwrap_or("").to_string()
                    }
                };
                o.push(("msg", s(kind)));
                o.push(("target", J::I(target.index() as i64)));
                o.push(("unwind", self.unwind(unwind)));
            }
            TerminatorKind::Yield { value, resume, drop, .. } => {
                o.push(("k", s("yield")));
                o.push(("value", self.operand(value)));
                o.push(("target", J::I(resume.index() as i64)));
                o.push(("drop", drop.map(|b| J::I(b.index() as i64)).unwrap_or(J::Null)));
            }
            TerminatorKind::CoroutineDrop => o.push(("k", s("coroutine_drop"))),
            TerminatorKind::FalseEdge { real_target, .. } => {
                o.push(("k", s("goto")));
                o.push(("target", J::I(real_target.index() as i64)));
                o.push(("false_edge", J::B(true)));
            }
            TerminatorKind::FalseUnwind { real_target, .. } => {
                o.push(("k", s("goto")));
                o.push(("target", J::I(real_target.index() as i64)));
                o.push(("false_unwind", J::B(true)));
            }
            TerminatorKind::InlineAsm { .. } => o.push(("k", s("asm"))),
        }
        o.push(("loc", s(loc(tcx, sp))));
        if sp.from_expansion() {
            o.push(("exp", expansion(sp)));
        }
        J::O(o)
    }

    fn statement(&self, st: &Statement<'tcx>) -> Option<J> {
        let tcx = self.tcx;
        let sp = st.source_info.span;
        let mut o: Vec<(&'static str, J)> = vec![];
        match &st.kind {
            StatementKind::Assign(b) => {
                let (place, rv) = &**b;
                o.push(("k", s("assign")));
                o.push(("place", self.place(place)));
                o.push(("rv", self.rvalue(rv)));
            }
            StatementKind::SetDiscriminant { place, variant_index } => {
                o.push(("k", s("setdiscr")));
                o.push(("place", self.place(place)));
                o.push(("vi", J::I(variant_index.index() as i64)));
            }
            StatementKind::Intrinsic(b) => match &**b {
                NonDivergingIntrinsic::Assume(op) => {
                    o.push(("k", s("assume")));
                    o.push(("op", self.operand(op)));
                }
                NonDivergingIntrinsic::CopyNonOverlapping(c) => {
                    o.push(("k", s("copy_nonoverlapping")));
                    o.push(("src", self.operand(&c.src)));
                    o.push(("dst", self.operand(&c.dst)));
                    o.push(("count", self.operand(&c.count)));
                }
            },
            StatementKind::StorageLive(l) => {
                o.push(("k", s("storagelive")));
                o.push(("local", J::I(l.index() as i64)));
            }
            StatementKind::StorageDead(l) => {
                o.push(("k", s("storagedead")));
                o.push(("local", J::I(l.index() as i64)));
            }
            StatementKind::Nop
            | StatementKind::FakeRead(..)
            | StatementKind::AscribeUserType(..)
            | StatementKind::Coverage(..)
            | StatementKind::PlaceMention(..)
            | StatementKind::ConstEvalCounter
            | StatementKind::BackwardIncompatibleDropHint { .. } => return None,
            #[allow(unreachable_patterns)]
            other => {
                o.push(("k", s("otherstmt")));
                o.push(("dbg", s(format!("{:?}", other))));
            }
        }
        o.push(("loc", s(loc(tcx, sp))));
        if sp.from_expansion() {
            o.push(("exp", expansion(sp)));
        }
        Some(J::O(o))
    }

    fn body_json(&self) -> J {
        let tcx = self.tcx;
        let body = self.body;
        let mut locals = vec![];
        let mut names: Vec<Option<String>> = vec![None; body.local_decls.len()];
        for vdi in body.var_debug_info.iter() {
            if let VarDebugInfoContents::Place(p) = &vdi.value {
                if p.projection.is_empty() {
                    names[p.local.index()] = Some(vdi.name.to_string());
                }
            }
        }
        for (l, decl) in body.local_decls.iter_enumerated() {
            locals.push(J::O(vec![
                ("ty", s(ty_str(tcx, decl.ty))),
                ("name", names[l.index()].clone().map(s).unwrap_or(J::Null)),
                ("tparam", J::B(mentions_type_param(decl.ty))),
                ("needs_drop", J::B(decl.ty.needs_drop(tcx, self.env))),
            ]));
        }
        // upvar / captured names for closures
        let mut upvars = vec![];
        for vdi in body.var_debug_info.iter() {
            if let VarDebugInfoContents::Place(p) = &vdi.value {
                if !p.projection.is_empty() {
                    upvars.push(J::O(vec![("name", s(vdi.name.to_string())), ("place", self.place(p))]));
                }
            }
        }
        let mut blocks = vec![];
        for (_bb, data) in body.basic_blocks.iter_enumerated() {
            let mut stmts = vec![];
            for st in data.statements.iter() {
                if let Some(j) = self.statement(st) {
                    stmts.push(j);
                }
            }
            blocks.push(J::O(vec![
                ("cleanup", J::B(data.is_cleanup)),
                ("stmts", J::A(stmts)),
                ("term", self.terminator(data.terminator())),
            ]));
        }
        let _ = self.did;
        J::O(vec![
            ("arg_count", J::I(body.arg_count as i64)),
            ("locals", J::A(locals)),
            ("upvars", J::A(upvars)),
            ("blocks", J::A(blocks)),
        ])
    }
}

// ------------------------------------------------------------------------------------------
// HIR: unsafe blocks per body owner
// ------------------------------------------------------------------------------------------

struct UnsafeCounter {
    blocks: usize,
    locs: Vec<Span>,
}

impl<'v> rustc_hir::intravisit::Visitor<'v> for UnsafeCounter {
    fn visit_block(&mut self, b: &'v rustc_hir::Block<'v>) {
        if let rustc_hir::BlockCheckMode::UnsafeBlock(src) = b.rules {
            if matches!(src, rustc_hir::UnsafeSource::UserProvided) {
                self.blocks += 1;
                self.locs.push(b.span);
            }
        }
        rustc_hir::intravisit::walk_block(self, b);
    }
}

// ------------------------------------------------------------------------------------------
// per-item facts
// ------------------------------------------------------------------------------------------

fn vis_str(tcx: TyCtxt<'_>, did: DefId) -> String {
    match tcx.visibility(did) {
        ty::Visibility::Public => "pub".to_string(),
        ty::Visibility::Restricted(m) => {
            if m.is_crate_root() {
                "crate".to_string()
            } else {
                format!("restricted:{}", nice(tcx, m))
            }
        }
    }
}

fn sig_json<'tcx>(tcx: TyCtxt<'tcx>, did: DefId) -> J {
    let sig = tcx.fn_sig(did).instantiate_identity().skip_norm_wip();
    let n_bound = sig.bound_vars().len();
    let sig = sig.skip_binder();
    with_regions(|| {
        // the impl header first, so that regions of the self type are numbered first
        let mut header = String::new();
        let parent = tcx.parent(did);
        if let DefKind::Impl { .. } = tcx.def_kind(parent) {
            header = ty_str(tcx, tcx.type_of(parent).instantiate_identity().skip_norm_wip());
        }
        let inputs: Vec<J> = sig.inputs().iter().map(|t| s(ty_str(tcx, *t))).collect();
        J::O(vec![
            ("impl_self", s(header)),
            ("inputs", J::A(inputs)),
            ("output", s(ty_str(tcx, sig.output()))),
            ("n_bound_vars", J::I(n_bound as i64)),
            ("unsafe", J::B(sig.safety().is_unsafe())),
        ])
    })
}

fn predicates_json<'tcx>(tcx: TyCtxt<'tcx>, did: DefId) -> J {
    let mut v = vec![];
    let preds = tcx.predicates_of(did).instantiate_identity(tcx);
    for (clause, _) in preds.into_iter() {
        let clause = clause.skip_norm_wip();
        if let Some(tp) = clause.as_trait_clause() {
            let tp = tp.skip_binder();
            let a: Vec<ty::GenericArg<'tcx>> = tp.trait_ref.args.iter().collect();
            v.push(J::O(vec![
                ("trait", s(with_args(nice(tcx, tp.def_id()), args_str(tcx, &a[1..], true)))),
                ("self", s(ty_str(tcx, tp.self_ty()))),
            ]));
        } else {
            v.push(J::O(vec![("other", s(format!("{:?}", clause.kind().skip_binder())))]));
        }
    }
    J::A(v)
}

fn fn_record<'tcx>(tcx: TyCtxt<'tcx>, ldid: LocalDefId) -> Option<J> {
    let did = ldid.to_def_id();
    let kind = tcx.def_kind(did);
    let is_fn = matches!(kind, DefKind::Fn | DefKind::AssocFn);
    let is_closure = matches!(kind, DefKind::Closure | DefKind::SyntheticCoroutineBody);
    if !is_fn && !is_closure {
        return None;
    }
    let mut o: Vec<(&'static str, J)> = vec![
        ("path", s(nice(tcx, did))),
        ("short", s(short(tcx, did))),
        ("name", s(tcx.opt_item_name(did).map(|n| n.to_string()).unwrap_or_default())),
        ("kind", s(format!("{:?}", kind))),
        ("loc", s(loc(tcx, tcx.def_span(did)))),
    ];
    let span = tcx.def_span(did);
    let _ = span;
    if is_fn {
        o.push(("vis", s(vis_str(tcx, did))));
        o.push(("const", J::B(tcx.is_const_fn(did))));
        o.push(("sig", sig_json(tcx, did)));
        o.push(("asyncness", J::B(tcx.asyncness(did).is_async())));
        o.push(("preds", predicates_json(tcx, did)));
        let gens = tcx.generics_of(did);
        let mut gv = vec![];
        for i in 0..gens.count() {
            let p = gens.param_at(i, tcx);
            gv.push(s(format!("{}:{:?}", p.name, p.kind).split(' ').next().unwrap_or("").to_string()));
        }
        o.push(("generics", J::A(gv)));
    }
    if let Some(ck) = tcx.coroutine_kind(did) {
        o.push(("coroutine_kind", s(format!("{:?}", ck))));
    }
    // parent impl
    let mut parent = tcx.parent(did);
    // closures: walk up to the enclosing fn
    let mut encl = did;
    while matches!(tcx.def_kind(encl), DefKind::Closure | DefKind::SyntheticCoroutineBody | DefKind::InlineConst) {
        encl = tcx.parent(encl);
    }
    if encl != did {
        o.push(("enclosing_fn", s(short(tcx, encl))));
        parent = tcx.parent(encl);
    }
    if let DefKind::Impl { of_trait } = tcx.def_kind(parent) {
        let self_ty = tcx.type_of(parent).instantiate_identity().skip_norm_wip();
        let mut io = vec![
            ("self_ty", s(ty_str(tcx, self_ty))),
            ("of_trait", J::B(of_trait)),
            ("preds", predicates_json(tcx, parent)),
        ];
        if of_trait {
            let tr = tcx.impl_trait_ref(parent).instantiate_identity().skip_norm_wip();
            let a: Vec<ty::GenericArg<'tcx>> = tr.args.iter().collect();
            io.push(("trait", s(nice(tcx, tr.def_id))));
            io.push(("trait_args", J::A(args_str(tcx, &a[1..], true).into_iter().map(s).collect())));
            io.push(("trait_krate", s(tcx.crate_name(tr.def_id.krate).to_string())));
        }
        if let ty::Adt(def, _) = self_ty.kind() {
            io.push(("self_adt", s(nice(tcx, def.did()))));
            io.push(("self_adt_vis", s(vis_str(tcx, def.did()))));
        }
        o.push(("impl", J::O(io)));
    }
    // unsafe blocks (HIR)
    if let Some(body) = tcx.hir_maybe_body_owned_by(ldid) {
        let mut uc = UnsafeCounter { blocks: 0, locs: vec![] };
        rustc_hir::intravisit::Visitor::visit_body(&mut uc, body);
        o.push(("unsafe_blocks", J::I(uc.blocks as i64)));
        o.push(("unsafe_locs", J::A(uc.locs.iter().map(|sp| s(loc(tcx, *sp))).collect())));
    }
    // MIR
    if tcx.is_mir_available(did) {
        let body = tcx.optimized_mir(did);
        let env = ty::TypingEnv::post_analysis(tcx, did);
        let cx = Cx { tcx, body, did, env };
        o.push(("mir", cx.body_json()));
        // promoted constants of this body (`&(0..N)`, `&N` in a pattern): small bodies that compute the value a
        // `promoted[i]` constant operand refers to
        let proms = tcx.promoted_mir(did);
        let mut pv = vec![];
        for (i, pb) in proms.iter_enumerated() {
            let pcx = Cx { tcx, body: pb, did, env };
            pv.push(J::O(vec![("index", J::I(i.index() as i64)), ("mir", pcx.body_json())]));
        }
        if !pv.is_empty() {
            o.push(("promoted_bodies", J::A(pv)));
        }
        if let Some(layout) = body.coroutine_layout_raw() {
            o.push(("coroutine_variants", J::I(layout.variant_fields.len() as i64)));
        }
    }
    Some(J::O(o))
}

fn adt_record<'tcx>(tcx: TyCtxt<'tcx>, ldid: LocalDefId) -> Option<J> {
    let did = ldid.to_def_id();
    if !matches!(tcx.def_kind(did), DefKind::Struct | DefKind::Enum | DefKind::Union) {
        return None;
    }
    let def = tcx.adt_def(did);
    let mut fields = vec![];
    for v in def.variants() {
        for f in v.fields.iter() {
            fields.push(J::O(vec![
                ("variant", s(v.name.to_string())),
                ("name", s(f.name.to_string())),
                ("ty", s(ty_str(tcx, tcx.type_of(f.did).instantiate_identity().skip_norm_wip()))),
                ("vis", s(vis_str(tcx, f.did))),
            ]));
        }
    }
    let variances: Vec<J> = tcx.variances_of(did).iter().map(|v| s(format!("{:?}", v))).collect();
    let gens = tcx.generics_of(did);
    let mut gv = vec![];
    for i in 0..gens.count() {
        let p = gens.param_at(i, tcx);
        gv.push(s(p.name.to_string()));
    }
    Some(J::O(vec![
        ("path", s(nice(tcx, did))),
        ("short", s(short(tcx, did))),
        ("name", s(tcx.item_name(did).to_string())),
        ("vis", s(vis_str(tcx, did))),
        ("fields", J::A(fields)),
        ("variances", J::A(variances)),
        ("generics", J::A(gv)),
        ("loc", s(loc(tcx, tcx.def_span(did)))),
        ("has_dtor", J::B(tcx.adt_destructor(did).is_some())),
    ]))
}

fn impl_record<'tcx>(tcx: TyCtxt<'tcx>, ldid: LocalDefId) -> Option<J> {
    let did = ldid.to_def_id();
    if let DefKind::Impl { of_trait } = tcx.def_kind(did) {
        let self_ty = tcx.type_of(did).instantiate_identity().skip_norm_wip();
        let mut o = vec![
            ("path", s(nice(tcx, did))),
            ("short", s(short(tcx, did))),
            ("self_ty", s(ty_str(tcx, self_ty))),
            ("of_trait", J::B(of_trait)),
            ("preds", predicates_json(tcx, did)),
            ("loc", s(loc(tcx, tcx.def_span(did)))),
        ];
        if let ty::Adt(def, _) = self_ty.kind() {
            o.push(("self_adt", s(nice(tcx, def.did()))));
        }
        if of_trait {
            let tr = tcx.impl_trait_ref(did).instantiate_identity().skip_norm_wip();
            let a: Vec<ty::GenericArg<'tcx>> = tr.args.iter().collect();
            o.push(("trait", s(nice(tcx, tr.def_id))));
            o.push(("trait_args", J::A(args_str(tcx, &a[1..], true).into_iter().map(s).collect())));
            o.push(("unsafe_impl", J::B(tcx.trait_def(tr.def_id).safety.is_unsafe())));
            o.push(("polarity", s(format!("{:?}", tcx.impl_polarity(did)))));
        }
        let mut items = vec![];
        for it in tcx.associated_items(did).in_definition_order() {
            let mut io = vec![("name", s(it.opt_name().map(|n| n.to_string()).unwrap_or_default())), ("kind", s(format!("{:?}", it.kind).split(|c| c == ' ' || c == '{' || c == '(').next().unwrap_or("").to_string()))];
            if let ty::AssocKind::Type { .. } = it.kind {
                io.push(("ty", s(ty_str(tcx, tcx.type_of(it.def_id).instantiate_identity().skip_norm_wip()))));
            }
            items.push(J::O(io));
        }
        o.push(("items", J::A(items)));
        return Some(J::O(o));
    }
    None
}

// ------------------------------------------------------------------------------------------
// driver
// ------------------------------------------------------------------------------------------

struct Dump {
    target: String,
    out: Option<String>,
    built: Vec<J>,
}

impl Dump {
    fn is_target(&self, tcx: TyCtxt<'_>) -> bool {
        tcx.crate_name(LOCAL_CRATE).as_str() == self.target && self.out.is_some()
    }
}

impl rustc_driver::Callbacks for Dump {
    fn after_expansion<'tcx>(&mut self, _c: &Compiler, tcx: TyCtxt<'tcx>) -> Compilation {
        if !self.is_target(tcx) {
            return Compilation::Continue;
        }
        // pre-borrowck MIR (with Yield terminators) of coroutine bodies; read without stealing
        for ldid in tcx.mir_keys(()).iter() {
            let did = ldid.to_def_id();
            if tcx.coroutine_kind(did).is_some() {
                let body = tcx.mir_built(*ldid).borrow();
                let env = ty::TypingEnv::post_analysis(tcx, did);
                let cx = Cx { tcx, body: &body, did, env };
                self.built.push(J::O(vec![("path", s(nice(tcx, did))), ("short", s(short(tcx, did))), ("mir", cx.body_json())]));
            }
        }
        Compilation::Continue
    }

    fn after_analysis<'tcx>(&mut self, _c: &Compiler, tcx: TyCtxt<'tcx>) -> Compilation {
        if !self.is_target(tcx) {
            return Compilation::Continue;
        }
        let mut fns = vec![];
        let mut adts = vec![];
        let mut impls = vec![];
        let mut keys: Vec<LocalDefId> = tcx.mir_keys(()).iter().copied().collect();
        keys.sort_by_key(|k| tcx.def_span(k.to_def_id()).lo());
        for ldid in keys {
            if let Some(j) = fn_record(tcx, ldid) {
                fns.push(j);
            }
        }
        let items = tcx.hir_crate_items(());
        let mut externs = vec![];
        let mut foreign = 0i64;
        for ldid in items.definitions() {
            if let Some(j) = adt_record(tcx, ldid) {
                adts.push(j);
            }
            if let Some(j) = impl_record(tcx, ldid) {
                impls.push(j);
            }
            match tcx.def_kind(ldid.to_def_id()) {
                DefKind::ExternCrate => externs.push(s(tcx.item_name(ldid.to_def_id()).to_string())),
                DefKind::ForeignMod => foreign += 1,
                _ => {}
            }
        }
        let mut crates = vec![];
        for cnum in tcx.crates(()).iter() {
            crates.push(s(tcx.crate_name(*cnum).to_string()));
        }
        // coroutine witnesses of external coroutines that local async bodies poll
        let doc = J::O(vec![
            ("crate", s(self.target.clone())),
            ("fns", J::A(fns)),
            ("adts", J::A(adts)),
            ("impls", J::A(impls)),
            ("extern_crates", J::A(externs)),
            ("foreign_mods", J::I(foreign)),
            ("crates", J::A(crates)),
            ("built", J::A(std::mem::take(&mut self.built))),
        ]);
        let mut out = String::new();
        doc.write(&mut out);
        std::fs::write(self.out.as_ref().unwrap(), out).expect("mirdump: cannot write output");
        Compilation::Continue
    }
}

fn main() {
    let mut args: Vec<String> = std::env::args().collect();
    // wrapper mode: argv[1] is the path of the real rustc
    if args.len() > 1 && (args[1].ends_with("rustc") || args[1].contains("/rustc")) {
        args.remove(1);
    }
    let target = std::env::var("MIRDUMP_CRATE").unwrap_or_else(|_| "circular_buffer".to_string());
    let out = std::env::var("MIRDUMP_OUT").ok();
    let mut cb = Dump { target, out, built: vec![] };
    rustc_driver::run_compiler(&args, &mut cb);
}
