"""KIND1 — index-kind (qualifier) inference.

Every usize value in the crate is a *logical* index / length (relative to the front of the
sequence: parameters `index`, `i`, `j`, `len`, range bounds, `size`, slice lengths) or a *physical*
position in the backing array (`start`, results of add_mod/sub_mod, `CircularSlicePtr.offset`).
The two live in the same machine type, so the compiler cannot tell a mix-up; this rule infers the
kind of each expression from its provenance and reports
  (1) an ordering/equality test between a physical position and a logical index or length,
  (2) the backing array indexed (or a pointer into it offset) by a logical index,
  (3) a physical position passed where an in-crate function expects a logical index,
  (4) add_mod/sub_mod whose first operand is not a position or whose second operand is one.
Expressions of unknown kind (joins, results of unmodelled calls) never produce a report.
"""
from . import guards, mir
from .report import short_loc

PHYS, LOG, LEN, CAP, CONST = "physical position", "logical index", "length", "capacity", "constant"

LOGICAL_PARAMS = {
    "CircularBuffer::get": [1], "CircularBuffer::get_mut": [1], "CircularBuffer::remove": [1], "CircularBuffer::swap": [1, 2],
    "CircularBuffer::nth_front": [1], "CircularBuffer::nth_front_mut": [1], "CircularBuffer::nth_back": [1], "CircularBuffer::nth_back_mut": [1],
    "CircularBuffer::truncate_back": [1], "CircularBuffer::truncate_front": [1], "CircularBuffer::get_maybe_uninit": [1],
    "CircularBuffer::get_maybe_uninit_mut": [1], "Drain::read": [1], "CircularBuffer::swap_remove_back": [1], "CircularBuffer::swap_remove_front": [1],
}
POSITION_FNS = ("add_mod", "sub_mod")


def kind(f, e, depth=0):
    e = mir.strip_casts(e)
    if not isinstance(e, tuple) or not e or depth > 12:
        return None
    k = e[0]
    if k == "int":
        return CONST
    if k == "cparam":
        return CAP
    if k == "load":
        path = e[2]
        if path == ("start",) or (path and path[-1] == "offset"):
            return PHYS
        if path and path[-1] in ("size", "buf_size", "initialized"):
            return LEN
        if path and path[-1] == "slice_len":
            return CAP
        if len(path) >= 2 and path[-2] in ("range", "iter") and path[-1] in ("start", "end"):
            return LOG
        return None
    if k == "field":
        if e[2] == "offset":
            return PHYS
        if e[2] == "slice_len":
            return CAP
        if e[2] in ("start", "end") and isinstance(e[1], tuple) and e[1][0] in ("param", "field", "load", "agg"):
            return LOG  # a Range<usize> value: logical bounds
        if isinstance(e[1], tuple) and e[1][0] == "call" and e[1][1] == "translate_range_bounds":
            return LOG
        if isinstance(e[1], tuple) and e[1][0] == "as":
            return kind(f, e[1][1], depth + 1) if False else None
        return None
    if k == "call":
        if e[1] in POSITION_FNS:
            return PHYS
        if e[1] in ("CircularSlicePtr::available_len",):
            return LEN
        return None
    if k == "pcall":
        if e[1] in ("<[T]>::len",):
            return LEN
        if e[1] in ("core::cmp::min", "core::cmp::max", "core::cmp::Ord::min", "core::cmp::Ord::max", "<usize>::min"):
            ks = {kind(f, a, depth + 1) for a in e[2]}
            ks.discard(None)
            ks.discard(CONST)
            return next(iter(ks)) if len(ks) == 1 else None
        return None
    if k == "param":
        if f.local_ty(e[1]) != "usize":
            return None
        name = f.local_name(e[1])
        if f.short in POSITION_FNS:
            return None
        if name in ("start", "offset"):
            return PHYS
        if name in ("size",):
            return LEN
        return LOG
    if k == "binop":
        op = e[1]
        a, b = kind(f, e[2], depth + 1), kind(f, e[3], depth + 1)
        if op.startswith("Sub"):
            if a == PHYS and b == PHYS:
                return LEN
            if a == CAP and b in (PHYS, CONST, LOG, LEN):
                return LEN if b != CONST else CAP
            if a in (LEN, LOG) and b in (LEN, LOG, CONST):
                return LEN if a == LEN and b == CONST else (LOG if LOG in (a, b) else LEN)
            if a == PHYS:
                return PHYS if b in (CONST,) else None
            return None
        if op.startswith("Add"):
            if PHYS in (a, b):
                return PHYS
            if a in (LEN, LOG) and b in (LEN, LOG, CONST):
                return LOG if LOG in (a, b) else LEN
            return None
        if op in ("Div", "Mul", "Rem", "Shr", "Shl"):
            return a if a in (LEN, LOG, PHYS) else None
        return None
    return None


def run(ctx, prog, cfg, rule="KIND1", only=None):
    n = 0
    for f in prog.fns.values():
        if not f.has_mir or f.short in POSITION_FNS:
            continue
        if only is not None and not only(f.short):
            continue
        for b in sorted(f.reachable(False)):
            t = f.term(b)
            nst = len(f.blocks[b]["stmts"])
            # (1) comparisons deciding a branch
            if t["k"] == "switch" and f._switch_const(t, b) is None:
                d = mir.strip_casts(f.deep_simplify(f.operand_expr(t["discr"], b, nst)))
                if isinstance(d, tuple) and d[0] == "unop":
                    d = mir.strip_casts(d[2])
                if isinstance(d, tuple) and d[0] == "binop" and d[1] in ("Lt", "Le", "Gt", "Ge", "Eq", "Ne"):
                    ka, kb = kind(f, d[2]), kind(f, d[3])
                    if ka and kb:
                        n += 1
                        bad = (ka == PHYS and kb in (LOG, LEN)) or (kb == PHYS and ka in (LOG, LEN))
                        ctx.check(not bad, rule, f.short, "comparison %s(%s, %s)" % (d[1], mir.fmt(d[2], f)[:40], mir.fmt(d[3], f)[:40]), short_loc(f, b),
                                  "a %s (`%s`) is compared with a %s (`%s`): physical slot numbers and logical indices/lengths are only "
                                  "related through add_mod(start, _, N); the branch taken depends on the internal rotation"
                                  % (ka, mir.fmt(d[2], f), kb, mir.fmt(d[3], f)),
                                  "%s vs %s" % (ka, kb), cfg)
            # (2) element index into the backing array
            if t["k"] == "assert" and t.get("msg") == "BoundsCheck" and t["len"].get("param"):
                ie = f.deep_simplify(f.operand_expr(t["index"], b, nst))
                ki = kind(f, ie)
                if ki:
                    n += 1
                    ctx.check(ki not in (LOG, LEN), rule, f.short, "storage indexed by `%s`" % mir.fmt(ie, f)[:50], short_loc(f, b),
                              "the backing array is indexed with a %s (`%s`) instead of a physical position: the slot addressed is wrong "
                              "whenever `start` is not 0" % (ki, mir.fmt(ie, f)), "index is a %s" % ki, cfg)
            if t["k"] != "call":
                continue
            cs = mir.callee_short(t)
            args = [f.deep_simplify(a) for a in f.call_args(b)]
            # (3) logical parameters of in-crate functions
            if cs in LOGICAL_PARAMS:
                for idx in LOGICAL_PARAMS[cs]:
                    if idx < len(args):
                        ka = kind(f, args[idx])
                        if ka:
                            n += 1
                            ctx.check(ka != PHYS, rule, f.short, "%s(.., %s)" % (cs.split("::")[-1], mir.fmt(args[idx], f)[:40]), short_loc(f, b),
                                      "a physical position (`%s`) is passed to `%s`, which expects a logical index" % (mir.fmt(args[idx], f), cs),
                                      "argument is a %s" % ka, cfg)
            # (4) add_mod / sub_mod operands
            if cs in POSITION_FNS and len(args) == 3:
                ka, kb = kind(f, args[0]), kind(f, args[1])
                if ka or kb:
                    n += 1
                    bad = (ka in (LOG, LEN)) or (kb == PHYS)
                    ctx.check(not bad, rule, f.short, "%s(%s, %s, _)" % (cs, mir.fmt(args[0], f)[:30], mir.fmt(args[1], f)[:30]), short_loc(f, b),
                              "`%s` is applied to (%s, %s): its first operand must be a physical position and its second a logical "
                              "offset" % (cs, ka or "?", kb or "?"), "%s(%s, %s)" % (cs, ka or "?", kb or "?"), cfg)
            # (5) slicing / splitting / rotating the backing array itself
            p_ = mir.callee_path(t) or ""
            if ("Index<I>>::index" in p_ or "IndexMut<I>>::index_mut" in p_ or p_ in ("<[T]>::split_at", "<[T]>::split_at_mut", "<[T]>::rotate_left", "<[T]>::rotate_right")) and len(args) == 2:
                base = args[0]
                direct = any(isinstance(s, tuple) and s and s[0] == "place" and s[2] and s[2][0] == "items" for s in mir.walk(base)) and not any(
                    isinstance(s, tuple) and s and s[0] == "call" and s[1] not in ("NonNull::as_ref", "NonNull::as_mut") for s in mir.walk(base))
                if direct:
                    bounds = list(args[1][3]) if isinstance(args[1], tuple) and args[1][0] == "agg" else [("position", args[1])]
                    for bname, be in bounds:
                        kb = kind(f, be)
                        if not kb:
                            continue
                        n += 1
                        ok = kb in (PHYS, CONST, CAP)
                        why = "bound `%s` is a %s" % (bname, kb)
                        if not ok and kb == LEN and bname == "end":
                            # `&mut items[..size]` is the whole sequence once `start` has been set to 0
                            zero_store = [(bb, ii) for bb, ii, st, it in f.positions(False) if not it and st["k"] == "assign" and mir.place_has_deref(st["place"])
                                          and mir.place_fields(st["place"])[-1:] == ["start"] and mir.strip_casts(f.rvalue_expr(st["rv"], bb, ii)) == ("int", 0)]
                            if zero_store and all(f.pos_dominates(z, (b, nst), False) for z in zero_store[:1]):
                                ok = True
                                why = "prefix [..size] after `start = 0` (bb%d)" % zero_store[0][0]
                        ctx.check(ok, rule, f.short, "storage %s by %s `%s`" % (p_.split("::")[-1], bname, mir.fmt(be, f)[:40]), short_loc(f, b),
                                  "the backing array itself is sliced/split/rotated at a %s (`%s`): its slots are numbered physically, a logical "
                                  "index or a length addresses the wrong slots whenever `start` is not 0" % (kb, mir.fmt(be, f)), why, cfg)
            # (2') pointer offsets into the backing array
            if mir.callee_path(t) in ("<*mut T>::add", "<*const T>::add") and len(args) == 2:
                root_items = any(isinstance(s, tuple) and s and s[0] == "load" and s[2] and s[2][0] == "items" for s in mir.walk(args[0])) or \
                    any(isinstance(s, tuple) and s and s[0] == "call" and s[1] == "<[T]>::as_mut_ptr" for s in mir.walk(args[0]))
                ka = kind(f, args[1])
                if root_items and ka:
                    n += 1
                    ctx.check(ka != LOG, rule, f.short, "pointer offset `%s`" % mir.fmt(args[1], f)[:40], short_loc(f, b),
                              "a pointer into the backing array is offset by a logical index (`%s`)" % mir.fmt(args[1], f), "offset is a %s" % ka, cfg)
    return n
