"""Normalisation of library plumbing in the MIR before any rule runs, so that rules see the control flow the
source expresses, whatever it is spelled with:

* `x?` on an Option: `Try::branch(x)` + match on ControlFlow + `FromResidual::from_residual(..)` becomes a match on
  `x` itself: `Some(v)` continues with v, `None` assigns `None` to the return place.
* closures handed to Option/bool combinators (`map`, `and_then`, `or_else`, `filter`, `then`): the combinator call
  becomes the match it stands for, with the closure body inlined at the point where the combinator would call it
  (rules/inline.py's block splicing). A guard, a store or a call inside such a closure is then a guard, a store
  or a call of the enclosing function.

Both are semantics-preserving rewrites of the documented behaviour of these std items; nothing here is specific to
the crate under analysis."""
import copy
import json

OPT_BRANCH = "<core::option::Option<T> as core::ops::try_trait::Try>::branch"
OPT_RESIDUAL = "<core::option::Option<T> as core::ops::try_trait::FromResidual<core::option::Option<core::convert::Infallible>>>::from_residual"


def _callee(t):
    fn = (t.get("func") or {}).get("fn") or {}
    return fn.get("rpath") or fn.get("path")


def _rewrite_places(node, T, xplace):
    """replace places rooted at local T with a leading `as Continue .0` projection by xplace `as Some .0`"""
    if isinstance(node, dict):
        if "local" in node and "proj" in node and node["local"] == T and isinstance(node["proj"], list):
            pr = node["proj"]
            if len(pr) >= 2 and pr[0].get("k") == "downcast" and pr[0].get("variant") == "Continue" and pr[1].get("k") == "field":
                node["local"] = xplace["local"]
                node["proj"] = copy.deepcopy(xplace["proj"]) + [{"k": "downcast", "variant": "Some", "i": 1}] + pr[1:]
            return
        for v in node.values():
            _rewrite_places(v, T, xplace)
    elif isinstance(node, list):
        for v in node:
            _rewrite_places(v, T, xplace)


def desugar_try(mirj):
    """in place; returns the number of `?` sites rewritten"""
    if not mirj:
        return 0
    blocks = mirj["blocks"]
    n = 0
    for blk in blocks:
        t = blk["term"]
        if t["k"] != "call" or _callee(t) != OPT_BRANCH or not t.get("args") or t.get("target") is None:
            continue
        a = t["args"][0]
        if a.get("k") not in ("move", "copy") or t["dest"]["proj"]:
            continue
        T = t["dest"]["local"]
        xplace = {"local": a["place"]["local"], "proj": copy.deepcopy(a["place"]["proj"]), "ty": a["place"].get("ty")}
        # 1. discriminant(T) -> discriminant(x), with the two targets of the switch exchanged (Continue=0/Break=1 vs None=0/Some=1)
        disc_locals = set()
        for b2 in blocks:
            for st in b2["stmts"]:
                if st["k"] == "assign" and st["rv"]["k"] == "discriminant" and st["rv"]["place"]["local"] == T and not st["rv"]["place"]["proj"]:
                    st["rv"]["place"] = copy.deepcopy(xplace)
                    if not st["place"]["proj"]:
                        disc_locals.add(st["place"]["local"])
        ok = bool(disc_locals)
        for b2 in blocks:
            t2 = b2["term"]
            if t2["k"] == "switch" and t2["discr"].get("k") in ("move", "copy") and t2["discr"]["place"]["local"] in disc_locals and not t2["discr"]["place"]["proj"]:
                tg = {str(v): bb for v, bb in t2["targets"]}
                if set(tg) == {"0", "1"}:
                    t2["targets"] = [["0", tg["1"]], ["1", tg["0"]]]
                else:
                    ok = False
        if not ok:
            continue
        # 2. payload places
        for b2 in blocks:
            _rewrite_places(b2["stmts"], T, xplace)
            _rewrite_places({k: v for k, v in b2["term"].items() if k != "func"}, T, xplace)
        # 3. the branch call itself disappears
        blk["term"] = {"k": "goto", "target": t["target"], "loc": t.get("loc"), "desugared": "?"}
        n += 1
    if n:
        for blk in blocks:
            t = blk["term"]
            if t["k"] == "call" and _callee(t) == OPT_RESIDUAL and t.get("target") is not None:
                ty = t["dest"].get("ty", "")
                inner = ty[ty.index("<") + 1:-1] if "<" in ty else "T"
                blk["stmts"].append({"k": "assign", "place": copy.deepcopy(t["dest"]), "loc": t.get("loc"),
                                     "rv": {"k": "aggregate", "agg": "adt", "adt": "core::option::Option", "variant": "None", "vi": 0, "args": [inner], "fields": []}})
                blk["term"] = {"k": "goto", "target": t["target"], "loc": t.get("loc"), "desugared": "?"}
    return n


RES_BRANCH = "<core::result::Result<T, E> as core::ops::try_trait::Try>::branch"


def desugar_try_result(mirj):
    """`x?` on a Result: the match on `Try::branch(x)` becomes the match on x itself (Ok = Continue, Err = Break); the
    residual handed to `from_residual` is rebuilt as `Err((x as Err).0)`, the conversion call itself stays.
    In place; returns the number of sites."""
    if not mirj:
        return 0
    blocks = mirj["blocks"]
    n = 0
    for blk in blocks:
        t = blk["term"]
        if t["k"] != "call" or _callee(t) != RES_BRANCH or not t.get("args") or t.get("target") is None:
            continue
        a = t["args"][0]
        if a.get("k") not in ("move", "copy") or t["dest"]["proj"]:
            continue
        T = t["dest"]["local"]
        xplace = {"local": a["place"]["local"], "proj": copy.deepcopy(a["place"]["proj"]), "ty": a["place"].get("ty")}
        okt, errt = _res_inner(xplace.get("ty"))
        found = False
        for b2 in blocks:
            for st in b2["stmts"]:
                if st["k"] != "assign":
                    continue
                rv = st["rv"]
                if rv["k"] == "discriminant" and rv["place"]["local"] == T and not rv["place"]["proj"]:
                    rv["place"] = copy.deepcopy(xplace)
                    found = True
                if rv["k"] == "use" and rv["op"].get("k") in ("copy", "move") and rv["op"]["place"]["local"] == T:
                    pr = rv["op"]["place"]["proj"]
                    if len(pr) == 2 and pr[0].get("k") == "downcast" and pr[0].get("variant") == "Break" and pr[1].get("k") == "field":
                        st["rv"] = {"k": "aggregate", "agg": "adt", "adt": "core::result::Result", "variant": "Err", "vi": 1, "args": ["core::convert::Infallible", errt],
                                    "fields": [{"name": "0", "op": {"k": "move", "place": {"local": xplace["local"], "proj": copy.deepcopy(xplace["proj"]) +
                                                                                    [{"k": "downcast", "variant": "Err", "i": 1}, {"k": "field", "i": 0, "name": "0", "ty": errt}], "ty": errt}}}]}
        if not found:
            continue

        def rw(node):
            if isinstance(node, dict):
                if "local" in node and "proj" in node and node["local"] == T and isinstance(node["proj"], list):
                    pr = node["proj"]
                    if len(pr) >= 2 and pr[0].get("k") == "downcast" and pr[0].get("variant") == "Continue" and pr[1].get("k") == "field":
                        node["local"] = xplace["local"]
                        node["proj"] = copy.deepcopy(xplace["proj"]) + [{"k": "downcast", "variant": "Ok", "i": 0}] + pr[1:]
                    return
                for v in node.values():
                    rw(v)
            elif isinstance(node, list):
                for v in node:
                    rw(v)

        for b2 in blocks:
            rw(b2["stmts"])
            rw({k: v for k, v in b2["term"].items() if k != "func"})
        blk["term"] = {"k": "goto", "target": t["target"], "loc": t.get("loc"), "desugared": "?"}
        n += 1
    return n


def apply(facts):
    """desugar every body of a fact base in place; returns statistics"""
    stats = {"try": 0, "checked_split": 0, "dup_join": 0, "swap_local": 0, "split_tuple": 0}
    for r in list(facts["fns"]) + list(facts.get("built", [])):
        stats["swap_local"] += swaps_with_local(r.get("mir"))
        stats["checked_split"] += checked_splits(r.get("mir"))
        stats["try"] += desugar_try(r.get("mir"))
        stats["try"] += desugar_try_result(r.get("mir"))
        stats["dup_join"] += dup_return_joins(r.get("mir"))
        stats["split_tuple"] += split_tuples(r.get("mir"))
    return stats


# --------------------------------------------------------------------------------------------------
# scalar replacement of tuple locals
# --------------------------------------------------------------------------------------------------

def split_tuples(mirj):
    """A local of tuple type that is only ever assigned whole from a tuple aggregate and read field by field
    (`let mut cursors = (a, b); .. let (x, y) = cursors; .. cursors = (x2, y2);`) is replaced by one local per field.
    A loop-carried pair then is two loop-carried values, as if it had been written with two variables. Locals that are
    borrowed, passed, returned, assigned from anything else or partially assigned are left alone. In place; returns the
    number of locals split."""
    if not mirj:
        return 0
    locs = mirj["locals"]
    nargs = mirj.get("arg_count", 0)
    cand = {}
    for i, l in enumerate(locs):
        ty = l.get("ty", "")
        if i > nargs and i != 0 and ty.startswith("(") and ty.endswith(")") and ty != "()":
            cand[i] = None
    if not cand:
        return 0
    bad = set()
    arity = {}

    def visit_place(pl, whole_ok=False):
        n = pl.get("local")
        if n in cand:
            pr = pl.get("proj") or []
            if pr and pr[0].get("k") == "field":
                return
            if not pr and whole_ok:
                return
            bad.add(n)

    def walk(node):
        if isinstance(node, dict):
            if "local" in node and "proj" in node:
                visit_place(node)
            for k, v in node.items():
                walk(v)
        elif isinstance(node, list):
            for v in node:
                walk(v)

    for blk in mirj["blocks"]:
        for st in blk["stmts"]:
            k = st.get("k")
            if k in ("storagelive", "storagedead"):
                continue
            if k == "assign":
                pl, rv = st["place"], st["rv"]
                if pl.get("local") in cand and not pl.get("proj"):
                    if rv.get("k") == "aggregate" and rv.get("agg") == "tuple":
                        a = len(rv.get("fields", []))
                        if arity.setdefault(pl["local"], a) != a:
                            bad.add(pl["local"])
                        walk(rv)
                        continue
                    bad.add(pl["local"])
                    walk(rv)
                    continue
                if pl.get("local") in cand:
                    bad.add(pl["local"])  # partial assignment
                walk(rv)
                continue
            walk(st)
        walk(blk["term"])
    # only pairs that are carried around a loop: elsewhere a tuple built in two branches and taken apart after the join is
    # the shape the view rules read (and a join of tuples is as good as two joins)
    on_cycle = set()
    for bi, blk in enumerate(mirj["blocks"]):
        for st in blk["stmts"]:
            if st.get("k") == "assign" and st["place"].get("local") in cand and not st["place"].get("proj") and bi in _reach(mirj["blocks"], bi):
                on_cycle.add(st["place"]["local"])
    todo = [n for n in cand if n not in bad and n in arity and n in on_cycle]
    if not todo:
        return 0

    def field_tys(ty):
        body, out, depth, cur = ty[1:-1], [], 0, ""
        for ch in body:
            if ch in "<([":
                depth += 1
            elif ch in ">)]":
                depth -= 1
            if ch == "," and depth == 0:
                out.append(cur.strip())
                cur = ""
            else:
                cur += ch
        if cur.strip():
            out.append(cur.strip())
        return out

    newl = {}
    for n in todo:
        tys = field_tys(locs[n]["ty"])
        if len(tys) != arity[n]:
            continue
        ids = []
        for j, t in enumerate(tys):
            l = dict(locs[n])
            l["ty"] = t
            if l.get("name"):
                l["name"] = "%s.%d" % (l["name"], j)
            locs.append(l)
            ids.append(len(locs) - 1)
        newl[n] = ids
    if not newl:
        return 0

    def rewrite(node):
        if isinstance(node, dict):
            if "local" in node and "proj" in node and node["local"] in newl:
                pr = node["proj"]
                if pr and pr[0].get("k") == "field":
                    node["local"] = newl[node["local"]][pr[0]["i"]]
                    node["proj"] = pr[1:]
            for v in node.values():
                rewrite(v)
        elif isinstance(node, list):
            for v in node:
                rewrite(v)

    for blk in mirj["blocks"]:
        out = []
        for st in blk["stmts"]:
            k = st.get("k")
            if k in ("storagelive", "storagedead") and st.get("local") in newl:
                for m_ in newl[st["local"]]:
                    out.append(dict(st, local=m_))
                continue
            if k == "assign" and st["place"].get("local") in newl and not st["place"].get("proj"):
                rv = st["rv"]
                tmp = []
                # evaluate all operands first (an operand may read a field of the tuple being replaced)
                for j, fl in enumerate(rv["fields"]):
                    op = fl["op"]
                    rewrite(op)
                    m_ = newl[st["place"]["local"]][j]
                    tmp.append({"k": "assign", "place": {"local": m_, "proj": [], "ty": locs[m_]["ty"]}, "rv": {"k": "use", "op": op}, "loc": st.get("loc")})
                reads_self = any(('"local": %d,' % x) in json.dumps(t_["rv"]) for t_ in tmp for x in newl[st["place"]["local"]])
                if reads_self and len(tmp) > 1:
                    # (a, b) = (b, a)-style: go through fresh temporaries
                    pre, post = [], []
                    for t_ in tmp:
                        locs.append(dict(locs[t_["place"]["local"]], name=None))
                        tl = len(locs) - 1
                        pre.append({"k": "assign", "place": {"local": tl, "proj": [], "ty": locs[tl]["ty"]}, "rv": t_["rv"], "loc": t_.get("loc")})
                        post.append({"k": "assign", "place": t_["place"], "rv": {"k": "use", "op": {"k": "move", "place": {"local": tl, "proj": [], "ty": locs[tl]["ty"]}}}, "loc": t_.get("loc")})
                    out.extend(pre + post)
                else:
                    out.extend(tmp)
                continue
            rewrite(st)
            out.append(st)
        blk["stmts"] = out
        rewrite(blk["term"])
    return len(newl)


# --------------------------------------------------------------------------------------------------
# closures handed to Option / bool combinators
# --------------------------------------------------------------------------------------------------

COMBINATORS = {
    "core::option::Option::map": "map",
    "core::option::Option::and_then": "and_then",
    "core::option::Option::or_else": "or_else",
    "core::option::Option::filter": "filter",
    "core::option::Option::unwrap_or_else": "unwrap_or_else",
    "core::option::Option::is_some_and": "is_some_and",
    "core::bool::<impl bool>::then": "then",
    "<bool>::then": "then",
    "core::result::Result::map": "r_map",
    "core::result::Result::and_then": "r_and_then",
    "core::result::Result::map_err": "r_map_err",
    "core::result::Result::or_else": "r_or_else",
    "core::result::Result::unwrap_or_else": "r_unwrap_or_else",
    # an index loop spelled `(a..b).for_each(|i| ..)`: only for a Range<usize> receiver (see combinators())
    "core::iter::traits::iterator::Iterator::for_each": "range_for_each",
}


def _res_inner(ty):
    ty = ty or ""
    p = "core::result::Result<"
    if not (ty.startswith(p) and ty.endswith(">")):
        return "?", "?"
    body, depth = ty[len(p):-1], 0
    for i, ch in enumerate(body):
        if ch in "<([":
            depth += 1
        elif ch in ">)]":
            depth -= 1
        elif ch == "," and depth == 0:
            return body[:i].strip(), body[i + 1:].strip()
    return body, "?"


def _res(variant, tys, op):
    return {"k": "aggregate", "agg": "adt", "adt": "core::result::Result", "variant": variant, "vi": 0 if variant == "Ok" else 1, "args": list(tys),
            "fields": [{"name": "0", "op": op}]}


def _opt_inner(ty):
    ty = ty or ""
    p = "core::option::Option<"
    return ty[len(p):-1] if ty.startswith(p) and ty.endswith(">") else "?"


def _closure_of(prog, operand):
    if operand.get("k") not in ("move", "copy") or operand["place"]["proj"]:
        return None
    ty = str(operand["place"].get("ty", ""))
    if not ty.startswith("{closure:") or not ty.endswith("}"):
        return None
    path = ty[len("{closure:"):-1]
    for f in prog.fns.values():
        if f.path == path and f.has_mir:
            return f
    return None


def _new_local(m, ty, name=None):
    m["locals"].append({"ty": ty, "name": name, "tparam": False, "needs_drop": False})
    return len(m["locals"]) - 1


def _none(ty_inner):
    return {"k": "aggregate", "agg": "adt", "adt": "core::option::Option", "variant": "None", "vi": 0, "args": [ty_inner], "fields": []}


def _some(ty_inner, op):
    return {"k": "aggregate", "agg": "adt", "adt": "core::option::Option", "variant": "Some", "vi": 1, "args": [ty_inner], "fields": [{"name": "0", "op": op}]}


def _closure_call(h, env_local, env_ty, payload_ops, dest, target, unwind, loc, m, pre):
    """a synthetic direct call of closure fn h; `pre` receives the statements that prepare the environment argument"""
    self_ty = h.locals[1]["ty"] if len(h.locals) > 1 else env_ty
    if self_ty.startswith("&"):
        e = _new_local(m, self_ty)
        pre.append({"k": "assign", "place": {"local": e, "proj": [], "ty": self_ty}, "loc": loc,
                    "rv": {"k": "ref", "mut": self_ty.startswith("&mut"), "bk": "Mut" if self_ty.startswith("&mut") else "Shared",
                           "place": {"local": env_local, "proj": [], "ty": env_ty}}})
        env_op = {"k": "move", "place": {"local": e, "proj": [], "ty": self_ty}}
    else:
        env_op = {"k": "move", "place": {"local": env_local, "proj": [], "ty": env_ty}}
    fn = {"path": h.path, "short": h.short, "krate": "circular_buffer", "name": h.name, "local": True, "args": [], "rkind": "item",
          "rpath": h.path, "rshort": h.short, "rkrate": "circular_buffer", "rlocal": True, "rargs": [], "preds": []}
    return {"k": "call", "func": {"k": "const", "ty": "closure", "fn": fn, "disp": h.short}, "args": [env_op] + payload_ops, "dest": dest,
            "arg_drop_impls": [], "arg_user_drop": False, "target": target, "unwind": unwind, "loc": loc, "desugared": "closure-call"}


def _expand(prog, rec, b, kind, h):
    """rewrite the combinator call ending block b of rec (a deep copy) into the match it stands for; returns the indices
    of the blocks that now end in a synthetic closure call"""
    m = rec["mir"]
    blk = m["blocks"][b]
    t = blk["term"]
    loc = t.get("loc")
    tgt, unwind, dest = t["target"], t.get("unwind", "continue"), t["dest"]
    x_op, c_op = t["args"][0], t["args"][1]
    env_local, env_ty = c_op["place"]["local"], c_op["place"].get("ty")
    calls = []

    def add_block(stmts, term):
        m["blocks"].append({"cleanup": False, "stmts": stmts, "term": term})
        return len(m["blocks"]) - 1

    goto_tgt = {"k": "goto", "target": tgt, "loc": loc}
    if kind == "range_for_each":
        # (a..b).for_each(f)  ==  loop { match Range::next(&mut r) { Some(i) => f(i), None => break } }
        R, rty = x_op["place"]["local"], x_op["place"]["ty"]
        oty = "core::option::Option<usize>"
        r = _new_local(m, oty)
        rr = _new_local(m, "&mut " + rty)
        d = _new_local(m, "isize")
        u = _new_local(m, "()")
        exit_b = add_block([{"k": "assign", "place": copy.deepcopy(dest), "loc": loc, "rv": {"k": "aggregate", "agg": "tuple", "fields": []}}], dict(goto_tgt))
        unreach = add_block([], {"k": "unreachable", "loc": loc})
        head = add_block([], {"k": "goto", "target": 0, "loc": loc})      # patched below
        payload = {"local": r, "proj": [{"k": "downcast", "variant": "Some", "i": 1}, {"k": "field", "i": 0, "name": "0", "ty": "usize"}], "ty": "usize"}
        pre = []
        call = _closure_call(h, env_local, env_ty, [{"k": "move", "place": payload}], {"local": u, "proj": [], "ty": "()"}, head, unwind, loc, m, pre)
        body_b = add_block(pre, call)
        calls.append(body_b)
        chk = add_block([{"k": "assign", "place": {"local": d, "proj": [], "ty": "isize"}, "loc": loc, "rv": {"k": "discriminant", "place": {"local": r, "proj": [], "ty": oty}}}],
                        {"k": "switch", "discr": {"k": "move", "place": {"local": d, "proj": [], "ty": "isize"}}, "targets": [["0", exit_b], ["1", body_b]], "otherwise": unreach,
                         "loc": loc, "desugared": "range_for_each"})
        nx = _ext_fn("<core::ops::range::Range<A> as core::iter::traits::iterator::Iterator>::next", ["usize"])
        nx["fn"]["short"] = nx["fn"]["rshort"] = "<Range<A> as Iterator>::next"
        m["blocks"][head]["stmts"] = [{"k": "assign", "place": {"local": rr, "proj": [], "ty": "&mut " + rty}, "loc": loc,
                                       "rv": {"k": "ref", "mut": True, "bk": "Mut", "place": {"local": R, "proj": [], "ty": rty}}}]
        m["blocks"][head]["term"] = {"k": "call", "func": nx, "args": [{"k": "move", "place": {"local": rr, "proj": [], "ty": "&mut " + rty}}],
                                     "dest": {"local": r, "proj": [], "ty": oty}, "arg_drop_impls": [], "arg_user_drop": False, "target": chk, "unwind": unwind, "loc": loc,
                                     "desugared": "range_for_each"}
        blk["term"] = {"k": "goto", "target": head, "loc": loc, "desugared": "range_for_each"}
        return calls
    if kind == "then":
        inner = _opt_inner(dest.get("ty"))
        q = _new_local(m, inner)
        after = add_block([{"k": "assign", "place": copy.deepcopy(dest), "loc": loc, "rv": _some(inner, {"k": "move", "place": {"local": q, "proj": [], "ty": inner}})}], dict(goto_tgt))
        pre = []
        call = _closure_call(h, env_local, env_ty, [], {"local": q, "proj": [], "ty": inner}, after, unwind, loc, m, pre)
        bt = add_block(pre, call)
        calls.append(bt)
        bf = add_block([{"k": "assign", "place": copy.deepcopy(dest), "loc": loc, "rv": _none(inner)}], dict(goto_tgt))
        blk["term"] = {"k": "switch", "discr": x_op, "targets": [["0", bf]], "otherwise": bt, "loc": loc, "desugared": "then"}
        return calls
    if kind.startswith("r_"):
        # Result-valued receiver: Ok = 0, Err = 1
        if x_op.get("k") not in ("move", "copy"):
            return None
        xplace = x_op["place"]
        okt, errt = _res_inner(xplace.get("ty"))
        dokt, derrt = _res_inner(dest.get("ty"))
        p_ok = {"local": xplace["local"], "proj": copy.deepcopy(xplace["proj"]) + [{"k": "downcast", "variant": "Ok", "i": 0}, {"k": "field", "i": 0, "name": "0", "ty": okt}], "ty": okt}
        p_err = {"local": xplace["local"], "proj": copy.deepcopy(xplace["proj"]) + [{"k": "downcast", "variant": "Err", "i": 1}, {"k": "field", "i": 0, "name": "0", "ty": errt}], "ty": errt}
        d = _new_local(m, "isize")
        blk["stmts"].append({"k": "assign", "place": {"local": d, "proj": [], "ty": "isize"}, "loc": loc, "rv": {"k": "discriminant", "place": copy.deepcopy(xplace)}})
        unreach = add_block([], {"k": "unreachable", "loc": loc})

        def passthrough(variant, payload):
            if kind == "r_unwrap_or_else":
                rv = {"k": "use", "op": {"k": "move", "place": payload}}
            else:
                rv = _res(variant, (dokt, derrt), {"k": "move", "place": payload})
            return add_block([{"k": "assign", "place": copy.deepcopy(dest), "loc": loc, "rv": rv}], dict(goto_tgt))

        def through_closure(payload, wrap):
            pre = []
            if wrap is None:
                call = _closure_call(h, env_local, env_ty, [{"k": "move", "place": payload}], copy.deepcopy(dest), tgt, unwind, loc, m, pre)
                bcall = add_block(pre, call)
            else:
                qt = dokt if wrap == "Ok" else derrt
                q = _new_local(m, qt)
                after = add_block([{"k": "assign", "place": copy.deepcopy(dest), "loc": loc, "rv": _res(wrap, (dokt, derrt), {"k": "move", "place": {"local": q, "proj": [], "ty": qt}})}], dict(goto_tgt))
                call = _closure_call(h, env_local, env_ty, [{"k": "move", "place": payload}], {"local": q, "proj": [], "ty": qt}, after, unwind, loc, m, pre)
                bcall = add_block(pre, call)
            calls.append(bcall)
            return bcall

        if kind == "r_map":
            b_ok, b_err = through_closure(p_ok, "Ok"), passthrough("Err", p_err)
        elif kind == "r_and_then":
            b_ok, b_err = through_closure(p_ok, None), passthrough("Err", p_err)
        elif kind == "r_map_err":
            b_ok, b_err = passthrough("Ok", p_ok), through_closure(p_err, "Err")
        elif kind in ("r_or_else", "r_unwrap_or_else"):
            b_ok, b_err = passthrough("Ok", p_ok), through_closure(p_err, None)
        else:
            return None
        blk["term"] = {"k": "switch", "discr": {"k": "move", "place": {"local": d, "proj": [], "ty": "isize"}}, "targets": [["0", b_ok], ["1", b_err]], "otherwise": unreach,
                       "loc": loc, "desugared": kind}
        return calls
    # Option-valued receiver
    if x_op.get("k") not in ("move", "copy"):
        return None
    xplace = x_op["place"]
    xty = xplace.get("ty")
    xin = _opt_inner(xty)
    payload = {"local": xplace["local"], "proj": copy.deepcopy(xplace["proj"]) + [{"k": "downcast", "variant": "Some", "i": 1}, {"k": "field", "i": 0, "name": "0", "ty": xin}], "ty": xin}
    d = _new_local(m, "isize")
    blk["stmts"].append({"k": "assign", "place": {"local": d, "proj": [], "ty": "isize"}, "loc": loc, "rv": {"k": "discriminant", "place": copy.deepcopy(xplace)}})
    unreach = add_block([], {"k": "unreachable", "loc": loc})
    dinner = _opt_inner(dest.get("ty"))
    if kind == "map":
        q = _new_local(m, dinner)
        after = add_block([{"k": "assign", "place": copy.deepcopy(dest), "loc": loc, "rv": _some(dinner, {"k": "move", "place": {"local": q, "proj": [], "ty": dinner}})}], dict(goto_tgt))
        pre = []
        call = _closure_call(h, env_local, env_ty, [{"k": "move", "place": payload}], {"local": q, "proj": [], "ty": dinner}, after, unwind, loc, m, pre)
        bs = add_block(pre, call)
        calls.append(bs)
        bn = add_block([{"k": "assign", "place": copy.deepcopy(dest), "loc": loc, "rv": _none(dinner)}], dict(goto_tgt))
    elif kind == "and_then":
        pre = []
        call = _closure_call(h, env_local, env_ty, [{"k": "move", "place": payload}], copy.deepcopy(dest), tgt, unwind, loc, m, pre)
        bs = add_block(pre, call)
        calls.append(bs)
        bn = add_block([{"k": "assign", "place": copy.deepcopy(dest), "loc": loc, "rv": _none(dinner)}], dict(goto_tgt))
    elif kind == "or_else":
        bs = add_block([{"k": "assign", "place": copy.deepcopy(dest), "loc": loc, "rv": {"k": "use", "op": copy.deepcopy(x_op)}}], dict(goto_tgt))
        pre = []
        call = _closure_call(h, env_local, env_ty, [], copy.deepcopy(dest), tgt, unwind, loc, m, pre)
        bn = add_block(pre, call)
        calls.append(bn)
    elif kind == "unwrap_or_else":
        bs = add_block([{"k": "assign", "place": copy.deepcopy(dest), "loc": loc, "rv": {"k": "use", "op": {"k": "move", "place": payload}}}], dict(goto_tgt))
        pre = []
        call = _closure_call(h, env_local, env_ty, [], copy.deepcopy(dest), tgt, unwind, loc, m, pre)
        bn = add_block(pre, call)
        calls.append(bn)
    elif kind in ("filter", "is_some_and"):
        tb = _new_local(m, "bool")
        if kind == "filter":
            keep = add_block([{"k": "assign", "place": copy.deepcopy(dest), "loc": loc, "rv": _some(dinner, {"k": "move", "place": copy.deepcopy(payload)})}], dict(goto_tgt))
            drop_ = add_block([{"k": "assign", "place": copy.deepcopy(dest), "loc": loc, "rv": _none(dinner)}], dict(goto_tgt))
            test = add_block([], {"k": "switch", "discr": {"k": "move", "place": {"local": tb, "proj": [], "ty": "bool"}}, "targets": [["0", drop_]], "otherwise": keep, "loc": loc})
            r = _new_local(m, "&" + xin)
            pre = [{"k": "assign", "place": {"local": r, "proj": [], "ty": "&" + xin}, "loc": loc, "rv": {"k": "ref", "mut": False, "bk": "Shared", "place": payload}}]
            call = _closure_call(h, env_local, env_ty, [{"k": "move", "place": {"local": r, "proj": [], "ty": "&" + xin}}], {"local": tb, "proj": [], "ty": "bool"}, test, unwind, loc, m, pre)
            bs = add_block(pre, call)
            calls.append(bs)
            bn = drop_
        else:
            pre = []
            call = _closure_call(h, env_local, env_ty, [{"k": "move", "place": payload}], copy.deepcopy(dest), tgt, unwind, loc, m, pre)
            bs = add_block(pre, call)
            calls.append(bs)
            bn = add_block([{"k": "assign", "place": copy.deepcopy(dest), "loc": loc, "rv": {"k": "use", "op": {"k": "const", "ty": "bool", "int": "0", "disp": "false"}}}], dict(goto_tgt))
    else:
        return None
    blk["term"] = {"k": "switch", "discr": {"k": "move", "place": {"local": d, "proj": [], "ty": "isize"}}, "targets": [["0", bn], ["1", bs]], "otherwise": unreach,
                   "loc": loc, "desugared": kind}
    return calls


def combinators(prog):
    """expand Option/bool combinator calls whose closure is a crate closure with MIR; the closure body is inlined and a
    closure no call refers to any more is dropped (its unsafe-block count moves to the enclosing function).
    Returns {closure: [functions it was inlined into]}"""
    from . import inline, mir

    done = {}
    for short in list(prog.fns):
        f = prog.fns[short]
        if not f.has_mir:
            continue
        for _ in range(6):
            site = None
            for b in range(len(f.blocks)):
                t = f.term(b)
                if t["k"] != "call" or t.get("target") is None or f.blocks[b].get("cleanup"):
                    continue
                kind = COMBINATORS.get(_callee(t))
                if kind is None or len(t["args"]) != 2 or t["dest"].get("proj"):
                    continue
                if kind == "range_for_each":
                    a0 = t["args"][0]
                    if a0.get("k") not in ("move", "copy") or a0["place"].get("proj") or str(a0["place"].get("ty", "")).replace(" ", "") != "core::ops::range::Range<usize>":
                        continue
                h = _closure_of(prog, t["args"][1])
                if h is None or prog.closures_of(h.short):
                    continue
                site = (b, kind, h)
                break
            if site is None:
                break
            b, kind, h = site
            rec = copy.deepcopy(f.rec)
            calls = _expand(prog, rec, b, kind, h)
            if not calls:
                break
            saved_unsafe = (rec.get("unsafe_blocks", 0), list(rec.get("unsafe_locs", [])))
            for cb in calls:
                inline._inline_one(rec, cb, h)
            # a closure's unsafe blocks are already attributed through its `enclosing_fn`; do not count them twice
            rec["unsafe_blocks"], rec["unsafe_locs"] = saved_unsafe
            f = mir.Fn(rec, prog)
            prog.fns[short] = f
            done.setdefault(h.short, []).append(short)
    # drop closures that are no longer referenced by any call
    for hs in list(done):
        h = prog.fns.get(hs)
        if h is None:
            continue
        still = False
        for g in prog.fns.values():
            if not g.has_mir or g is h:
                continue
            for b2 in range(len(g.blocks)):
                t2 = g.term(b2)
                if t2["k"] == "call" and any(a.get("k") in ("move", "copy") and str(a["place"].get("ty", "")) == "{closure:%s}" % h.path for a in t2.get("args", [])):
                    still = True
        if not still:
            enc = prog.fns.get(h.rec.get("enclosing_fn"))
            if enc is not None and h.rec.get("unsafe_blocks"):
                enc.rec["unsafe_blocks"] = enc.rec.get("unsafe_blocks", 0) + h.rec.get("unsafe_blocks", 0)
                enc.rec["unsafe_locs"] = list(enc.rec.get("unsafe_locs", [])) + list(h.rec.get("unsafe_locs", []))
            prog.dropped_closures = getattr(prog, "dropped_closures", {})
            prog.dropped_closures[hs] = prog.fns.pop(hs)
    return done


# --------------------------------------------------------------------------------------------------
# checked std functions as the test + unchecked function they are documented to be
# --------------------------------------------------------------------------------------------------

CHECKED_SPLITS = {"<[T]>::split_at_checked": "<[T]>::split_at", "<[T]>::split_at_mut_checked": "<[T]>::split_at_mut"}


def _ext_fn(path, targs):
    name = path.split("::")[-1]
    short = path if path.startswith("<") else name  # the driver's short form: free functions by name, inherent methods by `<Ty>::name`
    return {"k": "const", "ty": "fn{%s}" % path, "disp": path,
            "fn": {"path": path, "short": short, "krate": "core", "name": name, "local": False, "args": list(targs), "rkind": "item", "rpath": path, "rshort": short,
                   "rkrate": "core", "rlocal": False, "rargs": list(targs), "preds": []}}


def checked_splits(mirj):
    """`s.split_at_checked(k)` is documented as `if k <= s.len() { Some(s.split_at(k)) } else { None }`; rewritten to that.
    In place; returns the number of sites."""
    if not mirj:
        return 0
    n = 0
    for bi in range(len(mirj["blocks"])):
        blk = mirj["blocks"][bi]
        t = blk["term"]
        if t["k"] != "call" or _callee(t) not in CHECKED_SPLITS or t.get("target") is None or len(t["args"]) != 2 or t["dest"]["proj"]:
            continue
        s_op, k_op = t["args"]
        if s_op.get("k") not in ("move", "copy") or k_op.get("k") not in ("move", "copy", "const"):
            continue
        loc, tgt, unwind, dest = t.get("loc"), t["target"], t.get("unwind", "continue"), t["dest"]
        targs = ((t.get("func") or {}).get("fn") or {}).get("rargs") or ["T"]
        pair_ty = _opt_inner(dest.get("ty"))
        sty = s_op["place"].get("ty", "&[T]")
        m = mirj

        def add_block(stmts, term):
            m["blocks"].append({"cleanup": bool(blk.get("cleanup")), "stmts": stmts, "term": term})
            return len(m["blocks"]) - 1

        ln = _new_local(m, "usize")
        cond = _new_local(m, "bool")
        pair = _new_local(m, pair_ty)
        sref = _new_local(m, "&[T]")
        kcopy = k_op if k_op.get("k") == "const" else {"k": "copy", "place": copy.deepcopy(k_op["place"])}
        done = add_block([{"k": "assign", "place": copy.deepcopy(dest), "loc": loc, "rv": _some(pair_ty, {"k": "move", "place": {"local": pair, "proj": [], "ty": pair_ty}})}],
                         {"k": "goto", "target": tgt, "loc": loc})
        do_split = add_block([], {"k": "call", "func": _ext_fn(CHECKED_SPLITS[_callee(t)], targs), "args": [copy.deepcopy(s_op), copy.deepcopy(k_op)],
                                   "dest": {"local": pair, "proj": [], "ty": pair_ty}, "arg_drop_impls": [], "arg_user_drop": False, "target": done, "unwind": unwind, "loc": loc})
        none_b = add_block([{"k": "assign", "place": copy.deepcopy(dest), "loc": loc, "rv": _none(pair_ty)}], {"k": "goto", "target": tgt, "loc": loc})
        test = add_block([{"k": "assign", "place": {"local": cond, "proj": [], "ty": "bool"}, "loc": loc,
                           "rv": {"k": "binop", "op": "Le", "a": kcopy, "b": {"k": "move", "place": {"local": ln, "proj": [], "ty": "usize"}}}}],
                         {"k": "switch", "discr": {"k": "move", "place": {"local": cond, "proj": [], "ty": "bool"}}, "targets": [["0", none_b]], "otherwise": do_split, "loc": loc})
        # len(&*s)
        blk["stmts"].append({"k": "assign", "place": {"local": sref, "proj": [], "ty": "&[T]"}, "loc": loc,
                             "rv": {"k": "ref", "mut": False, "bk": "Shared", "place": {"local": s_op["place"]["local"], "proj": copy.deepcopy(s_op["place"]["proj"]) + [{"k": "deref"}], "ty": "[T]"}}})
        blk["term"] = {"k": "call", "func": _ext_fn("<[T]>::len", targs), "args": [{"k": "move", "place": {"local": sref, "proj": [], "ty": "&[T]"}}],
                       "dest": {"local": ln, "proj": [], "ty": "usize"}, "arg_drop_impls": [], "arg_user_drop": False, "target": test, "unwind": unwind, "loc": loc,
                       "desugared": "split_at_checked"}
        n += 1
    return n


# --------------------------------------------------------------------------------------------------
# jump threading: a re-test of a value whose variant each predecessor has just fixed
# --------------------------------------------------------------------------------------------------

def _known_variant(stmts, local):
    """variant index of the last assignment to `local` in stmts if it is an Option/enum aggregate, else None"""
    upto = len(stmts)
    for _ in range(4):  # follow plain moves/copies of the value within the block
        hit = None
        for k in range(upto - 1, -1, -1):
            st = stmts[k]
            if st["k"] == "setdiscr" and st["place"]["local"] == local:
                return None
            if st["k"] == "assign" and st["place"]["local"] == local:
                hit = (k, st)
                break
        if hit is None:
            return None
        k, st = hit
        if st["place"]["proj"]:
            return None
        rv = st["rv"]
        if rv["k"] == "aggregate" and rv.get("agg") == "adt" and "vi" in rv:
            return int(rv["vi"])
        if rv["k"] == "use" and rv["op"].get("k") in ("move", "copy") and not rv["op"]["place"]["proj"]:
            local, upto = rv["op"]["place"]["local"], k
            continue
        return None
    return None


def thread_jumps(mirj):
    """A block J that only computes `d = discriminant(L)` and switches on d, reached by `goto` from predecessors that have
    just assigned L an aggregate of a known variant: each such predecessor jumps straight to the arm of its variant.
    (What the rewrites above leave behind: `dest = Some(..)` / `dest = None` followed by the `?` on dest.) In place."""
    if not mirj:
        return 0
    blocks = mirj["blocks"]
    n = 0
    changed = True
    rounds = 0
    while changed and rounds < 8:
        changed = False
        rounds += 1
        for j, J in enumerate(blocks):
            t = J["term"]
            if t["k"] != "switch" or t["discr"].get("k") not in ("move", "copy") or t["discr"]["place"]["proj"]:
                continue
            dl = t["discr"]["place"]["local"]
            real = [s for s in J["stmts"] if s["k"] not in ("storagelive", "storagedead")]
            # the block itself has just built the value it asks the variant of (left behind when a join was copied into its
            # predecessors): the switch is decided
            if real and not J.get("cleanup"):
                ki = None
                for k_ in range(len(J["stmts"]) - 1, -1, -1):
                    s_ = J["stmts"][k_]
                    if s_["k"] == "assign" and s_["place"]["local"] == dl and not s_["place"]["proj"]:
                        ki = k_
                        break
                if ki is not None and J["stmts"][ki]["rv"]["k"] == "discriminant" and not J["stmts"][ki]["rv"]["place"]["proj"]:
                    v0 = _known_variant(J["stmts"][:ki], J["stmts"][ki]["rv"]["place"]["local"])
                    if v0 is not None:
                        arms0 = {int(v): bb for v, bb in t["targets"]}
                        J["term"] = {"k": "goto", "target": arms0.get(v0, t["otherwise"]), "loc": t.get("loc"), "desugared": "threaded"}
                        n += 1
                        changed = True
                        continue
            if len(real) != 1 or real[0]["k"] != "assign" or real[0]["place"]["local"] != dl or real[0]["rv"]["k"] != "discriminant" or real[0]["rv"]["place"]["proj"]:
                continue
            L = real[0]["rv"]["place"]["local"]
            arms = {int(v): bb for v, bb in t["targets"]}
            for p, P in enumerate(blocks):
                if p == j or P["term"]["k"] != "goto":
                    continue
                # follow empty goto blocks between P and J
                tgt, hops = P["term"]["target"], 0
                while tgt != j and hops < 4 and blocks[tgt]["term"]["k"] == "goto" and not [s for s in blocks[tgt]["stmts"] if s["k"] not in ("storagelive", "storagedead")]:
                    tgt, hops = blocks[tgt]["term"]["target"], hops + 1
                if tgt != j:
                    continue
                v = _known_variant(P["stmts"], L)
                if v is None:
                    continue
                dest = arms.get(v, t["otherwise"])
                P["stmts"].extend(copy.deepcopy(J["stmts"]))
                P["term"] = {"k": "goto", "target": dest, "loc": P["term"].get("loc"), "desugared": "threaded"}
                n += 1
                changed = True
    return n


def thread_fn(prog, f):
    """jump threading and duplication of small forwarding joins on one body (also bodies outside prog.fns, e.g. the
    pre-transform MIR of an async fn)"""
    from . import mir

    rec = copy.deepcopy(f.rec)
    k = 0
    for _ in range(4):
        k1 = thread_jumps(rec["mir"]) + dup_small_joins(rec["mir"]) + split_tuples(rec["mir"]) + dup_return_joins(rec["mir"])
        k += k1
        if not k1:
            break
    return mir.Fn(rec, prog) if k else f


def thread_all(prog):
    """jump threading and duplication of small forwarding joins, on every body of the program"""
    from . import mir

    total = 0
    for short in list(prog.fns):
        f = prog.fns[short]
        if not f.has_mir:
            continue
        rec = copy.deepcopy(f.rec)
        k = 0
        for _ in range(4):
            k1 = thread_jumps(rec["mir"]) + dup_small_joins(rec["mir"]) + split_tuples(rec["mir"]) + dup_return_joins(rec["mir"])
            k += k1
            if not k1:
                break
        if k:
            prog.fns[short] = mir.Fn(rec, prog)
            total += k
    return total


# --------------------------------------------------------------------------------------------------
# tail duplication of a small join block that builds the return value from a value chosen in the branches
# --------------------------------------------------------------------------------------------------

def _locals_read(node, acc):
    if isinstance(node, dict):
        if node.get("k") in ("copy", "move", "ref", "rawptr", "addrof", "discriminant", "len") and isinstance(node.get("place"), dict) and "local" in node["place"]:
            acc.add(node["place"]["local"])
        for v in node.values():
            _locals_read(v, acc)
    elif isinstance(node, list):
        for v in node:
            _locals_read(v, acc)


def _reach(blocks, start):
    seen, st = set(), [start]
    while st:
        x = st.pop()
        t = blocks[x]["term"]
        succ = []
        if t["k"] == "goto":
            succ = [t["target"]]
        elif t["k"] == "switch":
            succ = [bb for _, bb in t["targets"]] + [t["otherwise"]]
        else:
            succ = [v for v in (t.get("target"), t.get("unwind"), t.get("drop")) if isinstance(v, int) and not isinstance(v, bool)]
        for s in succ:
            if s not in seen:
                seen.add(s)
                st.append(s)
    return seen


def dup_small_joins(mirj):
    """A join block with a handful of pure statements (moves, copies, discriminant reads, aggregates, comparisons) that
    only forwards what its predecessors computed — `dest = move tmp; goto`, or just `switch(flag)` — is copied into the
    predecessors that reach it by `goto`. Then a flag assigned `false` on one path and a comparison on the other is
    tested where it is assigned (`let ok = a && b; if ok {..}` reads like `if a && b {..}`), and a helper inlined by
    rules/inline.py hands its result to the caller's test without a join in between. Blocks on a cycle are left alone.
    In place; returns the number of copies made."""
    if not mirj:
        return 0
    blocks = mirj["blocks"]
    n = 0
    for _ in range(6):
        changed = False
        for j, J in enumerate(blocks):
            if J.get("cleanup") or J["term"]["k"] not in ("goto", "switch", "return"):
                continue
            real = [s for s in J["stmts"] if s["k"] not in ("storagelive", "storagedead")]
            if len(real) > 6 or any(s["k"] != "assign" or s["rv"]["k"] not in ("use", "aggregate", "ref", "rawptr", "discriminant") or
                                    any(p.get("k") == "deref" for p in s["place"]["proj"]) for s in real):
                continue
            if J["term"]["k"] == "goto" and not real:
                continue  # an empty forwarding block: nothing to gain
            preds = [p for p, P in enumerate(blocks) if p != j and P["term"]["k"] == "goto" and P["term"]["target"] == j and not P.get("cleanup")]
            others = [p for p, P in enumerate(blocks) if p != j and p not in preds and any(
                x == j for x in ([P["term"].get("target"), P["term"].get("otherwise"), P["term"].get("unwind"), P["term"].get("drop")] + [bb for _, bb in P["term"].get("targets", [])]))]
            if len(preds) < 2 or others or j == 0:
                continue
            reads = set()
            for s in real:
                _locals_read(s["rv"], reads)
            if J["term"]["k"] == "switch":
                _locals_read(J["term"]["discr"], reads)
            assigned = set()
            for p in preds:
                for s in blocks[p]["stmts"]:
                    if s["k"] == "assign" and not s["place"]["proj"]:
                        assigned.add(s["place"]["local"])
            for s in real:
                if not s["place"]["proj"]:
                    assigned.add(s["place"]["local"])
            if not (reads & assigned):
                continue  # nothing the predecessors decided flows through this block
            if J["term"]["k"] == "switch":
                # only a *flag*: in every predecessor the switched local is (through plain copies) a constant or a freshly
                # computed comparison; a test of a joined value is better left after the join, where its outcome is a fact
                # about the joined value
                d_ = J["term"]["discr"]
                if d_.get("k") not in ("move", "copy") or d_["place"]["proj"]:
                    continue
                def _term_defines(stmts, local_):
                    return any(P_["term"]["k"] == "call" and isinstance(P_["term"].get("dest"), dict) and P_["term"]["dest"].get("local") == local_
                               and not P_["term"]["dest"].get("proj") and P_["term"].get("target") in preds for P_ in blocks)

                def _flag_in(stmts, local):
                    upto = len(stmts)
                    for _ in range(5):
                        hit = None
                        for k_ in range(upto - 1, -1, -1):
                            s_ = stmts[k_]
                            if s_["k"] == "assign" and s_["place"]["local"] == local and not s_["place"]["proj"]:
                                hit = (k_, s_)
                                break
                        if hit is None:
                            return False
                        k_, s_ = hit
                        rv_ = s_["rv"]
                        if rv_["k"] == "use" and rv_["op"].get("k") == "const":
                            return True
                        if rv_["k"] == "binop" and rv_["op"] in ("Eq", "Ne", "Lt", "Le", "Gt", "Ge"):
                            return True
                        if rv_["k"] == "unop" and rv_["op"] == "Not":
                            return True
                        if rv_["k"] == "discriminant" and isinstance(rv_.get("place"), dict) and not rv_["place"].get("proj"):
                            # which variant an Option / Result is that this very path has just produced (a combinator chain:
                            # `a.and_then(f).and_then(g)` matches on what `f` returned)
                            src_ = rv_["place"]["local"]
                            return any(s2["k"] == "assign" and s2["place"]["local"] == src_ and not s2["place"]["proj"] for s2 in stmts[:k_]) or \
                                _term_defines(stmts, src_)
                        if rv_["k"] == "use" and rv_["op"].get("k") in ("move", "copy") and not rv_["op"]["place"]["proj"]:
                            local, upto = rv_["op"]["place"]["local"], k_
                            continue
                        return False
                    return False
                is_bool = d_["place"].get("ty") == "bool" or mirj["locals"][d_["place"]["local"]].get("ty") == "bool"
                if not is_bool and not all(_flag_in(blocks[p]["stmts"] + J["stmts"], d_["place"]["local"]) for p in preds):
                    continue  # (a bool flag tested here was computed before the join: J itself computes nothing)
            rj = _reach(blocks, j)
            if j in rj or any(p in rj for p in preds):
                continue  # on a cycle
            for p in preds:
                blocks[p]["stmts"].extend(copy.deepcopy(J["stmts"]))
                blocks[p]["term"] = copy.deepcopy(J["term"])
                blocks[p]["term"]["desugared"] = "dup-join"
                n += 1
            changed = True
        if not changed:
            break
    return n


def dup_return_joins(mirj):
    """`Ok(if c { a } else { b })` and `if c { Ok(a) } else { Ok(b) }` are the same function; the first joins the two
    branches in a block that wraps the chosen value into the return place. Such a join block (a few statements, one of
    them assigning `_0` from a local that the predecessors assign, all predecessors arriving by `goto`) is copied into
    its predecessors, so that every branch states what it returns. In place; returns the number of joins removed."""
    if not mirj:
        return 0
    blocks = mirj["blocks"]
    n = 0
    for j, J in enumerate(blocks):
        if J.get("cleanup") or J["term"]["k"] not in ("goto", "return", "drop"):
            continue
        real = [s for s in J["stmts"] if s["k"] not in ("storagelive", "storagedead")]
        if not (1 <= len(real) <= 3) or any(s["k"] != "assign" for s in real):
            continue
        ret_assign = [s for s in real if s["place"]["local"] == 0]
        if not ret_assign:
            continue
        reads = set()
        for s in real:
            _locals_read(s["rv"], reads)
        preds = [p for p, P in enumerate(blocks) if p != j and P["term"]["k"] == "goto" and P["term"]["target"] == j]
        others = [p for p, P in enumerate(blocks) if p != j and p not in preds and any(
            x == j for x in ([P["term"].get("target"), P["term"].get("otherwise"), P["term"].get("unwind")] + [bb for _, bb in P["term"].get("targets", [])]))]
        if len(preds) < 2 or others or (J["term"]["k"] == "goto" and J["term"]["target"] == j):
            continue
        assigned_in_preds = set()
        for p in preds:
            for s in blocks[p]["stmts"]:
                if s["k"] == "assign" and not s["place"]["proj"]:
                    assigned_in_preds.add(s["place"]["local"])
        if not (reads & assigned_in_preds):
            continue
        for p in preds:
            blocks[p]["stmts"].extend(copy.deepcopy(J["stmts"]))
            blocks[p]["term"] = copy.deepcopy(J["term"])
            blocks[p]["term"]["desugared"] = "dup-join"
        n += 1
    return n


# --------------------------------------------------------------------------------------------------
# mem::swap(place, &mut local)  ==  local = mem::replace(place, local)
# --------------------------------------------------------------------------------------------------

def _ref_of_local(stmts, ptr_local):
    """if ptr_local was assigned `&mut L` (L a bare local, possibly through one reborrow) in these statements, return (L, ty)"""
    cur = ptr_local
    for _ in range(3):
        src = None
        for st in reversed(stmts):
            if st["k"] == "assign" and st["place"]["local"] == cur and not st["place"]["proj"]:
                src = st
                break
        if src is None or src["rv"]["k"] != "ref" or not src["rv"].get("mut"):
            return None
        pl = src["rv"]["place"]
        if not pl["proj"]:
            return pl["local"], pl.get("ty")
        if [p["k"] for p in pl["proj"]] == ["deref"]:
            cur = pl["local"]
            continue
        return None
    return None


def swaps_with_local(mirj):
    """`mem::swap(p, &mut x)` with x a local is `x = mem::replace(p, x)`: the ownership rules follow values through
    mem::replace, not through a `&mut` to a local. In place; returns the number of sites."""
    if not mirj:
        return 0
    n = 0
    for bi in range(len(mirj["blocks"])):
        blk = mirj["blocks"][bi]
        t = blk["term"]
        if t["k"] != "call" or _callee(t) != "core::mem::swap" or len(t.get("args", [])) != 2 or t.get("target") is None:
            continue
        a, b = t["args"]
        if a.get("k") not in ("move", "copy") or b.get("k") not in ("move", "copy") or a["place"]["proj"] or b["place"]["proj"]:
            continue
        la, lb = _ref_of_local(blk["stmts"], a["place"]["local"]), _ref_of_local(blk["stmts"], b["place"]["local"])
        if (la is None) == (lb is None):
            continue
        ptr_op, (L, Lty) = (a, lb) if lb is not None else (b, la)
        Lty = Lty or mirj["locals"][L]["ty"]
        tmp = _new_local(mirj, Lty)
        loc = t.get("loc")
        targs = ((t.get("func") or {}).get("fn") or {}).get("rargs") or [Lty]
        mirj["blocks"].append({"cleanup": bool(blk.get("cleanup")),
                               "stmts": [{"k": "assign", "place": {"local": L, "proj": [], "ty": Lty}, "loc": loc,
                                          "rv": {"k": "use", "op": {"k": "move", "place": {"local": tmp, "proj": [], "ty": Lty}}}}],
                               "term": {"k": "goto", "target": t["target"], "loc": loc}})
        after = len(mirj["blocks"]) - 1
        blk["term"] = {"k": "call", "func": _ext_fn("core::mem::replace", targs), "args": [copy.deepcopy(ptr_op), {"k": "move", "place": {"local": L, "proj": [], "ty": Lty}}],
                       "dest": {"local": tmp, "proj": [], "ty": Lty}, "arg_drop_impls": t.get("arg_drop_impls", []), "arg_user_drop": t.get("arg_user_drop", False),
                       "target": after, "unwind": t.get("unwind", "continue"), "loc": loc, "desugared": "swap-with-local"}
        n += 1
    return n
