"""Shape and sibling rules over event skeletons (TWIN, forwarding shapes)."""
import re

from . import mir, skeleton
from .report import short_loc


def strip_mut(name):
    """renaming ρ for &/&mut twins"""
    if name in ("core::mem::take", "take"):
        return "@skip"
    n = name
    n = n.replace("IndexMut<", "Index<").replace("index_mut", "index").replace("IterMut", "Iter")
    n = n.replace("assume_init_mut", "assume_init_ref").replace("slice_assume_init_mut", "slice_assume_init_ref")
    n = n.replace("NonNull::as_mut", "NonNull::as_ref")
    n = re.sub(r"_mut(?=_|\b)", "", n)
    n = n.replace("&mut ", "&")
    return n


def _rw_take(e, depth):
    # `mem::take(slice)` in the &mut variants stands where `*slice` stands in the & variants
    if e[0] == "call" and e[1] in ("take", "core::mem::take") and len(e[2]) == 1:
        return ("load", e[2][0], (), None)
    return None


def events(f, rename=lambda s: s, guards=True, rewrite=None):
    return ["%s %s" % (k, t) for k, t in skeleton.events(f, rename, pname=lambda n: f.local_name(n), guards=guards, rewrite=rewrite)]


def twin(ctx, rule, prog, a, b, cfg, rename=strip_mut, post=None, what="&/&mut twins", guards=True):
    fa, fb = prog.fn(a), prog.fn(b)
    if fa is None or fb is None:
        ctx.violate(rule, a if fa is None else b, "anchor-missing", "?", "twin function not found: %s" % (a if fa is None else b), cfg)
        return False
    ea = events(fa, rename, rewrite=_rw_take, guards=guards)
    eb = events(fb, rename, rewrite=_rw_take, guards=guards)
    if post:
        eb = [post(x) for x in eb]
    ea = [re.sub(r"\bmut ", "", x) for x in ea]
    eb = [re.sub(r"\bmut ", "", x) for x in eb]
    # `&[]` and `&mut [][..]` are two spellings of the empty slice: full-range indexing of an empty
    # array *literal* is not an event
    empty_lit = re.compile(r"call <\[T; N\] as core::ops::index::Index<I>>::index\(const, RangeFull::RangeFull\{\}\)")
    ea = [x for x in ea if not empty_lit.fullmatch(x)]
    eb = [x for x in eb if not empty_lit.fullmatch(x)]
    nested = "<[T; N] as Index<I>>::index(const, RangeFull::RangeFull{})"
    ea = [x.replace(nested, "const") for x in ea]
    eb = [x.replace(nested, "const") for x in eb]
    if ea == eb:
        ctx.ok(rule, b, "twin of %s" % a, "%d events (calls with argument provenance, guards, return) equal modulo renaming" % len(ea), cfg)
        return True
    d = ""
    for i in range(max(len(ea), len(eb))):
        x = ea[i] if i < len(ea) else "(missing)"
        y = eb[i] if i < len(eb) else "(missing)"
        if x != y:
            d = "event %d:\n  %s: %s\n  %s: %s" % (i, a, x[:300], b, y[:300])
            break
    ctx.violate(rule, b, "twin of %s differs" % a, fb.loc,
                "`%s` and `%s` are %s and must perform the same steps on the same operands; they have drifted apart" % (a, b, what),
                cfg, detail=d)
    return False


def must_match(ctx, rule, prog, short, patterns, cfg, site, msg, rename=lambda s: s, guards=False, rewrite=None):
    f = prog.fn(short)
    if f is None or not f.has_mir:
        ctx.violate(rule, short, "anchor-missing", "?", "function not found", cfg)
        return False
    ev = events(f, rename, guards=guards, rewrite=rewrite)
    # a pattern starting with "?" is optional (e.g. a call that one cfg arm renders by value)
    variants = [[]]
    for p in patterns:
        if p.startswith("?"):
            variants = [v + [p[1:]] for v in variants] + [list(v) for v in variants]
        else:
            variants = [v + [p] for v in variants]
    ok = any(len(ev) == len(v) and all(re.fullmatch(p, e) for p, e in zip(v, ev)) for v in variants)
    patterns = [p.lstrip("?") for p in patterns]
    if ok:
        ctx.ok(rule, short, site, "events: " + " ; ".join(e[:70] for e in ev), cfg)
        return True
    d = "expected %d events, found %d:\n" % (len(patterns), len(ev)) + "\n".join("  " + e[:200] for e in ev[:12])
    for i, (p, e) in enumerate(zip(patterns, ev)):
        if not re.fullmatch(p, e):
            d = "event %d `%s` does not have the reviewed shape /%s/\n" % (i, e[:200], p) + d
            break
    ctx.violate(rule, short, site, f.loc, msg, cfg, detail=d)
    return False


def contains(ctx, rule, prog, short, patterns, cfg, site, msg, rename=lambda s: s, forbidden=(), guards=False):
    """every pattern matches some event, in order; no forbidden pattern matches any event"""
    f = prog.fn(short)
    if f is None or not f.has_mir:
        ctx.violate(rule, short, "anchor-missing", "?", "function not found", cfg)
        return False
    ev = events(f, rename, guards=guards)
    pos = 0
    missing = None
    for p in patterns:
        found = False
        while pos < len(ev):
            if re.fullmatch(p, ev[pos]):
                found = True
                pos += 1
                break
            pos += 1
        if not found:
            missing = p
            break
    bad = [e for e in ev for fb in forbidden if re.search(fb, e)]
    ok = missing is None and not bad
    if ok:
        ctx.ok(rule, short, site, "events contain, in order: " + " ; ".join(patterns)[:200], cfg)
        return True
    d = ("missing (in order): /%s/\n" % missing if missing else "") + ("forbidden: %s\n" % bad[:3] if bad else "") + "\n".join("  " + e[:200] for e in ev[:14])
    ctx.violate(rule, short, site, f.loc, msg, cfg, detail=d)
    return False


def swap_lr(s):
    s = re.sub(r"\bright\b", "\0", s)
    s = re.sub(r"\bleft\b", "right", s)
    s = s.replace("\0", "left")
    s = s.replace("_first", "\0").replace("_last", "_first").replace("\0", "_last")
    s = s.replace("split_first", "\0").replace("split_last", "split_first").replace("\0", "split_last")
    return s


# --------------------------------------------------------------------------------------------------
# VIEWCMP1: sibling agreement of the contiguity tests of the two-slice view functions
# --------------------------------------------------------------------------------------------------

VIEW_GROUPS = [
    ["CircularBuffer::as_slices", "CircularBuffer::as_mut_slices", "CircularBuffer::make_contiguous"],
    ["Drain::as_slices", "Drain::as_mut_slices"],
    ["CircularBuffer::drop_range"],
]


def _is_pos(e):
    for s in mir.walk(e):
        if isinstance(s, tuple) and s:
            if s[0] == "load" and s[2] and s[2][-1] == "start":
                return True
            if s[0] == "call" and s[1] in ("add_mod", "sub_mod"):
                return True
            if s[0] == "param" and False:
                return True
    return False


def contiguity_guards(f):
    """[(block, op, canon_a, canon_b, b_is_add_mod)] for switches comparing two positions"""
    out = []
    for b in sorted(f.reachable(False)):
        t = f.term(b)
        if t["k"] != "switch" or f._switch_const(t, b) is not None:
            continue
        n = len(f.blocks[b]["stmts"])
        d = mir.strip_casts(f.deep_simplify(f.operand_expr(t["discr"], b, n)))
        if isinstance(d, tuple) and d[0] == "binop" and d[1] in ("Lt", "Le", "Gt", "Ge", "Eq", "Ne"):
            a, c = mir.strip_casts(d[2]), mir.strip_casts(d[3])
            if _is_pos(a) and _is_pos(c):
                pn = lambda n_: f.local_name(n_)
                ca = skeleton.canon(a, lambda s: s, 1, None, pn)
                cc = skeleton.canon(c, lambda s: s, 1, None, pn)
                out.append((b, d[1], ca, cc, isinstance(c, tuple) and c[0] == "call" and c[1] == "add_mod"))
    return out


def viewcmp1(ctx, prog, cfg, rule="VIEWCMP1", groups=None):
    for grp in (groups or VIEW_GROUPS):
        sigs = {}
        for short in grp:
            f = prog.fn(short)
            if f is None or not f.has_mir:
                ctx.violate(rule, short, "anchor-missing", "?", "view function not found", cfg)
                continue
            gs = contiguity_guards(f)
            ok = len(gs) == 1 and gs[0][1] == "Lt" and gs[0][4]
            ctx.check(ok, rule, short, "contiguity test is `lower < upper`", short_loc(f, gs[0][0]) if gs else f.loc,
                      "the test that decides between one contiguous slice and a wrapped pair is %s; every sibling view uses the "
                      "strict `lower_position < add_mod(start, upper, N)` (equality means the range wraps around the whole array)"
                      % (["%s(%s, %s)" % (g[1], g[2], g[3]) for g in gs] or "missing"),
                      "Lt(%s, %s)" % (gs[0][2], gs[0][3]) if gs else "", cfg)
            if gs:
                nm = lambda s_: re.sub(r"\bmut ", "", s_).replace("NonNull::as_mut", "NonNull::as_ref")
                sigs[short] = (gs[0][1], nm(gs[0][2]), nm(gs[0][3]))
        if len(set(sigs.values())) > 1:
            ref = grp[0]
            for short, sg in sigs.items():
                if sg != sigs.get(ref):
                    ctx.violate(rule, short, "contiguity test differs from sibling %s" % ref, prog.fns[short].loc,
                                "`%s` decides contiguity with `%s(%s, %s)` while its sibling `%s` uses `%s(%s, %s)`: two views of the "
                                "same contents disagree on where they wrap" % ((short,) + sg + (ref,) + sigs[ref]), cfg)
        elif len(sigs) > 1:
            ctx.ok(rule, grp[0], "siblings agree: %s" % ", ".join(grp), "identical contiguity test %s(%s, %s)" % next(iter(sigs.values())), cfg)
