"""Shape and sibling rules over event skeletons (TWIN, forwarding shapes)."""
import re

from . import mir, skeleton
from .report import short_loc


def strip_mut(name):
    """renaming ρ for &/&mut twins"""
    if name in ("core::mem::take", "take"):
        return "@skip"
    n = name
    n = n.replace("IndexMut<", "Index<").replace("index_mut", "index").replace("IterMut", "Iter")
    n = n.replace("assume_init_mut", "assume_init_ref").replace("slice_assume_init_mut", "slice_assume_init_ref")
    n = n.replace("NonNull::as_mut", "NonNull::as_ref")
    n = re.sub(r"_mut(?=_|\b)", "", n)
    n = n.replace("&mut ", "&")
    return n


def _rw_take(e, depth):
    # `mem::take(slice)` in the &mut variants stands where `*slice` stands in the & variants
    if e[0] == "call" and e[1] in ("take", "core::mem::take") and len(e[2]) == 1:
        return ("load", e[2][0], (), None)
    return None


def events(f, rename=lambda s: s, guards=True, rewrite=None):
    return ["%s %s" % (k, t) for k, t in skeleton.events(f, rename, pname=lambda n: f.local_name(n), guards=guards, rewrite=rewrite)]


def twin(ctx, rule, prog, a, b, cfg, rename=strip_mut, post=None, what="&/&mut twins", guards=True):
    fa, fb = prog.fn(a), prog.fn(b)
    if fa is None or fb is None:
        ctx.violate(rule, a if fa is None else b, "anchor-missing", "?", "twin function not found: %s" % (a if fa is None else b), cfg)
        return False
    ea = events(fa, rename, rewrite=_rw_take, guards=guards)
    eb = events(fb, rename, rewrite=_rw_take, guards=guards)
    if post:
        eb = [post(x) for x in eb]
    ea = [re.sub(r"\bmut ", "", x) for x in ea]
    eb = [re.sub(r"\bmut ", "", x) for x in eb]
    # `&[]` and `&mut [][..]` are two spellings of the empty slice: full-range indexing of an empty
    # array *literal* is not an event
    empty_lit = re.compile(r"call <\[T; N\] as core::ops::index::Index<I>>::index\(const, RangeFull::RangeFull\{\}\)")
    ea = [x for x in ea if not empty_lit.fullmatch(x)]
    eb = [x for x in eb if not empty_lit.fullmatch(x)]
    nested = "<[T; N] as Index<I>>::index(const, RangeFull::RangeFull{})"
    ea = [x.replace(nested, "const") for x in ea]
    eb = [x.replace(nested, "const") for x in eb]
    if ea == eb:
        ctx.ok(rule, b, "twin of %s" % a, "%d events (calls with argument provenance, guards, return) equal modulo renaming" % len(ea), cfg)
        return True
    d = ""
    for i in range(max(len(ea), len(eb))):
        x = ea[i] if i < len(ea) else "(missing)"
        y = eb[i] if i < len(eb) else "(missing)"
        if x != y:
            d = "event %d:\n  %s: %s\n  %s: %s" % (i, a, x[:300], b, y[:300])
            break
    ctx.violate(rule, b, "twin of %s differs" % a, fb.loc,
                "`%s` and `%s` are %s and must perform the same steps on the same operands; they have drifted apart" % (a, b, what),
                cfg, detail=d)
    return False


def must_match(ctx, rule, prog, short, patterns, cfg, site, msg, rename=lambda s: s, guards=False, rewrite=None):
    f = prog.fn(short)
    if f is None or not f.has_mir:
        ctx.violate(rule, short, "anchor-missing", "?", "function not found", cfg)
        return False
    ev = events(f, rename, guards=guards, rewrite=rewrite)
    # a pattern starting with "?" is optional (e.g. a call that one cfg arm renders by value)
    variants = [[]]
    for p in patterns:
        if p.startswith("?"):
            variants = [v + [p[1:]] for v in variants] + [list(v) for v in variants]
        else:
            variants = [v + [p] for v in variants]
    ok = any(len(ev) == len(v) and all(re.fullmatch(p, e) for p, e in zip(v, ev)) for v in variants)
    patterns = [p.lstrip("?") for p in patterns]
    if ok:
        ctx.ok(rule, short, site, "events: " + " ; ".join(e[:70] for e in ev), cfg)
        return True
    d = "expected %d events, found %d:\n" % (len(patterns), len(ev)) + "\n".join("  " + e[:200] for e in ev[:12])
    for i, (p, e) in enumerate(zip(patterns, ev)):
        if not re.fullmatch(p, e):
            d = "event %d `%s` does not have the reviewed shape /%s/\n" % (i, e[:200], p) + d
            break
    ctx.violate(rule, short, site, f.loc, msg, cfg, detail=d)
    return False


def must_match_any(ctx, rule, prog, short, alternatives, cfg, site, msg, rename=lambda s: s, guards=False):
    """like must_match with several accepted event lists (spellings of the same steps)"""
    f = prog.fn(short)
    if f is None or not f.has_mir:
        ctx.violate(rule, short, "anchor-missing", "?", "function not found", cfg)
        return False
    ev = events(f, rename, guards=guards)
    for patterns in alternatives:
        variants = [[]]
        for p in patterns:
            if p.startswith("?"):
                variants = [v + [p[1:]] for v in variants] + [list(v) for v in variants]
            else:
                variants = [v + [p] for v in variants]
        if any(len(ev) == len(v) and all(re.fullmatch(p, e) for p, e in zip(v, ev)) for v in variants):
            ctx.ok(rule, short, site, "events: " + " ; ".join(e[:70] for e in ev), cfg)
            return True
    d = "found %d events, none of the %d accepted forms:\n" % (len(ev), len(alternatives)) + "\n".join("  " + e[:200] for e in ev[:12])
    ctx.violate(rule, short, site, f.loc, msg, cfg, detail=d)
    return False


def contains(ctx, rule, prog, short, patterns, cfg, site, msg, rename=lambda s: s, forbidden=(), guards=False):
    """every pattern matches some event, in order; no forbidden pattern matches any event"""
    f = prog.fn(short)
    if f is None or not f.has_mir:
        ctx.violate(rule, short, "anchor-missing", "?", "function not found", cfg)
        return False
    ev = events(f, rename, guards=guards)
    pos = 0
    missing = None
    for p in patterns:
        found = False
        while pos < len(ev):
            if re.fullmatch(p, ev[pos]):
                found = True
                pos += 1
                break
            pos += 1
        if not found:
            missing = p
            break
    bad = [e for e in ev for fb in forbidden if re.search(fb, e)]
    ok = missing is None and not bad
    if ok:
        ctx.ok(rule, short, site, "events contain, in order: " + " ; ".join(patterns)[:200], cfg)
        return True
    d = ("missing (in order): /%s/\n" % missing if missing else "") + ("forbidden: %s\n" % bad[:3] if bad else "") + "\n".join("  " + e[:200] for e in ev[:14])
    ctx.violate(rule, short, site, f.loc, msg, cfg, detail=d)
    return False


def swap_lr(s):
    s = re.sub(r"\bright\b", "\0", s)
    s = re.sub(r"\bleft\b", "right", s)
    s = s.replace("\0", "left")
    s = s.replace("_first", "\0").replace("_last", "_first").replace("\0", "_last")
    s = s.replace("split_first", "\0").replace("split_last", "split_first").replace("\0", "split_last")
    return s


# --------------------------------------------------------------------------------------------------
# VIEWCMP1: sibling agreement of the contiguity tests of the two-slice view functions
# --------------------------------------------------------------------------------------------------

VIEW_GROUPS = [
    ["CircularBuffer::as_slices", "CircularBuffer::as_mut_slices", "CircularBuffer::make_contiguous"],
    ["Drain::as_slices", "Drain::as_mut_slices"],
    ["CircularBuffer::drop_range"],
]


def _is_pos(e):
    for s in mir.walk(e):
        if isinstance(s, tuple) and s:
            if s[0] == "load" and s[2] and s[2][-1] == "start":
                return True
            if s[0] == "call" and s[1] in ("add_mod", "sub_mod"):
                return True
            if s[0] == "param" and False:
                return True
    return False


def contiguity_guards(f):
    """[(block, op, canon_a, canon_b, b_is_add_mod)] for switches comparing two positions"""
    out = []
    for b in sorted(f.reachable(False)):
        t = f.term(b)
        if t["k"] != "switch" or f._switch_const(t, b) is not None:
            continue
        n = len(f.blocks[b]["stmts"])
        d = mir.strip_casts(f.deep_simplify(f.operand_expr(t["discr"], b, n)))
        if isinstance(d, tuple) and d[0] == "binop" and d[1] in ("Lt", "Le", "Gt", "Ge", "Eq", "Ne"):
            a, c = mir.strip_casts(d[2]), mir.strip_casts(d[3])
            if _is_pos(a) and _is_pos(c):
                pn = lambda n_: f.local_name(n_)
                ca = skeleton.canon(a, lambda s: s, 1, None, pn)
                cc = skeleton.canon(c, lambda s: s, 1, None, pn)
                out.append((b, d[1], ca, cc, isinstance(c, tuple) and c[0] == "call" and c[1] == "add_mod"))
    return out


def _storage_sites(f):
    """(block, kind, bounds) for every range-index / split / rotate applied to the backing array itself:
    kind 'range' with bounds (lo, hi) for `items[lo..hi]`, kind 'split' with bounds (p,) for split_at(p) /
    rotate_left(p)"""
    out = []
    # a Range between two expressions built as a value and used to index the array later (possibly after a join)
    idx_phi = any(("Index<I>>::index" in (mir.callee_path(t_) or "") or "IndexMut<I>>::index_mut" in (mir.callee_path(t_) or "")) and len(f.call_args(b_)) == 2
                  and isinstance(mir.strip_casts(f.deep_simplify(f.call_args(b_)[1])), tuple) and mir.strip_casts(f.deep_simplify(f.call_args(b_)[1]))[:1] == ("phi",)
                  for b_, t_ in f.calls(False))
    if idx_phi:
        for b_, i_, st_, it_ in f.positions(False):
            if not it_ and st_["k"] == "assign" and st_["rv"]["k"] == "aggregate" and str(st_["rv"].get("adt", "")).endswith("::Range"):
                e_ = f.deep_simplify(f.rvalue_expr(st_["rv"], b_, i_))
                d_ = dict(e_[3])
                if "start" in d_ and "end" in d_:
                    out.append((b_, "range", (mir.strip_casts(d_["start"]), mir.strip_casts(d_["end"]))))
    for b, t in f.calls(False):
        p_ = mir.callee_path(t) or ""
        args = [f.deep_simplify(a) for a in f.call_args(b)]
        if len(args) != 2:
            continue
        is_idx = "Index<I>>::index" in p_ or "IndexMut<I>>::index_mut" in p_
        is_split = p_ in ("<[T]>::split_at", "<[T]>::split_at_mut", "<[T]>::rotate_left", "<[T]>::rotate_right")
        if not (is_idx or is_split):
            continue
        base = args[0]
        direct = any(isinstance(s, tuple) and s and s[0] in ("place", "load") and len(s) > 2 and s[2] and s[2][0] == "items" for s in mir.walk(base)) and not any(
            isinstance(s, tuple) and s and s[0] == "call" and s[1] not in ("NonNull::as_ref", "NonNull::as_mut") for s in mir.walk(base))
        if not direct:
            continue
        if is_idx:
            a = args[1]
            if isinstance(a, tuple) and a[0] == "agg" and str(a[1]).endswith("Range"):
                d = dict(a[3])
                if "start" in d and "end" in d:
                    out.append((b, "range", (mir.strip_casts(d["start"]), mir.strip_casts(d["end"]))))
            elif isinstance(a, tuple) and a[0] == "agg" and a[2] in ("RangeFrom", "RangeTo"):
                # `items[p..]` / `items[..p]`: one of the two pieces of a wrapped range, like a split at p
                d = dict(a[3])
                out.append((b, "split", (mir.strip_casts(d.get("start", d.get("end"))),)))
        else:
            out.append((b, "split", (mir.strip_casts(args[1]),)))
    return out


def viewcmp1(ctx, prog, cfg, rule="VIEWCMP1", groups=None):
    """The two-slice views decide between one contiguous piece `items[lo..hi]` and a wrapped pair. With
    lo, hi both physical positions, lo == hi means "wraps around the whole array" (the empty case is
    handled before), so: the contiguous piece is built only where the facts entail lo < hi *strictly*,
    and the array is split/rotated at a position only where they entail hi <= lo. Decided from the guard
    facts at the sites, whatever the spelling or orientation of the test."""
    from . import guards as _g

    for grp in (groups or VIEW_GROUPS):
        for short in grp:
            f = prog.fn(short)
            if f is None or not f.has_mir:
                ctx.violate(rule, short, "anchor-missing", "?", "view function not found", cfg)
                continue
            sites = _storage_sites(f)
            rng = [(b, bd) for b, k, bd in sites if k == "range" and _is_pos(bd[0]) and _is_pos(bd[1])]
            spl = [(b, bd) for b, k, bd in sites if k == "split" and _is_pos(bd[0])]
            if not rng or not spl:
                ctx.violate(rule, short, "contiguous piece and wrapped pair present", f.loc,
                            "`%s` no longer builds one `items[lower..upper]` piece between two positions and a split/rotation of the array "
                            "at a position (%d / %d found): the rule cannot relate the two cases and fails closed" % (short, len(rng), len(spl)), cfg)
                continue
            G = _g.Guards(f)
            lo, hi = rng[0][1]
            for b, (l, h) in rng:
                Z = G.closure(b, extra_terms=[l, h])
                ctx.check(Z.lt(l, h), rule, short, "contiguous piece only when lower < upper", short_loc(f, b),
                          "`%s` builds the single contiguous piece `items[%s..%s]` where the guard facts do not entail `lower < upper` "
                          "strictly: when both positions coincide the contents wrap around the whole array and the piece is empty "
                          "(elements are skipped, leaked or destroyed twice)" % (short, mir.fmt(l, f), mir.fmt(h, f)),
                          "facts entail %s < %s" % (mir.fmt(l, f)[:40], mir.fmt(h, f)[:40]), cfg)
            for b, (p_,) in spl:
                Z = G.closure(b, extra_terms=[lo, hi])
                ctx.check(Z.le(hi, lo, 0), rule, short, "split/rotation only when upper <= lower", short_loc(f, b),
                          "`%s` splits or rotates the array at `%s` where the guard facts do not entail `upper <= lower` (the wrapped case)"
                          % (short, mir.fmt(p_, f)), "facts entail %s <= %s" % (mir.fmt(hi, f)[:40], mir.fmt(lo, f)[:40]), cfg)

