"""Call graph and effect summaries (least fixpoint over resolved in-crate callees).

Direct facts are syntactic (no SSA needed), so that the SSA layer of `mir.py` can use the
WRITES summaries when it versions memory fields.
"""
from collections import defaultdict

from . import mir

ALL = "*ALL"

# external callees that are pure functions of their argument *values*
PURE_BY_VALUE = {
    "<[T]>::len",
    "<[T]>::is_empty",
    "core::cmp::min",
    "core::cmp::max",
    "core::cmp::Ord::min",
    "core::cmp::Ord::max",
    "<usize>::checked_sub",
    "<usize>::checked_add",
    "<usize>::overflowing_add",
    "<usize>::saturating_sub",
    "<usize>::min",
}


class Effects:
    def __init__(self, prog):
        self.prog = prog
        self.direct_writes = {}
        self.edges = {}  # short -> list of (kind, block, target_short)
        self.ext_calls = {}  # short -> list of (block, term)
        for f in prog.fns.values():
            self._scan(f)
        self._writes = self._fix_writes()

    # ------------------------------------------------------------------------------------------
    def _scan(self, f):
        w = set()
        edges = []
        ext = []
        for b, i, st, is_term in f.positions(True):
            k = st["k"]
            if not is_term:
                if k in ("assign", "setdiscr"):
                    pl = st["place"]
                    if mir.place_has_deref(pl):
                        w.add(self._store_name(f, pl))
                elif k == "copy_nonoverlapping":
                    w.add("*")
                continue
            if k == "call":
                fn = mir.callee_of(st)
                if fn is None:
                    w.add(ALL)
                    ext.append((b, st))
                    continue
                tgt = fn.get("rshort") or fn["short"]
                local = fn.get("rlocal", fn.get("local", False))
                if local and tgt in self.prog.fns:
                    edges.append(("call", b, tgt))
                else:
                    ext.append((b, st))
                    for p in fn.get("preds", []):
                        c = p.get("closure")
                        if c and c in self.prog.fns:
                            edges.append(("closure-arg", b, c))
                    for d in st.get("arg_drop_impls", []):
                        if d in self.prog.fns:
                            edges.append(("arg-drop", b, d))
                    if fn.get("peeled_rlocal") and fn.get("peeled_rshort") in self.prog.fns:
                        edges.append(("call", b, fn["peeled_rshort"]))
            elif k == "drop":
                for d in st.get("drop_impls", []):
                    if d in self.prog.fns:
                        edges.append(("drop-glue", b, d))
        self.direct_writes[f.short] = w
        self.edges[f.short] = edges
        self.ext_calls[f.short] = ext

    def _store_name(self, f, pl):
        mv = mir.mem_var_of(pl)
        if mv[1] != "*":
            return mv[1]
        # store through a bare deref: of a parameter -> ('pderef', n)
        proj = pl["proj"]
        if len(proj) == 1 and 1 <= pl["local"] <= f.arg_count:
            return ("pderef", pl["local"])
        return "*"

    def _fix_writes(self):
        w = {k: set(v) for k, v in self.direct_writes.items()}
        changed = True
        while changed:
            changed = False
            for f, edges in self.edges.items():
                for kind, b, tgt in edges:
                    add = set()
                    for x in w.get(tgt, ()):
                        if isinstance(x, tuple):
                            # a write through the callee's pointer parameter: resolved per call
                            # site by call_mem_defs; for the summary it is a write to whatever the
                            # caller passes, recorded as an unknown-pointer write unless the
                            # argument is itself the caller's parameter
                            add.add(self._map_pderef(f, b, x, kind))
                        else:
                            add.add(x)
                    if not add <= w[f]:
                        w[f] |= add
                        changed = True
        return w

    def _map_pderef(self, fshort, b, x, kind):
        if kind != "call":
            return "*"
        f = self.prog.fns[fshort]
        t = f.term(b)
        n = x[1]
        if n - 1 >= len(t["args"]):
            return "*"
        tgt = resolve_ptr_arg(f, t["args"][n - 1])
        if tgt is None:
            return "*"
        kind2, val = tgt
        if kind2 == "mem":
            return val
        if kind2 == "pderef":
            return ("pderef", val)
        return "local"  # write into a caller local: not a memory effect visible outside

    def writes(self, short):
        return self._writes.get(short, {ALL})

    # ------------------------------------------------------------------------------------------
    def callees(self, short):
        return self.edges.get(short, [])

    def closure(self, short, kinds=None):
        """set of local functions transitively reachable (incl. short itself)"""
        seen = {short}
        st = [short]
        while st:
            x = st.pop()
            for kind, b, tgt in self.edges.get(x, []):
                if kinds is not None and kind not in kinds:
                    continue
                if tgt not in seen:
                    seen.add(tgt)
                    st.append(tgt)
        return seen

    def find_path(self, src, pred):
        """BFS over the call graph from src; returns [(fn_short, block, kind), ...] ending at the
        first function for which pred(fn_short) is true, or None."""
        from collections import deque

        prev = {src: None}
        dq = deque([src])
        while dq:
            x = dq.popleft()
            if pred(x):
                path = []
                cur = x
                while prev[cur] is not None:
                    p, b, kind = prev[cur]
                    path.append((p, b, kind, cur))
                    cur = p
                path.reverse()
                return path
            for kind, b, tgt in self.edges.get(x, []):
                if tgt not in prev:
                    prev[tgt] = (x, b, kind)
                    dq.append(tgt)
        return None

    def callers(self, short):
        out = []
        for f, edges in self.edges.items():
            for kind, b, tgt in edges:
                if tgt == short:
                    out.append((f, b, kind))
        return out


_EFF = {}


def get(prog):
    e = _EFF.get(id(prog))
    if e is None:
        e = Effects(prog)
        _EFF[id(prog)] = e
    return e


def writes_of(prog, short):
    return [w for w in get(prog).writes(short) if isinstance(w, str) and w not in ("local",)]


# --------------------------------------------------------------------------------------------------
# syntactic resolution of pointer arguments
# --------------------------------------------------------------------------------------------------


def single_def(f, n):
    """the unique whole-local assignment statement of local n (rvalue), or None"""
    cache = f._cache.setdefault("single_def", {})
    if not cache:
        cnt = defaultdict(list)
        for b, i, st, is_term in f.positions(True):
            if not is_term and st["k"] == "assign" and not st["place"]["proj"]:
                cnt[st["place"]["local"]].append(("stmt", b, i, st))
            elif not is_term and st["k"] == "assign":
                cnt[st["place"]["local"]].append(("partial", b, i, st))
            elif is_term and st["k"] == "call":
                cnt[st["dest"]["local"]].append(("call", b, i, st))
        cache["_"] = cnt
    lst = cache["_"].get(n, [])
    if len(lst) == 1 and lst[0][0] == "stmt":
        return lst[0]
    return None


def resolve_ptr_arg(f, op, depth=0):
    """What does the pointer operand `op` point to? ('mem', field) | ('local', n) |
    ('pderef', n) if it is the caller's own pointer parameter n | None if unknown."""
    if op.get("k") not in ("copy", "move") or depth > 6:
        return None
    pl = op["place"]
    if pl["proj"]:
        return None
    n = pl["local"]
    if 1 <= n <= f.arg_count:
        d = single_def(f, n)
        if d is None:
            return ("pderef", n)
    d = single_def(f, n)
    if d is None:
        return None
    rv = d[3]["rv"]
    if rv["k"] in ("ref", "rawptr"):
        p = rv["place"]
        proj = p["proj"]
        if proj and proj[-1]["k"] == "deref":
            # reborrow &mut *q  -> whatever q points to
            inner = {"k": "copy", "place": {"local": p["local"], "proj": proj[:-1]}}
            if not proj[:-1]:
                return resolve_ptr_arg(f, inner, depth + 1)
            return None
        if mir.place_has_deref(p):
            mv = mir.mem_var_of(p)
            if mv[1] == "*":
                return None
            return ("mem", mv[1])
        return ("local", p["local"])
    if rv["k"] == "use":
        return resolve_ptr_arg(f, rv["op"], depth + 1)
    if rv["k"] == "cast":
        return resolve_ptr_arg(f, rv["op"], depth + 1)
    return None


def call_mem_defs(f, b, t):
    """variables (memory fields / locals) that the call at block b may redefine, besides its
    destination"""
    prog = f.prog
    eff = get(prog)
    defs = []
    fn = mir.callee_of(t)
    if fn is None:
        return [("M", ALL)]
    tgt = fn.get("rshort") or fn["short"]
    local = fn.get("rlocal", fn.get("local", False)) and tgt in prog.fns
    if local:
        for w in eff.writes(tgt):
            if isinstance(w, tuple):
                n = w[1]
                if n - 1 < len(t["args"]):
                    r = resolve_ptr_arg(f, t["args"][n - 1])
                    if r is None:
                        defs.append(("M", "*"))
                    elif r[0] == "mem":
                        defs.append(("M", r[1]))
                    elif r[0] == "local":
                        defs.append(("L", r[1]))
                    else:
                        defs.append(("M", "*"))
            elif w == ALL:
                defs.append(("M", ALL))
            elif w == "local":
                pass
            else:
                defs.append(("M", w))
        return defs
    # external callee
    for idx, a in enumerate(t["args"]):
        if a.get("k") not in ("copy", "move"):
            continue
        ty = a["place"]["ty"]
        if not mir.ty_is_mut_ptr_like(ty):
            continue
        r = resolve_ptr_arg(f, a)
        if r is not None and r[0] == "mem":
            defs.append(("M", r[1]))
        elif r is not None and r[0] == "local":
            defs.append(("L", r[1]))
        else:
            pointee = ty.split(" ", 1)[1] if " " in ty else ty
            if pointee.strip() == "usize" or "circular_buffer::" in pointee:
                defs.append(("M", ALL))
            else:
                defs.append(("M", "*"))
    for p in fn.get("preds", []):
        c = p.get("closure")
        if c and c in prog.fns:
            for w in eff.writes(c):
                if isinstance(w, str) and w != "local":
                    defs.append(("M", w))
                elif isinstance(w, tuple):
                    defs.append(("M", "*"))
    for d in t.get("arg_drop_impls", []):
        if d in prog.fns:
            for w in eff.writes(d):
                if isinstance(w, str) and w != "local":
                    defs.append(("M", w))
    if fn.get("peeled_rlocal") and fn.get("peeled_rshort") in prog.fns:
        for w in eff.writes(fn["peeled_rshort"]):
            if isinstance(w, str) and w != "local":
                defs.append(("M", w))
    return defs


# --------------------------------------------------------------------------------------------------
# symbolic inlining of pure, single-path in-crate getters (len, capacity, is_empty, is_full, …)
# --------------------------------------------------------------------------------------------------


def _pure_single_path(g):
    key = "pure_single_path"
    if key in g._cache:
        return g._cache[key]
    ok = True
    ret = None
    reach = g.reachable(False)
    for b in reach:
        t = g.term(b)
        if t["k"] in ("goto", "return"):
            if t["k"] == "return":
                ret = b
        elif t["k"] == "switch" and g._switch_const(t, b) is not None:
            pass
        else:
            ok = False
        for st in g.blocks[b]["stmts"]:
            if st["k"] in ("assign",) and mir.place_has_deref(st["place"]):
                ok = False
            if st["k"] in ("setdiscr", "copy_nonoverlapping"):
                ok = False
    g._cache[key] = (ok and ret is not None, ret)
    return g._cache[key]


def inline_pure(f, b, t, args):
    fn = mir.callee_of(t)
    tgt = fn.get("rshort") or fn["short"]
    path = fn.get("rpath") or fn["path"]
    if not (fn.get("rlocal", fn.get("local", False)) and tgt in f.prog.fns):
        if path in PURE_BY_VALUE:
            return ("pcall", path, args)
        return None
    g = f.prog.fns[tgt]
    if g is f or not g.has_mir:
        return None
    ok, ret = _pure_single_path(g)
    if not ok:
        return None
    e = g.return_expr(ret)
    n = len(f.blocks[b]["stmts"])
    # generic parameter map (const params only)
    gens = [x.split(":")[0] for x in g.rec.get("generics", [])]
    rargs = fn.get("rargs") or fn.get("args") or []
    gmap = {}
    if len(gens) == len(rargs):
        gmap = dict(zip(gens, rargs))

    class Bail(Exception):
        pass

    def sub(x):
        if not isinstance(x, tuple) or not x:
            return x
        k = x[0]
        if k == "param":
            if x[1] - 1 < len(args):
                return args[x[1] - 1]
            raise Bail()
        if k == "cparam":
            v = gmap.get(x[1], x[1])
            if v.isdigit():
                return ("int", int(v))
            return ("cparam", v)
        if k == "load":
            ver = x[3]
            if ver[0] == "entry" and ver[1][0] == "M":
                return ("load", sub(x[1]), tuple(sub(p) for p in x[2]), f.version_at(b, n, ver[1]))
            raise Bail()
        if k in ("phi", "memdef", "uninit", "undef", "mem0", "cyc", "call", "upd"):
            raise Bail()
        return tuple(sub(y) for y in x)

    try:
        return sub(e)
    except Bail:
        return None


# --------------------------------------------------------------------------------------------------
# user-code / destructor sites
# --------------------------------------------------------------------------------------------------

import re as _re

_BARE = _re.compile(r"^(?:&(?:mut )?)*(?:[A-Z][A-Za-z0-9_]*|<.*>::[A-Za-z0-9_]+)$")


_STRUCTURAL_IMPLS = [
    ("core::ops::index::Index", ("[",)),
    ("core::ops::index::IndexMut", ("[",)),
    ("core::slice::index::SliceIndex", ("core::ops::range::", "usize")),
    ("core::ops::try_trait::Try", ("core::option::Option<", "core::result::Result<")),
    ("core::ops::try_trait::FromResidual", ("core::option::Option<", "core::result::Result<")),
    ("core::default::Default", ("[",)),
    ("core::convert::From", ("core::ptr::non_null::NonNull<",)),
    ("core::convert::Into", ("core::ptr::non_null::NonNull<",)),
]


def pred_class(p):
    """classify an instantiated trait predicate of a callee: 'user' | 'local' | 'closure' | None"""
    if p.get("auto") or not p.get("has_fn"):
        return None
    if p.get("closure"):
        return "closure"
    s = p["self"]
    s2 = s
    while s2.startswith("&"):
        s2 = s2[1:]
        if s2.startswith("mut "):
            s2 = s2[4:]
    if _BARE.match(s) or _re.match(r"^[A-Z][A-Za-z0-9_]*$", s2) or s2.startswith("<"):
        return "user"
    if s2.startswith("circular_buffer::"):
        return "local"
    if s2.startswith("{closure"):
        return "closure"
    # foreign type constructor over a caller type parameter. The impl lives in the crate of the
    # trait or of the constructor (orphan rule); the reviewed structural ones below run no code
    # of the element type. Anything else (e.g. Cloned<Iter<T>>: Iterator) is assumed to.
    tr = p["trait"]
    for trait_prefix, self_prefixes in _STRUCTURAL_IMPLS:
        if tr == trait_prefix and any(s2.startswith(sp) for sp in self_prefixes):
            return None
    return "user"


# external callees that take ownership of a value without ever running its destructor
NO_DROP_OWNERS = {
    "core::mem::maybe_uninit::MaybeUninit::write",
    "core::mem::maybe_uninit::MaybeUninit::new",
    "core::mem::replace",  # the displaced value is returned, the new one stored
    "core::mem::forget",
    "core::mem::manually_drop::ManuallyDrop::new",
    "core::ptr::write",
    "<*mut T>::write",
}


def user_sites(f):
    """direct sites in f at which code chosen by the crate's user may run:
    [(b, kind, desc)] kind in 'call-generic' | 'call-bound' | 'drop' | 'drop-call'"""
    key = "user_sites"
    if key in f._cache:
        return f._cache[key]
    out = []
    for b in sorted(f.reachable(True)):
        t = f.term(b)
        if t["k"] == "call":
            fn = mir.callee_of(t)
            if fn is None:
                out.append((b, "call-indirect", "indirect call"))
                continue
            path = fn.get("rpath") or fn["path"]
            if fn.get("rkind") == "generic":
                out.append((b, "call-generic", "%s on %s" % (fn["short"], ",".join(fn.get("args", [])[:1]))))
                continue
            local = fn.get("rlocal", fn.get("local", False))
            if local:
                continue
            if path in ("core::mem::maybe_uninit::MaybeUninit::assume_init_drop", "core::mem::manually_drop::ManuallyDrop::drop",
                        "<[core::mem::maybe_uninit::MaybeUninit<T>]>::assume_init_drop", "<*mut T>::drop_in_place"):
                # in-place destruction of a value of the element type
                if any(_mentions_param(a) for a in fn.get("args", [])) or True:
                    out.append((b, "drop-call", "%s::<%s>" % (fn["short"], ",".join(fn.get("args", [])))))
                continue
            if path == "core::ptr::drop_in_place" or path == "core::mem::drop":
                if any(_mentions_param(a) for a in fn.get("args", [])) or t.get("arg_user_drop"):
                    out.append((b, "drop-call", "%s::<%s>" % (fn["short"], ",".join(fn.get("args", [])))))
                continue
            if fn.get("peeled_rlocal"):
                continue
            cls = [pred_class(p) for p in fn.get("preds", [])]
            if "user" in cls:
                tr = [p["trait"].split("::")[-1] + " for " + p["self"] for p in fn.get("preds", []) if pred_class(p) == "user"]
                out.append((b, "call-bound", "%s (dispatches on %s)" % (fn.get("rshort") or fn["short"], "; ".join(tr))))
                continue
            if t.get("arg_user_drop") and path not in NO_DROP_OWNERS:
                out.append((b, "drop-call", "%s takes ownership of a value with a user destructor" % (fn.get("rshort") or fn["short"])))
        elif t["k"] == "drop":
            if t.get("user_drop") and t.get("needs_drop", True):
                out.append((b, "drop", "drop of %s: %s" % (f.local_name(t["place"]["local"]), t["ty"])))
    f._cache[key] = out
    return out


def _mentions_param(tystr):
    return bool(_re.search(r"(?<![A-Za-z0-9_:])[A-Z][A-Za-z0-9_]*(?![A-Za-z0-9_:<])", tystr.replace("MaybeUninit", "").replace("CircularBuffer", "")))


def destroy_sites(f):
    return [s for s in user_sites(f) if s[1] in ("drop", "drop-call")]


def transitive(prog, short, pred_direct, kinds=None):
    """does `short` or anything it reaches satisfy pred_direct(fn)?"""
    eff = get(prog)
    for x in eff.closure(short, kinds):
        f = prog.fns.get(x)
        if f is not None and pred_direct(f):
            return True
    return False
