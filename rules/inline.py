"""Helper transparency: private functions that the reviewed rule tables do not know (i.e. helpers
introduced after the review — an extracted expression, a shared tail of two methods) are inlined
into their callers at MIR level before any rule runs, and dropped from the program when no call
is left. Every rule therefore judges the *behaviour at the call site*, whether or not it has been
moved into a helper: an extracted helper is neither an alarm by itself nor a hiding place.

Not inlined (the function stays a separate unit and is judged as such): functions named in
`known_fns.KNOWN_FNS` (everything that existed when the tables were reviewed), public entries,
closures and functions containing closures, recursive functions, calls in cleanup blocks. A helper with
generic parameters of its own is inlined after substituting the call's instantiation for them.
"""
import copy
import re as _re

from . import mir

MAX_ROUNDS = 4


def _shift(node, loff):
    """add loff to every local index in a JSON MIR fragment (in place)"""
    if isinstance(node, dict):
        for k, v in node.items():
            if k == "local" and isinstance(v, int) and not isinstance(v, bool):
                node[k] = v + loff
            else:
                _shift(v, loff)
    elif isinstance(node, list):
        for x in node:
            _shift(x, loff)


def _retarget(t, boff, unwind_to):
    k = t["k"]
    if k == "goto":
        t["target"] += boff
    elif k == "switch":
        t["targets"] = [[v, bb + boff] for v, bb in t["targets"]]
        t["otherwise"] += boff
    if k in ("call", "drop", "assert", "yield"):
        if t.get("target") is not None:
            t["target"] += boff
        u = t.get("unwind")
        if isinstance(u, int) and not isinstance(u, bool):
            t["unwind"] = u + boff
        elif u == "continue":
            t["unwind"] = unwind_to
        if k == "yield" and t.get("drop") is not None:
            t["drop"] += boff


def _can_inline(prog, caller, b, known):
    t = caller.term(b)
    if t["k"] != "call" or not mir.is_local_callee(t):
        return None
    fn = mir.callee_of(t)
    short = fn.get("rshort") or fn.get("short")
    if fn.get("rkind") not in (None, "item"):
        return None
    h = prog.fns.get(short) or getattr(prog, "dropped_helpers", {}).get(short)
    if h is None or not h.has_mir or h is caller or short in known:
        return None
    if h.is_closure() or h.is_public_entry() or h.kind not in ("Fn", "AssocFn"):
        return None
    if prog.closures_of(short):
        return None
    if caller.blocks[b].get("cleanup"):
        return None
    gens = [g.split(":")[0] for g in h.rec.get("generics", []) if not g.endswith(":Lifetime")]
    args = fn.get("rargs") if fn.get("rargs") is not None else fn.get("args", [])
    if list(args) != gens:
        # instantiated with other types (`fn helper<U>(..)` called with U = MaybeUninit<T>): inlined after substituting the
        # instantiation for the parameter names in the helper's type strings
        if len(args) != len(gens) or not all(isinstance(a, str) and a for a in args):
            return None
    # direct recursion
    for _, ht in h.calls(True):
        if mir.callee_short(ht) == short:
            return None
    if t.get("dest") is None:
        return None
    return h


def _inline_one(caller_rec, b, h):
    m = caller_rec["mir"]
    hm = copy.deepcopy(h.rec["mir"])
    fn_ = mir.callee_of(caller_rec["mir"]["blocks"][b]["term"]) or {}
    gens_ = [g.split(":")[0] for g in h.rec.get("generics", []) if not g.endswith(":Lifetime")]
    args_ = fn_.get("rargs") if fn_.get("rargs") is not None else fn_.get("args", [])
    ren = {g: a for g, a in zip(gens_, args_) if g != a} if len(gens_) == len(args_) else {}
    if ren:
        pat = _re.compile(r"(?<![A-Za-z0-9_])(%s)(?![A-Za-z0-9_])" % "|".join(_re.escape(g) for g in ren))

        def sub(x):
            if isinstance(x, str):
                return pat.sub(lambda m_: ren[m_.group(1)], x)
            if isinstance(x, list):
                return [sub(y) for y in x]
            if isinstance(x, dict):
                return {k: sub(v) for k, v in x.items()}
            return x

        hm = sub(hm)
        # a call through an `impl Fn` parameter that this instantiation binds to a function *item* of the crate is a direct call
        # of that function (`take(first)` with take = slice_take_first::<T>)
        for blk_ in hm["blocks"]:
            t_ = blk_["term"]
            if t_.get("k") != "call" or not isinstance(t_.get("func"), dict) or not isinstance(t_["func"].get("fn"), dict):
                continue
            fn_d = t_["func"]["fn"]
            if fn_d.get("path") not in ("core::ops::function::Fn::call", "core::ops::function::FnMut::call_mut", "core::ops::function::FnOnce::call_once"):
                continue
            a0 = str((fn_d.get("args") or [""])[0])
            m_ = _re.match(r"^fn\{([A-Za-z_][A-Za-z0-9_:]*)(?:<(.*)>)?\}", a0)
            if not m_ or len(t_.get("args", [])) != 2 or t_["args"][1].get("k") not in ("move", "copy") or t_["args"][1]["place"].get("proj"):
                continue
            tup = t_["args"][1]["place"]["local"]
            agg = None
            for st_ in blk_["stmts"]:
                if st_.get("k") == "assign" and st_["place"].get("local") == tup and not st_["place"].get("proj") and st_["rv"].get("k") == "aggregate" and st_["rv"].get("agg") == "tuple":
                    agg = st_["rv"]
            if agg is None:
                continue
            path_ = m_.group(1)
            targs_ = [x.strip() for x in (m_.group(2) or "").split(",") if x.strip()]
            name_ = path_.split("::")[-1]
            krate_ = path_.split("::")[0]
            t_["func"] = {"k": "const", "ty": "fn{%s}" % path_, "disp": path_,
                          "fn": {"path": path_, "short": name_, "krate": krate_, "name": name_, "local": True, "args": targs_, "rkind": "item",
                                 "rpath": path_, "rshort": name_, "rkrate": krate_, "rlocal": True, "rargs": targs_, "preds": []}}
            t_["args"] = [copy.deepcopy(fl["op"]) for fl in agg["fields"]]
            t_["desugared"] = "fn-item-call"
        # a generic `impl Fn` parameter instantiated with a function item or pointer has no destructor: its scope-end drop in
        # the generic body is a no-op in this instantiation
        for blk_ in hm["blocks"]:
            t_ = blk_["term"]
            if t_.get("k") == "drop" and str(t_.get("ty", "")).startswith(("fn{", "fn(", "for<", "unsafe fn(", "extern ")):
                blk_["term"] = {"k": "goto", "target": t_["target"], "loc": t_.get("loc"), "desugared": "drop-of-fn-item"}
    loff, boff = len(m["locals"]), len(m["blocks"])
    blk = m["blocks"][b]
    t = blk["term"]
    loc = t.get("loc")
    unwind_to = t.get("unwind", "continue")
    tgt = t.get("target")
    # locals
    for i, l in enumerate(hm["locals"]):
        l = dict(l)
        if l.get("name"):
            l["name"] = "%s.%s" % (h.rec.get("name") or "inl", l["name"])
        m["locals"].append(l)
    # blocks
    for hb in hm["blocks"]:
        _shift(hb, loff)
        ht = hb["term"]
        if ht["k"] == "return":
            hb["stmts"].append({"k": "assign", "place": copy.deepcopy(t["dest"]), "loc": ht.get("loc", loc),
                                "rv": {"k": "use", "op": {"k": "move", "place": {"local": loff, "proj": [], "ty": hm["locals"][0]["ty"]}}}})
            hb["term"] = {"k": "goto", "target": tgt, "loc": ht.get("loc", loc)} if tgt is not None else {"k": "unreachable", "loc": loc}
        elif ht["k"] == "resume":
            if isinstance(unwind_to, int) and not isinstance(unwind_to, bool):
                hb["term"] = {"k": "goto", "target": unwind_to, "loc": ht.get("loc", loc)}
        else:
            _retarget(ht, boff, unwind_to)
        m["blocks"].append(hb)
    # argument passing, then jump into the helper's entry block
    for i, a in enumerate(t["args"]):
        blk["stmts"].append({"k": "assign", "place": {"local": loff + 1 + i, "proj": [], "ty": hm["locals"][1 + i]["ty"]},
                             "rv": {"k": "use", "op": a}, "loc": loc})
    blk["term"] = {"k": "goto", "target": boff, "loc": loc, "inlined": h.short}
    caller_rec["unsafe_blocks"] = caller_rec.get("unsafe_blocks", 0) + h.rec.get("unsafe_blocks", 0)
    caller_rec["unsafe_locs"] = list(caller_rec.get("unsafe_locs", [])) + list(h.rec.get("unsafe_locs", []))
    caller_rec.setdefault("inlined", []).append(h.short)


def inline_new_helpers(prog, known):
    """returns {helper: [callers]} of what was inlined"""
    done = {}
    prog.dropped_helpers = {}
    for _ in range(MAX_ROUNDS):
        changed = False
        for short in list(prog.fns):
            f = prog.fns[short]
            if not f.has_mir:
                continue
            sites = [(b, _can_inline(prog, f, b, known)) for b in range(len(f.blocks))]
            sites = [(b, h) for b, h in sites if h is not None]
            if not sites:
                continue
            rec = copy.deepcopy(f.rec)
            for b, h in sites:
                _inline_one(rec, b, h)
                done.setdefault(h.short, []).append(short)
            prog.fns[short] = mir.Fn(rec, prog)
            changed = True
        if not changed:
            break
    # drop helpers that are no longer called from anywhere
    if done:
        called = set()
        for f in prog.fns.values():
            if not f.has_mir:
                continue
            for _, t in f.calls(True):
                s = mir.callee_short(t)
                if s:
                    called.add(s)
                d = (mir.callee_of(t) or {}).get("short")
                if d:
                    called.add(d)
        for h in list(done):
            if h not in called and h in prog.fns:
                prog.dropped_helpers[h] = prog.fns.pop(h)
    prog.inlined = done
    return done


def inline_into(prog, f, known):
    """the same transformation for one stand-alone body (e.g. the `mir_built` form of an async block)"""
    for _ in range(MAX_ROUNDS):
        sites = [(b, _can_inline(prog, f, b, known)) for b in range(len(f.blocks))]
        sites = [(b, h) for b, h in sites if h is not None]
        if not sites:
            break
        rec = copy.deepcopy(f.rec)
        for b, h in sites:
            _inline_one(rec, b, h)
        f = mir.Fn(rec, prog)
    return f
