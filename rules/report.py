"""Obligation bookkeeping, known findings, evidence files, VIOLATION / KNOWN-FINDING output."""
import json
import os
import re
import sys
import time

VERIF = os.path.dirname(os.path.dirname(os.path.abspath(__file__)))
KNOWN = os.path.join(VERIF, "known_findings.json")


def load_known():
    if not os.path.exists(KNOWN):
        return []
    with open(KNOWN) as fh:
        return json.load(fh).get("findings", [])


def _slug(s):
    return re.sub(r"[^A-Za-z0-9_.-]+", "_", s)[:120]


class Ctx:
    def __init__(self, prop, tier, seed=0, level="other"):
        self.prop = prop
        self.tier = tier
        self.seed = seed
        self.level = level
        self.t0 = time.time()
        self.obligations = []  # every rule instance evaluated
        self.violations = {}  # key -> record
        self.configs = []
        self.functions = set()
        self.call_sites = 0
        self.notes = {}
        self.explanation = ""
        self.assumptions = []
        self.rules_text = {}
        self.extra = {}

    # ---- recording ----------------------------------------------------------------------------
    def rule(self, name, text):
        self.rules_text[name] = text

    def ok(self, rule, fn, site, by, config=None, nontrivial=True):
        self.obligations.append(
            {
                "rule": rule,
                "function": fn,
                "site": site,
                "verdict": "discharged",
                "discharged_by": by,
                "config": config,
                "nontrivial": nontrivial,
            }
        )
        self.functions.add(fn)

    def violate(self, rule, fn, site, loc, msg, config=None, detail=None):
        site = re.sub(r"@bb\d+", "", site)  # keys never contain block numbers or line numbers
        key = "%s:%s:%s" % (rule, fn, site)
        self.obligations.append(
            {
                "rule": rule,
                "function": fn,
                "site": site,
                "verdict": "VIOLATED",
                "discharged_by": None,
                "config": config,
                "nontrivial": True,
            }
        )
        self.functions.add(fn)
        rec = self.violations.get(key)
        if rec is None:
            rec = {
                "key": key,
                "rule": rule,
                "function": fn,
                "site": site,
                "loc": loc,
                "message": msg,
                "configs": [],
                "detail": detail,
            }
            self.violations[key] = rec
        if config and config not in rec["configs"]:
            rec["configs"].append(config)

    def check(self, cond, rule, fn, site, loc, msg, by, config=None, detail=None, nontrivial=True):
        if cond:
            self.ok(rule, fn, site, by, config, nontrivial)
        else:
            self.violate(rule, fn, site, loc, msg, config, detail)
        return cond

    def need_fn(self, prog, short, rule="anchor"):
        f = prog.fn(short)
        if f is None or not f.has_mir:
            self.violate(
                rule,
                short,
                "anchor-missing",
                "?",
                "anchor function `%s` not found in configuration %s (renamed or removed); the rule "
                "cannot be evaluated and fails closed" % (short, prog.config),
                prog.config,
            )
            return None
        return f

    def floor(self, rule, what, count, minimum, config=None, slack=None):
        """fail closed if a rule matched clearly fewer instances than were confirmed by hand: the analysis
        going blind (an unresolved callee class, a moved anchor) drops a count towards zero, whereas a
        refactoring that consolidates a couple of sites must not be reported — so counts above four tolerate
        the loss of max(2, 20%) of the confirmed instances; small counts are exact"""
        if slack is None:
            slack = 0 if minimum <= 4 else max(2, minimum // 5)
        confirmed = minimum
        minimum = max(1, minimum - slack)
        self.check(
            count >= minimum,
            rule,
            "*",
            "floor:" + what,
            "?",
            "rule %s matched %d instance(s) of `%s`, clearly fewer than the %d confirmed on the reviewed tree (floor %d); "
            "an anchor moved or the analysis lost sight of it" % (rule, count, what, confirmed, minimum),
            "instance count %d >= floor %d (confirmed %d)" % (count, minimum, confirmed),
            config,
            nontrivial=False,
        )

    # ---- finishing ----------------------------------------------------------------------------
    def finish(self):
        known = [k for k in load_known() if k.get("property") == self.prop]
        known_keys = {k["key"]: k for k in known if k.get("status") == "known"}
        wall = time.time() - self.t0
        new = []
        os.makedirs(os.path.join(VERIF, "replay"), exist_ok=True)
        for key, rec in sorted(self.violations.items()):
            if key in known_keys:
                print("KNOWN-FINDING: property=%s %s [%s]" % (self.prop, known_keys[key].get("what", ""), key))
                continue
            new.append(rec)
        for rec in new:
            path = os.path.join(VERIF, "replay", "%s-%s.json" % (self.prop, _slug(rec["key"])))
            if not os.environ.get("VERIF_NO_EVIDENCE"):
                with open(path, "w") as fh:
                    json.dump({"property": self.prop, "tier": self.tier, **rec}, fh, indent=1)
            print(
                "%s: [%s] %s in `%s` (%s)%s\n    %s"
                % (
                    rec["loc"],
                    rec["rule"],
                    rec["site"],
                    rec["function"],
                    ",".join(rec["configs"]) or "-",
                    "",
                    rec["message"],
                )
            )
            if rec.get("detail"):
                for line in str(rec["detail"]).splitlines():
                    print("      " + line)
            print("VIOLATION property=%s replay=%s" % (self.prop, path))
        self._write_evidence(wall, len(new))
        n_ok = sum(1 for o in self.obligations if o["verdict"] == "discharged")
        print(
            "%s %s: %d rule instances evaluated, %d discharged, %d violation(s)%s, %.1fs"
            % (
                self.prop,
                self.tier,
                len(self.obligations),
                n_ok,
                len(new),
                (" (+%d known)" % (len(self.violations) - len(new))) if len(self.violations) != len(new) else "",
                wall,
            )
        )
        return 1 if new else 0

    def _write_evidence(self, wall, nviol):
        if os.environ.get("VERIF_NO_EVIDENCE"):
            return  # evaluation of a seeded change against a scratch tree: never touch evidence/
        obs = self.obligations
        distinct = set()
        for o in obs:
            if o["nontrivial"]:
                distinct.add((o["rule"], o["function"], o["site"]))
        samples = []
        seen_rules = {}
        for o in obs:
            c = seen_rules.get(o["rule"], 0)
            if c < 3 or o["verdict"] != "discharged":
                samples.append({k: o[k] for k in ("rule", "function", "site", "verdict", "discharged_by", "config")})
                seen_rules[o["rule"]] = c + 1
        per_rule = {}
        for o in obs:
            r = per_rule.setdefault(o["rule"], {"evaluated": 0, "discharged": 0})
            r["evaluated"] += 1
            if o["verdict"] == "discharged":
                r["discharged"] += 1
        cov = {
            "explanation": self.explanation or "see rules",
            "evaluations": len(obs),
            "distinct_nontrivial": len(distinct),
            "rule": "one evaluation = one rule instance (rule, function, site) decided on the MIR/type facts of "
            "one feature configuration; distinct = distinct (rule, function, site) triples across configurations "
            "whose discharge needed a guard fact, a dominance/reachability relation, a resolved callee or a "
            "compiler verdict (floor checks and anchor lookups are counted as trivial)",
            "samples": samples[:60],
            "configs": self.configs,
            "functions_analysed": len(self.functions),
            "per_rule": per_rule,
            "rules": self.rules_text,
            "exhaustive": True,
        }
        cov.update(self.extra)
        if self.level == "proof":
            n_ok = sum(1 for o in obs if o["verdict"] == "discharged")
            cov["obligations"] = len(obs)
            cov["discharged"] = n_ok
            cov.setdefault("checker_cmd", self.notes.get("checker_cmd", "rustc"))
            cov.setdefault("trusted_base", self.notes.get("trusted_base", ["rustc"]))
        ev = {
            "property_id": self.prop,
            "tier": self.tier,
            "seed": self.seed,
            "level": self.level,
            "coverage": cov,
            "assumptions": self.assumptions,
            "wall_s": round(wall, 3),
            "violations": nviol,
        }
        os.makedirs(os.path.join(VERIF, "evidence", self.tier), exist_ok=True)
        with open(os.path.join(VERIF, "evidence", "%s.json" % self.prop), "w") as fh:
            json.dump(ev, fh, indent=1)
        # a per-tier copy, so that the quick run of the harness does not erase what the last
        # thorough run covered
        with open(os.path.join(VERIF, "evidence", self.tier, "%s.json" % self.prop), "w") as fh:
            json.dump(ev, fh, indent=1)


def short_loc(f, b=None, i=None):
    """file:line of a position in a function"""
    if b is None:
        return f.loc
    blk = f.blocks[b]
    if i is None or i >= len(blk["stmts"]):
        return blk["term"].get("loc", f.loc)
    return blk["stmts"][i].get("loc", f.loc)
