"""DRN1 (a,b,c,f), DRAINIT1, RANGE1 — shared by C09 and C10 (DESIGN.md §4/§5)."""
from . import common, effects, guards, mir
from .report import short_loc

OVER = "Drain::over_range"
DROP = "<Drain<N, T> as Drop>::drop"
NEXT = "<Drain<N, T> as Iterator>::next"
NEXT_BACK = "<Drain<N, T> as DoubleEndedIterator>::next_back"
TRB = "translate_range_bounds"


def drn1_abcf(ctx, prog, cfg, rule="DRN1"):
    eff = effects.get(prog)
    # (a) single constructor
    builders = {}
    for f in prog.fns.values():
        for b, i, st, is_term in f.positions(True):
            if not is_term and st["k"] == "assign" and st["rv"]["k"] == "aggregate" and st["rv"].get("adt", "").endswith("::Drain"):
                builders.setdefault(f.short, []).append((b, i))
    ctx.check(set(builders) == {OVER}, rule, OVER, "a: single constructor", "?",
              "a `Drain` value is constructed in %s; the typestate 'size is 0 while a Drain exists' is established only by "
              "Drain::over_range" % sorted(builders), "Drain { .. } is built only in Drain::over_range", cfg)
    f = ctx.need_fn(prog, OVER, rule)
    if f is None:
        return
    # (b) size := 0 (or := validated range start) dominates pointer creation and return; TRB first
    stores = common.field_stores(f, "size")
    trb = f.calls_to(TRB, unwind=False)
    ctx.check(len(trb) == 1, rule, OVER, "b: validates through translate_range_bounds", f.loc,
              "Drain::over_range does not call translate_range_bounds exactly once (%d calls)" % len(trb),
              "one call at bb%s" % (trb[0][0] if trb else "?"), cfg)
    ok_vals = []
    for (b, i, e) in stores:
        okv = e == ("int", 0)
        if not okv and trb:
            # first component of translate_range_bounds' result
            okv = (isinstance(e, tuple) and e[0] == "field" and e[2] == "0" and isinstance(e[1], tuple) and e[1][0] == "call" and e[1][1] == TRB)
        ok_vals.append(okv)
        ctx.check(okv, rule, OVER, "b: value stored to size", short_loc(f, b, i),
                  "while a Drain exists the buffer's size must not cover the drained range; `%s` is stored instead of 0 (or "
                  "the validated range start): a leaked drain leaves moved-out elements inside size" % mir.fmt(e, f),
                  "stores %s" % mir.fmt(e, f), cfg)
    ctx.check(len(stores) == 1, rule, OVER, "b: exactly one store to size", f.loc,
              "expected exactly one store to `size` in Drain::over_range, found %d" % len(stores), "one store", cfg)
    if stores:
        sb, si, _ = stores[0]
        builds = builders.get(OVER, [])
        ptrs = [(b, len(f.blocks[b]["stmts"])) for b, t in f.calls(False) if "NonNull" in (mir.callee_path(t) or "")]
        rets = [(b, len(f.blocks[b]["stmts"])) for b in f.return_blocks()]
        for (what, poss) in (("pointer creation", ptrs), ("Drain construction", builds), ("return", rets)):
            ctx.check(bool(poss) and all(f.pos_dominates((sb, si), p, False) for p in poss), rule, OVER, "b: size cleared before " + what, short_loc(f, sb, si),
                      "the store that clears `size` does not dominate the %s: a Drain can exist (and be leaked) while the "
                      "buffer still counts the drained elements" % what,
                      "store bb%d[%d] dominates %s" % (sb, si, poss), cfg)
        if trb:
            tb = trb[0][0]
            ctx.check(f.pos_dominates((tb, len(f.blocks[tb]["stmts"])), (sb, si), False), rule, OVER, "b: validation before the store", short_loc(f, tb),
                      "`size` is cleared before the range has been validated: the documented range panic then leaves the buffer emptied",
                      "translate_range_bounds bb%d dominates the store bb%d" % (tb, sb), cfg)
    # (g) the struct invariant the guard reasoning assumes about every Drain (range.start <= iter.start <= iter.end <= range.end
    #     <= buf_size <= N) is *established* where the Drain is built: the facts at the aggregate (the postcondition of the
    #     validated range, INV for the saved size) entail it for the field values
    for (b, i) in builders.get(OVER, []):
        st = f.blocks[b]["stmts"][i]
        e = f.deep_simplify(f.rvalue_expr(st["rv"], b, i))
        d = dict(e[3]) if isinstance(e, tuple) and e and e[0] == "agg" else {}

        def rng(x):
            x = d.get(x)
            if isinstance(x, tuple) and x and x[0] == "agg" and str(x[1]).endswith("Range"):
                dd = dict(x[3])
                return guards.norm(dd.get("start")), guards.norm(dd.get("end"))
            return None, None

        rs, re_ = rng("range")
        is_, ie = rng("iter")
        bs = guards.norm(d.get("buf_size")) if d.get("buf_size") is not None else None
        ok, why = False, "the Drain is not built from two `Range { start, end }` values and a saved size"
        if None not in (rs, re_, is_, ie, bs):
            Nn = ("cparam", "N")
            Z = guards.Guards(f).closure(b, extra_terms=[rs, re_, is_, ie, bs, Nn])
            chain = [(rs, is_, "range.start <= iter.start"), (is_, ie, "iter.start <= iter.end"), (ie, re_, "iter.end <= range.end"),
                     (re_, bs, "range.end <= buf_size"), (bs, Nn, "buf_size <= N")]
            bad = [t for (x, y, t) in chain if not Z.le(x, y, 0)]
            ok, why = not bad, "not entailed where the Drain is built: %s" % ", ".join(bad)
        ctx.check(ok, rule, OVER, "g: struct invariant established", short_loc(f, b, i),
                  "the ordering range.start <= iter.start <= iter.end <= range.end <= buf_size <= N, which every rule about the drain "
                  "assumes, is %s (a reversed or oversized range reaches the back-fill)" % why,
                  "entailed by translate_range_bounds' postcondition and INV at the aggregate", cfg)
    # (c) no Drain method other than drop writes size
    n = 0
    for g in prog.fns.values():
        imp = g.impl() or {}
        if not (imp.get("self_adt", "").endswith("::Drain")) or g.is_closure():
            continue
        if g.short in (DROP, OVER):
            continue
        n += 1
        w = eff.writes(g.short)
        ctx.check("size" not in w and effects.ALL not in w, rule, g.short, "c: does not write size", g.loc,
                  "`%s` writes the buffer's `size` while the Drain is alive: only Drain::drop may restore it" % g.short,
                  "WRITES = %s" % sorted(map(str, w)), cfg)
    ctx.floor(rule, "Drain methods checked for (c)", n, 6, cfg)
    # (f) Drain::read only from the next/next_back closures
    callers = eff.callers("Drain::read")
    allowed = {NEXT, NEXT_BACK, NEXT + "::{closure#0}", NEXT_BACK + "::{closure#0}"}
    ctx.check(bool(callers) and {c for c, _, _ in callers} <= allowed, rule, "Drain::read", "f: callers", "?",
              "Drain::read (the only move-out of a drained element) is called from %s; only next/next_back, which hold "
              "`&mut Drain` and advance the index iterator first, may call it" % sorted({c for c, _, _ in callers}),
              "called only from %s" % sorted({c for c, _, _ in callers}), cfg)
    for short in (NEXT, NEXT_BACK):
        g = prog.fn(short)
        if g is not None:
            ctx.check(g.local_ty(1).startswith("&mut "), rule, short, "f: takes &mut Drain", g.loc,
                      "receiver is `%s`" % g.local_ty(1), "receiver &mut Drain", cfg, nontrivial=False)
    # WHO1: Drain is neither Clone nor Copy
    bad = [i for i in prog.impls if i.get("self_adt", "").endswith("::Drain") and i.get("trait") in ("core::clone::Clone", "core::marker::Copy")]
    ctx.check(not bad, rule, "Drain", "not Clone/Copy", "?",
              "Drain implements %s: a duplicated drain reads the same elements out twice" % [i["trait"] for i in bad],
              "no Clone/Copy impl for Drain among %d impls" % len(prog.impls), cfg)


def drainit1(ctx, prog, cfg, rule="DRAINIT1"):
    eff = effects.get(prog)
    for short, rng_fn in ((NEXT, "<Range<A> as Iterator>::next"), (NEXT_BACK, "<Range<A> as DoubleEndedIterator>::next_back")):
        f = ctx.need_fn(prog, short, rule)
        if f is None:
            continue
        rc = [(b, t) for b, t in f.calls(False) if mir.callee_short(t) == rng_fn]
        ok = len(rc) == 1
        arg_ok = False
        if ok:
            a = f.call_args(rc[0][0])[0]
            arg_ok = a == ("ref", ("place", ("param", 1), ("iter",)))
        ctx.check(ok and arg_ok, rule, short, "advances self.iter", f.loc,
                  "`%s` does not obtain the index from exactly one `%s(&mut self.iter)`" % (short, rng_fn),
                  "index = %s(&mut self.iter)" % rng_fn, cfg)
        # the element handed out is read(self, i) for exactly the index i just produced: either
        # `.map(|i| read(i))` (closure argument) or `let i = ...?; Some(read(i))` (payload of the call)
        sites = [(f, b) for b, t in f.calls_to("Drain::read", unwind=False)]
        c = prog.fn(short + "::{closure#0}")
        if c is not None:
            sites += [(c, b) for b, t in c.calls_to("Drain::read", unwind=False)]
        ok3 = len(sites) == 1
        why3 = "%d calls of Drain::read" % len(sites)
        if ok3:
            g, rb = sites[0]
            ia = mir.strip_casts(g.deep_simplify(g.call_args(rb)[1]))
            if g is c:
                mc = [(b, t) for b, t in f.calls(False) if mir.callee_path(t) == "core::option::Option::map"]
                ok3 = ia == ("param", 2) and len(mc) == 1 and isinstance(f.call_args(mc[0][0])[0], tuple) and f.call_args(mc[0][0])[0][:2] == ("call", rng_fn)
                why3 = "iter.%s().map(|i| read(i))" % rng_fn.split("::")[-1]
            else:
                from_call = any(isinstance(s, tuple) and s and s[0] == "call" and s[1] == rng_fn for s in mir.walk(ia))
                arith = any(isinstance(s, tuple) and s and s[0] in ("binop", "pcall") for s in mir.walk(ia))
                ok3 = from_call and not arith
                why3 = "read(index) with index = payload of iter.%s()" % rng_fn.split("::")[-1]
        ctx.check(ok3, rule, short, "reads exactly the produced index", f.loc,
                  "the element handed out by `%s` is not `read(i)` for exactly the index `i` just produced by the range iterator (%s)" % (short, why3),
                  why3, cfg)
    # len / size_hint are the index iterator's
    for short, callee in (("<Drain<N, T> as Iterator>::size_hint", "<Range<A> as Iterator>::size_hint"),
                          ("<Drain<N, T> as ExactSizeIterator>::len", "ExactSizeIterator::len")):
        f = ctx.need_fn(prog, short, rule)
        if f is None:
            continue
        cs = f.calls(False)
        ok = len(cs) == 1 and mir.callee_short(cs[0][1]) == callee
        if ok:
            a = f.call_args(cs[0][0])[0]
            ok = a == ("ref", ("place", ("param", 1), ("iter",))) and mir.strip_casts(f.return_expr(f.return_blocks()[0]))[0] == "call"
        ctx.check(ok, rule, short, "delegates to self.iter", f.loc, "`%s` is not `self.iter.%s()`" % (short, callee.split("::")[-1]),
                  "returns %s(&self.iter)" % callee, cfg)
    # `range` is never written after construction; `iter` only through the two Range calls
    for g in prog.fns.values():
        imp = g.impl() or {}
        if not imp.get("self_adt", "").endswith("::Drain") or g.short == OVER:
            continue
        w = effects.get(prog).direct_writes.get(g.short, set())
        ctx.check("range" not in w, rule, g.short, "range immutable", g.loc,
                  "`%s` writes Drain.range after construction: the hole described to Drain::drop no longer matches what was drained" % g.short,
                  "no store to Drain.range", cfg, nontrivial=False)


BOUND = {0: "Included", 1: "Excluded", 2: "Unbounded"}


def range1(ctx, prog, cfg, rule="RANGE1"):
    # the three range entry points validate through the one function, arguments passed through
    for short in ("Iter::over_range", "IterMut::over_range", OVER):
        f = ctx.need_fn(prog, short, rule)
        if f is None:
            continue
        cs = f.calls_to(TRB, unwind=False)
        ok = len(cs) == 1
        if ok:
            a = [mir.strip_casts(x) for x in f.call_args(cs[0][0])]
            ok = a[0] == ("param", 1) and a[1] == ("param", 2)
        ctx.check(ok, rule, short, "validates (buf, range) through translate_range_bounds", f.loc,
                  "`%s` does not pass its buffer and range unchanged to the single validation function" % short,
                  "translate_range_bounds(buf, range)", cfg)
    for short, tgt in (("CircularBuffer::range", "Iter::over_range"), ("CircularBuffer::range_mut", "IterMut::over_range"), ("CircularBuffer::drain", OVER)):
        f = ctx.need_fn(prog, short, rule)
        if f is None:
            continue
        cs = f.calls_to(tgt, unwind=False)
        ok = len(cs) == 1 and [mir.strip_casts(x) for x in f.call_args(cs[0][0])] == [("param", 1), ("param", 2)]
        ctx.check(ok, rule, short, "forwards to " + tgt, f.loc, "`%s` is not `%s(self, range)`" % (short, tgt), "%s(self, range)" % tgt, cfg)
    g = ctx.need_fn(prog, TRB, rule)
    if g is None:
        return
    G = guards.Guards(g)
    rets = g.return_blocks()
    if len(rets) != 1:
        ctx.violate(rule, TRB, "single return", g.loc, "expected one return block", cfg)
        return
    r = g.return_expr(rets[0])
    if not (isinstance(r, tuple) and r[0] == "agg" and len(r[3]) == 2):
        ctx.violate(rule, TRB, "returns (start, end)", g.loc, "return value is not a pair", cfg)
        return
    for pos, name, which in ((0, "start", "RangeBounds::start_bound"), (1, "end", "RangeBounds::end_bound")):
        e = r[3][pos][1]
        wrapped = False
        e_ = mir.strip_casts(g.deep_simplify(e))
        if isinstance(e_, tuple) and e_[:1] == ("call",) and e_[1] in ("Option::expect", "Option::unwrap") and e_[2] and isinstance(e_[2][0], tuple) and e_[2][0][:1] == ("phi",):
            # the three arms each produce an Option and one `.expect(..)` after the join unwraps it: the same translation with the
            # overflow check of the `+ 1` arm shared
            wrapped, e = True, e_[2][0]
        if not (isinstance(e, tuple) and e[0] == "phi" and e[2][0] == "L"):
            ctx.violate(rule, TRB, "%s is a join of the three bound kinds" % name, g.loc, "`%s` is `%s`" % (name, mir.fmt(e, g)), cfg)
            continue
        seen = {}
        for b, i, st, is_term in g.positions(False):
            val = None
            if not is_term and st["k"] == "assign" and st["place"]["local"] == e[2][1] and not st["place"]["proj"]:
                val = mir.strip_casts(g.rvalue_expr(st["rv"], b, i))
            elif is_term and st["k"] == "call" and st["dest"]["local"] == e[2][1] and not st["dest"]["proj"]:
                val = mir.strip_casts(g.call_expr(b))
            if val is not None:
                kinds = [a[2] for a in G.facts_at(b) if a[0] == "is" and isinstance(a[1], tuple) and a[1][0] == "call" and a[1][1] == which]
                # the otherwise-arm carries isnot facts
                if not kinds:
                    nots = {a[2] for a in G.facts_at(b) if a[0] == "isnot" and isinstance(a[1], tuple) and a[1][0] == "call" and a[1][1] == which}
                    kinds = [k for k in (0, 1, 2) if k not in nots] if len(nots) == 2 else []
                for k in kinds:
                    seen[k] = (b, i, val)
        for k in (0, 1, 2):
            if k not in seen:
                ctx.violate(rule, TRB, "%s bound %s handled" % (name, BOUND[k]), g.loc, "no arm for Bound::%s of the %s bound" % (BOUND[k], name), cfg)
                continue
            b, i, val = seen[k]
            plus1 = (k == 1 and name == "start") or (k == 0 and name == "end")
            if wrapped:
                val = mir.strip_casts(g.deep_simplify(val))
                if isinstance(val, tuple) and val[:1] == ("agg",) and val[2] == "Some" and len(val[3]) == 1:
                    val = mir.strip_casts(val[3][0][1])      # Some(v): unwrapped to v by the shared expect
                elif plus1 and isinstance(val, tuple) and val[:2] == ("pcall", "<usize>::checked_add"):
                    val = ("call", "Option::expect", (val, ("const", "shared", "")), b)   # x.checked_add(1), None caught by the shared expect
                else:
                    val = ("opaque-option", val)
            if k == 2:
                if name == "start":
                    ok = val == ("int", 0)
                    want = "0"
                else:
                    ok = mir.is_load_of(val, "size") == ("param", 1)
                    want = "buf.len()"
            elif plus1:
                ok = (isinstance(val, tuple) and val[0] == "call" and val[1] == "Option::expect" and isinstance(val[2][0], tuple)
                      and val[2][0][0] == "pcall" and val[2][0][1] == "<usize>::checked_add" and mir.strip_casts(val[2][0][2][1]) == ("int", 1)
                      and _is_bound_payload(val[2][0][2][0], which))
                want = "x.checked_add(1).expect(..)"
            else:
                ok = _is_bound_payload(val, which)
                want = "*x"
            ctx.check(ok, rule, TRB, "%s bound %s -> %s" % (name, BOUND[k], want), short_loc(g, b, i),
                      "the %s bound `Bound::%s(x)` is translated to `%s`, documented meaning is `%s`" % (name, BOUND[k], mir.fmt(val, g), want),
                      "%s = %s" % (name, want), cfg)


def _is_bound_payload(e, which):
    """e is a plain load of the payload of the bound returned by `which` (no arithmetic)"""
    e = mir.strip_casts(e)
    if not (isinstance(e, tuple) and e[0] == "load"):
        return False
    inner = e[1]
    has_call = any(isinstance(s, tuple) and s and s[0] == "call" and s[1] == which for s in mir.walk(inner))
    has_arith = any(isinstance(s, tuple) and s and s[0] in ("binop", "pcall") for s in mir.walk(e))
    return has_call and not has_arith


def drnview1(ctx, prog, cfg, rule="DRNVIEW1"):
    """The views over the not-yet-yielded part of a drain (what Drain::drop destroys and Debug
    shows) are bounded by `iter` — the index iterator that shrinks as elements are handed out —
    never by `range`, the immutable record of the hole."""
    for short in ("Drain::as_slices", "Drain::as_mut_slices"):
        f = ctx.need_fn(prog, short, rule)
        if f is None:
            continue
        ams = f.calls_to("add_mod", unwind=False)
        seen = set()
        uses_range = []
        for b, t in f.calls(False):
            for a in f.call_args(b):
                a = f.deep_simplify(a)
                for s in mir.walk(a):
                    if isinstance(s, tuple) and s and s[0] == "load" and s[2] and s[2][0] == "range":
                        uses_range.append((b, mir.callee_short(t)))
        for b, i, st, is_term in f.positions(False):
            if not is_term and st["k"] == "assign":
                e = f.deep_simplify(f.rvalue_expr(st["rv"], b, i))
                for s in mir.walk(e):
                    if isinstance(s, tuple) and s and s[0] == "load" and s[2] and s[2][0] == "range":
                        uses_range.append((b, "assignment"))
        for b, t in ams:
            a = [mir.strip_casts(f.deep_simplify(x)) for x in f.call_args(b)]
            if len(a) == 3 and isinstance(a[1], tuple) and a[1][0] == "load" and a[1][2][:1] == ("iter",):
                seen.add(a[1][2])
        ctx.check({("iter", "start"), ("iter", "end")} <= seen, rule, short, "bounds are add_mod(start, iter.start|iter.end, N)", f.loc,
                  "the un-yielded view is not bounded by both `iter.start` and `iter.end` (found %s): elements already handed "
                  "out by next/next_back would be destroyed again by Drain::drop or shown by Debug" % sorted(seen),
                  "bounds derive from iter.start and iter.end", cfg)
        ctx.check(not uses_range, rule, short, "does not read `range`", f.loc,
                  "the un-yielded view reads `range` (%s), the immutable record of the requested hole, which still covers "
                  "elements that were already yielded" % uses_range,
                  "no load of Drain.range", cfg)


# ---------------------------------------------------------------------------------------------------------------
# BACKFILL2 — geometry of the back-fill in Drain::drop
#
# After the droppers ran, the logical slots [range.start, range.end) are dead (yielded or destroyed) and the logical
# slots [range.end, buf_size) are the live tail. Drain::drop closes the gap by a chunked copy loop carried by three
# locals: a source cursor, a destination cursor and a counter. Whatever the chunking, the copy is right only if
#     destination starts at logical range.start            (the first dead slot)
#     source      starts at logical range.end              (the first live slot behind the hole)
#     source start + counter == buf_size                   (the moved block ends where the old contents end)
#     restored size == destination start + counter         (prefix + moved tail)
#     each iteration advances both cursors by, and reduces the counter by, exactly the copied count
# All five are equalities between linear forms over the Drain's fields; they are decided by normalising the MIR
# expressions (Range::len = end - start, `.add(a).add(b)` = offset a + b), not by matching source text.
_DF = {("range", "start"), ("range", "end"), ("iter", "start"), ("iter", "end"), ("buf_size",)}


def _dlin(f, e, sign=1, acc=None):
    if acc is None:
        acc = {}
    e = mir.strip_casts(f.deep_simplify(e))
    if isinstance(e, tuple) and e:
        if e[0] == "int":
            acc[1] = acc.get(1, 0) + sign * e[1]
            return acc
        cs_ = mir.checked_sub_payload(e)
        if cs_ is not None:
            _dlin(f, cs_[0], sign, acc)
            _dlin(f, cs_[1], -sign, acc)
            return acc
        if e[0] == "binop" and e[1] in ("Add", "Sub", "AddUnchecked", "SubUnchecked", "AddWithOverflow", "SubWithOverflow"):
            _dlin(f, e[2], sign, acc)
            _dlin(f, e[3], sign if e[1].startswith("Add") else -sign, acc)
            return acc
        if e[0] == "field" and e[2] in (0, "0") and isinstance(e[1], tuple) and e[1] and e[1][0] == "binop" and e[1][1].endswith("WithOverflow"):
            return _dlin(f, e[1], sign, acc)
        if e[0] == "load" and e[1] == ("param", 1) and tuple(e[2]) in _DF and e[3][0] == "entry":
            k = ".".join(e[2])
            acc[k] = acc.get(k, 0) + sign
            return acc
        if e[0] == "load" and tuple(e[2]) == ("start",) and e[3][0] == "entry":
            acc["buf.start"] = acc.get("buf.start", 0) + sign
            return acc
        if e[0] in ("call", "pcall") and str(e[1]).endswith("ExactSizeIterator::len") and len(e[2]) == 1:
            a = e[2][0]
            if isinstance(a, tuple) and a[0] == "ref" and isinstance(a[1], tuple) and a[1][0] == "place" and a[1][1] == ("param", 1) \
                    and tuple(a[1][2]) in (("range",), ("iter",)) and not common.field_stores(f, a[1][2][0]):
                r = a[1][2][0]
                acc[r + ".end"] = acc.get(r + ".end", 0) + sign
                acc[r + ".start"] = acc.get(r + ".start", 0) - sign
                return acc
    acc[repr(e)] = acc.get(repr(e), 0) + sign
    return acc


def _lk(a):
    return tuple(sorted((str(k), v) for k, v in a.items() if v != 0))


def _lshow(a):
    out = []
    for k, v in sorted(a.items(), key=lambda kv: str(kv[0])):
        if v == 0:
            continue
        t = str(k) if k != 1 else ""
        if len(t) > 40:
            t = "<opaque>"
        out.append(("+" if v > 0 else "-") + (str(abs(v)) if (abs(v) != 1 or k == 1) else "") + t)
    return " ".join(out) or "0"


def _cursor_offset(f, e):
    """a CircularSlicePtr value as the linear sum of the `.add()` increments over `CircularSlicePtr::new(items)`"""
    acc = {}
    e = f.deep_simplify(e)
    while isinstance(e, tuple) and e and e[0] == "call" and e[1] == "CircularSlicePtr::add" and len(e[2]) == 2:
        inc = mir.strip_casts(f.deep_simplify(e[2][1]))
        # the cursor's offset lives modulo the slice length N: add_mod(a, b, N) is a + b there
        st = [inc]
        while st:
            x = mir.strip_casts(st.pop())
            if isinstance(x, tuple) and x and x[0] in ("call", "pcall") and x[1] == "add_mod" and len(x[2]) == 3 and mir.strip_casts(x[2][2]) == ("cparam", "N"):
                st.extend([x[2][0], x[2][1]])
            else:
                _dlin(f, x, 1, acc)
        e = f.deep_simplify(e[2][0])
    if isinstance(e, tuple) and e and e[0] == "call" and e[1] == "CircularSlicePtr::new":
        return acc
    return None


def _phi_local(e, head):
    for s in mir.walk(e):
        if isinstance(s, tuple) and len(s) == 3 and s[0] == "phi" and s[1] == head and isinstance(s[2], tuple) and s[2][0] == "L":
            return s[2][1]
    return None


def backfill2(ctx, prog, cfg, rule="BACKFILL2"):
    from . import termrule

    f = ctx.need_fn(prog, DROP, rule)
    if f is None:
        return
    loops = [(latch, head) for (latch, head) in f.back_edges(False)]
    copies = [b for b, t in f.calls(False) if mir.callee_path(t) in ("core::ptr::copy", "core::ptr::copy_nonoverlapping")]
    stores = common.field_stores(f, "size")
    if len({h for _, h in loops}) != 1 or len(copies) != 1 or len(stores) != 1:
        ctx.violate(rule, f.short, "one copy loop, one restore", f.loc,
                    "Drain::drop no longer has the form `one chunked copy loop, then one store to size` (%d loop head(s), %d "
                    "ptr::copy site(s), %d size store(s)): the back-fill geometry cannot be decided" % (len({h for _, h in loops}), len(copies), len(stores)), cfg)
        return
    head = loops[0][1]
    body = set()
    for latch, h in loops:
        body |= termrule.natural_loop(f, latch, h)
    cb = copies[0]
    src, dst, cnt = [f.deep_simplify(a) for a in f.call_args(cb)]
    ls, ld = _phi_local(src, head), _phi_local(dst, head)
    lr = None
    for s in mir.walk(cnt):
        if isinstance(s, tuple) and len(s) == 3 and s[0] == "phi" and s[1] == head and isinstance(s[2], tuple) and s[2][0] == "L" and s[2][1] not in (ls, ld):
            lr = s[2][1]
    if ls is None or ld is None or lr is None or ls == ld or cb not in body:
        ctx.violate(rule, f.short, "loop-carried source, destination, counter", f.loc,
                    "the ptr::copy in Drain::drop is not driven by three loop-carried locals (source %s, destination %s, counter %s)" % (ls, ld, lr), cfg)
        return
    preds = f.preds(False).get(head, [])
    init, step = {}, {}
    for var in (ls, ld, lr):
        for p in preds:
            n = len(f.blocks[p]["stmts"]) + 1
            e = f.deep_simplify(f.version_expr(f.version_at(p, n, ("L", var))))
            (step if p in body else init).setdefault(var, []).append(e)
    S0 = [_cursor_offset(f, e) for e in init.get(ls, [])]
    D0 = [_cursor_offset(f, e) for e in init.get(ld, [])]
    R0 = [_dlin(f, e) for e in init.get(lr, [])]
    if len(S0) != 1 or len(D0) != 1 or len(R0) != 1 or S0[0] is None or D0[0] is None:
        ctx.violate(rule, f.short, "initial cursors", f.loc,
                    "the initial source/destination cursors of the back-fill are not `CircularSlicePtr::new(items).add(..)` chains", cfg)
        return
    S0, D0, R0 = S0[0], D0[0], R0[0]
    # how the counter bounds the copy: as itself (counts down: `min(.., remaining)`) or as the distance to a fixed bound
    # (counts up: `min(.., back_len - moved)`); either way "what is left" is a linear form and shrinks by the copied count
    up_bound = None

    def min_leaves(e):
        e = mir.strip_casts(e)
        if isinstance(e, tuple) and e and e[0] == "pcall" and str(e[1]).split("::")[-1] == "min" and len(e[2]) == 2:
            return min_leaves(e[2][0]) + min_leaves(e[2][1])
        return [e]

    phi_r = ("phi", head, ("L", lr))
    leaf = [x for x in min_leaves(cnt) if any(y == phi_r for y in mir.walk(x))]
    form_ok = len(leaf) == 1 and (leaf[0] == phi_r or (leaf[0][0] == "binop" and leaf[0][1] in ("Sub", "SubUnchecked") and mir.strip_casts(leaf[0][3]) == phi_r
                                                        and not any(y == phi_r for y in mir.walk(leaf[0][2]))))
    if not form_ok:
        ctx.violate(rule, f.short, "count bounded by what is left", f.loc,
                    "the count given to ptr::copy is not `min(.., counter)` / `min(.., bound - counter)` of the loop counter: how many "
                    "elements are left to move cannot be read off", cfg)
        return
    if leaf[0] != phi_r:
        up_bound = leaf[0][2]
        R0 = _dlin(f, up_bound, 1, {k: -v for k, v in R0.items()})   # bound - initial counter
    sz = _dlin(f, stores[0][2])

    def minus(a, b):
        r = dict(a)
        for k, v in b.items():
            r[k] = r.get(k, 0) - v
        return r

    def plus(a, b):
        r = dict(a)
        for k, v in b.items():
            r[k] = r.get(k, 0) + v
        return r

    base = {"buf.start": 1}
    Sl, Dl = minus(S0, base), minus(D0, base)
    ctx.check(_lk(Dl) == _lk({"range.start": 1}), rule, f.short, "destination starts at the first dead slot", f.loc,
              "the back-fill writes from logical offset `%s`, not from `range.start`: live elements in front of the hole are "
              "overwritten without being destroyed, or dead slots are left inside the restored region" % _lshow(Dl),
              "destination cursor = start + range.start", cfg)
    ctx.check(_lk(Sl) == _lk({"range.end": 1}), rule, f.short, "source starts at the first live slot behind the hole", f.loc,
              "the back-fill reads from logical offset `%s`, not from `range.end`: slots of the drained range (already handed out "
              "or destroyed) are copied back into the buffer and destroyed a second time, and the real tail is lost" % _lshow(Sl),
              "source cursor = start + range.end", cfg)
    ctx.check(_lk(plus(Sl, R0)) == _lk({"buf_size": 1}), rule, f.short, "moved block ends at the old size", f.loc,
              "source offset + count = `%s`, not `buf_size`: the back-fill moves slots beyond the old contents or leaves live "
              "elements behind" % _lshow(plus(Sl, R0)), "source + remaining = buf_size", cfg)
    ctx.check(_lk(plus(Dl, R0)) == _lk(sz), rule, f.short, "restored size = prefix + moved tail", f.loc,
              "the restored size `%s` is not destination offset + count `%s`: the header disagrees with what the back-fill "
              "made contiguous" % (_lshow(sz), _lshow(plus(Dl, R0))), "size = range.start + remaining", cfg)
    # per-iteration steps
    for var, what in ((ls, "source"), (ld, "destination")):
        for e in step.get(var, []):
            ok = isinstance(e, tuple) and e and e[0] == "call" and e[1] == "CircularSlicePtr::add" and len(e[2]) == 2 \
                and _phi_local(e[2][0], head) == var and f.deep_simplify(e[2][1]) == cnt
            ctx.check(ok, rule, f.short, "%s cursor advances by the copied count" % what, f.loc,
                      "the %s cursor of the back-fill is not advanced by exactly the count given to ptr::copy" % what,
                      "cursor' = cursor.add(copy count)", cfg)
    for e in step.get(lr, []):
        e = mir.strip_casts(e)
        ops = ("Sub", "SubUnchecked") if up_bound is None else ("Add", "AddUnchecked")
        ok = isinstance(e, tuple) and e and e[0] == "binop" and e[1] in ops and ((_phi_local(e[2], head) == lr and f.deep_simplify(e[3]) == cnt)
                                                                             or (up_bound is not None and _phi_local(e[3], head) == lr and f.deep_simplify(e[2]) == cnt))
        ctx.check(ok, rule, f.short, "counter decreases by the copied count", f.loc,
                  "what is left to move is not reduced by exactly the count given to ptr::copy in each iteration", "left' = left - copy count", cfg)
    # the loop is left only when nothing is left to move
    Gx = guards.Guards(f)
    for (s_, kind, label) in f.succ_edges(head):
        if kind != "normal" or s_ in body:
            continue
        atoms = set(Gx.facts_at(head)) | set(Gx.edge_atoms(head, label))
        if up_bound is None:
            Z = guards.Zone(f, atoms, [phi_r])
            ok = Z.contradiction or Z.eq0(phi_r)
        else:
            ub = guards.norm(up_bound)
            Z = guards.Zone(f, atoms, [phi_r, ub])
            ok = Z.contradiction or Z.le(ub, phi_r, 0)
        ctx.check(ok, rule, f.short, "loop left only when nothing is left to move", short_loc(f, head),
                  "the back-fill loop can be left while elements behind the hole are still to be moved (the exit edge does not establish "
                  "that the count of what is left is zero)", "exit edge entails left == 0", cfg)
