"""Rules shared by several properties (DESIGN.md §4): MOD1, ACC1, INV1, WHO1 helpers."""
from . import common, effects, guards, mir, requires
from .report import short_loc

ZERO = guards.ZERO

# ------------------------------------------------------------------------------------------------
# MOD1: capacity zero never reaches a modulus or an element index
# ------------------------------------------------------------------------------------------------


def gen_mod(f):
    """Assert(DivisionByZero | RemainderByZero) => REQUIRES(divisor > 0), evaluated *before* the
    assertion's success edge; unchecked Rem/Div whose divisor is not a non-zero literal likewise"""
    out = []
    for b in sorted(f.reachable(False)):
        t = f.term(b)
        n = len(f.blocks[b]["stmts"])
        if t["k"] == "assert" and t.get("msg") in ("DivisionByZero", "RemainderByZero"):
            c = f.operand_expr(t["cond"], b, n)
            for a in guards.atoms_of_cond(c, t["expected"]):
                if a[0] == "ne":
                    d = a[1] if a[2] == ZERO else a[2]
                    out.append((b, n, ("le", ZERO, d, -1), "%s check on `%s`" % (t["msg"], mir.fmt(d, f)), "MOD1"))
                elif a[0] == "le":
                    out.append((b, n, a, "%s check" % t["msg"], "MOD1"))
    for b, i, st, is_term in f.positions(False):
        if is_term or st["k"] != "assign":
            continue
        rv = st["rv"]
        if rv["k"] == "binop" and rv["op"] in ("RemUnchecked", "DivUnchecked"):
            c = mir.const_int(rv["b"])
            if c is not None and c != 0:
                continue
            d = f.operand_expr(rv["b"], b, i)
            out.append((b, i, ("le", ZERO, d, -1), "%s by `%s`" % (rv["op"], mir.fmt(d, f)), "MOD1"))
    return out


def gen_array_index(f):
    """Assert(BoundsCheck) on an array [_; N] => REQUIRES(N > 0)"""
    out = []
    for b in sorted(f.reachable(False)):
        t = f.term(b)
        if t["k"] == "assert" and t.get("msg") == "BoundsCheck":
            ln = t["len"]
            if ln.get("k") == "const" and "param" in ln:
                n = len(f.blocks[b]["stmts"])
                out.append((b, n, ("le", ZERO, ("cparam", ln["param"]), -1),
                            "element index into [_; %s]" % ln["param"], "MOD1"))
    return out


MOD1_EXEMPT = {
    # unsafe fn; its safety contract `index < buf_size <= N` is established by
    # translate_range_bounds + Range::next (value-level), see DESIGN.md MOD1
    "Drain::read": {"MOD1": "unsafe fn Drain::read: contract index < buf_size <= N (value-level, DRAINIT1)"},
}


def run_mod1(prog):
    key = ("mod1", id(prog))
    eng = _CACHE.get(key)
    if eng is None:
        eng = requires.Engine(prog, [gen_mod, gen_array_index], exempt=MOD1_EXEMPT).run()
        _CACHE[key] = eng
    return eng


_CACHE = {}


def report_requires(ctx, eng, rule, cfg, entry_filter=None, prog=None):
    """Turn an engine's results into obligations of `ctx`. entry_filter(short) selects which
    public entries / functions this property is responsible for (None = all)."""
    eff = eng.eff
    n = 0
    for (fn, site, by) in eng.discharged:
        if entry_filter is not None and not _relevant(eng, fn, entry_filter):
            continue
        ctx.ok(rule, fn, site, by, cfg)
        n += 1
    for (fn, b, r, reason) in eng.failures:
        if entry_filter is not None and not _relevant(eng, fn, entry_filter):
            continue
        origin = r.chain[0]
        path = " -> ".join("%s (%s)" % (x, l) for x, l in reversed(r.chain))
        f = eng.prog.fns.get(origin[0])
        ctx.violate(
            rule, fn, "%s requires %s" % (origin[0], requires.fmt_atom(r.atom, eng.prog.fns.get(fn))),
            r.chain[-1][1],
            "%s: `%s` needed for %s in `%s` %s" % (rule, requires.fmt_atom(r.atom, eng.prog.fns.get(fn)), r.why, origin[0], reason),
            cfg, detail="path: " + path)
        n += 1
    return n


def _relevant(eng, fn, entry_filter):
    if entry_filter(fn):
        return True
    # a helper is relevant if some selected entry reaches it
    cache = eng.__dict__.setdefault("_relcache", {})
    if fn in cache.get(id(entry_filter), {}):
        return cache[id(entry_filter)][fn]
    sel = [e for e in eng.prog.fns if entry_filter(e)]
    reach = set()
    for e in sel:
        reach |= eng.eff.closure(e)
    d = cache.setdefault(id(entry_filter), {})
    for x in eng.prog.fns:
        d[x] = x in reach
    return d.get(fn, False)


# ------------------------------------------------------------------------------------------------
# ACC1: helper preconditions (table; cross-checked against the helpers' debug_assert!s)
# ------------------------------------------------------------------------------------------------


def _size0(p=1):
    return ("load", ("param", p), ("size",), ("entry", ("M", "size")))


ACC1_TABLE = {
    "CircularBuffer::front_maybe_uninit": [(("le", ZERO, _size0(), -1), "front slot access needs size > 0", "ACC1")],
    "CircularBuffer::front_maybe_uninit_mut": [(("le", ZERO, _size0(), -1), "front slot access needs size > 0", "ACC1")],
    "CircularBuffer::back_maybe_uninit": [(("le", ZERO, _size0(), -1), "back slot access needs size > 0", "ACC1")],
    "CircularBuffer::back_maybe_uninit_mut": [(("le", ZERO, _size0(), -1), "back slot access needs size > 0", "ACC1")],
    "CircularBuffer::get_maybe_uninit": [(("le", ("param", 2), _size0(), -1), "slot access needs index < size", "ACC1")],
    "CircularBuffer::get_maybe_uninit_mut": [(("le", ("param", 2), _size0(), -1), "slot access needs index < size", "ACC1")],
    "CircularBuffer::inc_size": [(("le", _size0(), ("cparam", "N"), -1), "inc_size needs size < N", "ACC1")],
    "CircularBuffer::dec_size": [(("le", ZERO, _size0(), -1), "dec_size needs size > 0", "ACC1")],
    "CircularBuffer::inc_start": [(("le", ZERO, ("cparam", "N"), -1), "inc_start needs N > 0", "ACC1")],
    "CircularBuffer::dec_start": [(("le", ZERO, ("cparam", "N"), -1), "dec_start needs N > 0", "ACC1")],
}


def run_acc1(prog):
    key = ("acc1", id(prog))
    eng = _CACHE.get(key)
    if eng is None:
        eng = requires.Engine(prog, [], declared=ACC1_TABLE).run()
        _CACHE[key] = eng
    return eng
