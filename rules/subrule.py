"""SUB1: no usize subtraction underflows.

With overflow checks off (release) an underflowing `a - b` wraps to a huge index/length; with them
on (debug) it is an undocumented panic. Every `Sub` in the crate's MIR generates REQUIRES(b <= a),
discharged by the must-facts at the site (guards, INV, the Zone's axioms) or exported to the
callers through the REQUIRES engine until a guard discharges it.

What is *reported* is restricted to obligations whose both sides are transparent terms — usize
parameters, literals, const parameters, the buffer header fields `size`/`start`, lengths of slice
parameters and of slice-typed fields of a parameter, results of add_mod/sub_mod, and sums/differences/minima of those — because for them
the guard reasoning is complete enough that "not entailed" means "a caller can make it underflow".
Obligations that mention an opaque value (the result of another call, a loop-carried variable, a
field of Drain/CircularSlicePtr/Iter whose invariant is value-level) are counted as undecided and
never reported.
"""
from . import guards, mir, requires

_CACHE = {}

_TRANSPARENT_PCALLS = ("core::cmp::min", "core::cmp::Ord::min", "<usize>::min", "<[T]>::len")


def transparent(f, e):
    e = mir.strip_casts(e)
    if not isinstance(e, tuple) or not e:
        return False
    k = e[0]
    if k in ("int", "cparam"):
        return True
    if k == "param":
        return True
    if k == "load":
        base = e[1]
        while isinstance(base, tuple) and base and base[0] == "field":
            base = base[1]  # a closure's captured `self`
        if tuple(e[2]) in guards._DRAIN_FIELDS and isinstance(base, tuple) and base[0] == "param":
            return True  # Drain's index fields: their invariant is an axiom of the Zone
        return e[2] in (("size",), ("start",)) and isinstance(e[1], tuple) and e[1][0] == "param"
    if k == "binop":
        return e[1] in ("Add", "Sub") and transparent(f, e[2]) and transparent(f, e[3])
    if k == "pcall":
        if e[1] == "<[T]>::len" and len(e[2]) == 1:
            # the length of a slice parameter or of a slice-typed field of a parameter (Iter.right/left):
            # an unconstrained non-negative value
            x = mir.strip_casts(e[2][0])
            if isinstance(x, tuple) and x and x[0] == "load" and isinstance(x[1], tuple) and x[1][0] == "param" and len(x[2]) == 1:
                return True
            if isinstance(x, tuple) and x and x[0] == "field" and isinstance(x[1], tuple) and x[1][:2] in (("call", "CircularBuffer::as_slices"), ("call", "CircularBuffer::as_mut_slices")):
                # the two pieces of the contents: each anywhere between 0 and size (Zone axiom), depending on the layout
                return True
        return e[1] in _TRANSPARENT_PCALLS and all(transparent(f, x) for x in e[2])
    if k == "call":
        return e[1] in ("add_mod", "sub_mod") and all(transparent(f, x) for x in e[2])
    if k == "field" and isinstance(e[1], tuple) and e[1][:2] == ("call", "translate_range_bounds"):
        # a validated range: any pair with start <= end <= len (its ENSURES), nothing more
        return True
    return False


def _pieces(atom):
    """number of distinct as_slices()/as_mut_slices() pieces whose length the obligation mentions: the two pieces of
    one buffer are tied by len0 + len1 == size, which difference constraints cannot express, so an obligation over
    two or more of them is left undecided rather than reported"""
    ps = set()
    for side in (atom[1], atom[2]):
        for s in mir.walk(side):
            if isinstance(s, tuple) and s and s[0] == "field" and isinstance(s[1], tuple) and s[1][:2] in (("call", "CircularBuffer::as_slices"), ("call", "CircularBuffer::as_mut_slices")):
                ps.add(s)
    return len(ps)


def gen_sub(f):
    out = []
    for b, i, st, is_term in f.positions(False):
        if is_term or st["k"] != "assign" or st["rv"]["k"] != "binop":
            continue
        op = st["rv"]["op"]
        if not op.startswith("Sub"):
            continue
        if f.operand_ty(st["rv"]["a"]) not in (None, "usize") if hasattr(f, "operand_ty") else False:
            continue
        a = f.operand_expr(st["rv"]["a"], b, i)
        c = f.operand_expr(st["rv"]["b"], b, i)
        why = "`%s - %s` must not underflow" % (mir.fmt(f.deep_simplify(a), f)[:60], mir.fmt(f.deep_simplify(c), f)[:60])
        out.append((b, i, ("le", c, a, 0), why, "SUB1"))
    return out


SPLIT = ("<[T]>::split_at", "<[T]>::split_at_mut", "<[T]>::rotate_left", "<[T]>::rotate_right")


def _base_len(f, e):
    from . import lenrule

    e = mir.strip_casts(e)
    if isinstance(e, tuple) and e and e[0] == "ref" and isinstance(e[1], tuple) and e[1][0] == "place" and tuple(e[1][2])[-1:] == ("items",):
        return ("cparam", guards.buffer_cparam(f, e[1][1]) or "N")
    return lenrule.slice_len(e)


def gen_range_index(f):
    """REQUIRES of the implicit checks of range indexing and splitting: `s[a..b]` needs a <= b <= len(s), `s[..b]`
    b <= len(s), `s[a..]` a <= len(s), split_at/rotate(k) k <= len(s); len(s) symbolic (rules/lenrule.py)"""
    from . import lenrule

    out = []
    for b, t in f.calls(False):
        p = mir.callee_path(t) or ""
        args = [f.deep_simplify(a) for a in f.call_args(b)]
        if len(args) != 2:
            continue
        n = len(f.blocks[b]["stmts"])
        if "Index<I>>::index" in p or "IndexMut<I>>::index_mut" in p:
            r = args[1]
            if not (isinstance(r, tuple) and r[0] == "agg"):
                continue
            d = {k: lenrule.norm_len(v) for k, v in r[3]}
            L = _base_len(f, args[0])
            v = r[2]
            if v == "Range":
                out.append((b, n, ("le", d["start"], d["end"], 0), "`[a..b]` needs a <= b", "RIDX1"))
                out.append((b, n, ("le", d["end"], L, 0), "`[a..b]` needs b <= len", "RIDX1"))
            elif v == "RangeTo":
                out.append((b, n, ("le", d["end"], L, 0), "`[..b]` needs b <= len", "RIDX1"))
            elif v == "RangeFrom":
                out.append((b, n, ("le", d["start"], L, 0), "`[a..]` needs a <= len", "RIDX1"))
        elif p in SPLIT:
            out.append((b, n, ("le", lenrule.norm_len(args[1]), _base_len(f, args[0]), 0), "`%s(k)` needs k <= len" % p.split("::")[-1], "RIDX1"))
    return out


def run(prog, which="SUB1"):
    key = (id(prog), which)
    eng = _CACHE.get(key)
    if eng is None:
        eng = requires.Engine(prog, [gen_sub if which == "SUB1" else gen_range_index]).run()
        _CACHE[key] = eng
    return eng


def report(ctx, prog, cfg, rule="SUB1", floor=30, only=None):
    eng = run(prog, rule)
    n_ok = 0
    for (fn, site, by) in eng.discharged:
        if only is not None and not only(fn):
            continue
        ctx.ok(rule, fn, site, by, cfg)
        n_ok += 1
    undecided = []
    for (fn, b, r, reason) in eng.failures:
        if only is not None and not (only(fn) or only(r.chain[0][0])):
            continue
        f = prog.fns.get(fn)
        if transparent(f, r.atom[1]) and transparent(f, r.atom[2]) and _pieces(r.atom) <= 1:
            origin = r.chain[0]
            path = " -> ".join("%s (%s)" % (x, l) for x, l in reversed(r.chain))
            ctx.violate(rule, fn, "%s: %s" % (origin[0], r.why), r.chain[-1][1],
                        "%s: nothing establishes `%s` in `%s`, which %s: %s" % (rule, requires.fmt_atom(r.atom, f), fn, reason,
                        "the subtraction underflows (wraps in release builds, panics in debug builds)" if rule == "SUB1" else
                        "the slice index / split panics"), cfg, detail="path: " + path)
        else:
            undecided.append("%s: %s [%s]" % (fn, requires.fmt_atom(r.atom, f)[:120], r.chain[0][0]))
    if floor:
        ctx.floor(rule, "subtractions proved not to underflow" if rule == "SUB1" else "range-index / split obligations proved", n_ok, floor, cfg)
    ctx.extra.setdefault(rule.lower(), {})[cfg] = {"sites": eng.sites, "discharged": n_ok, "undecided_opaque": sorted(set(undecided))}
    return eng
