"""EQLEN1: std APIs with an equal-length contract (`write_clone_of_slice`, `copy_from_slice`,
`clone_from_slice`, `swap_with_slice`) panic when destination and source differ in length. The
crate's stable helper `write_uninit_slice_cloned` is the hand-written stand-in for the first one
(C18's reviewed substitution), so its call sites carry the same obligation: whatever the stable
helper tolerates, the `unstable` arm at the same site does not.

Lengths are computed symbolically from the slicing expressions: `s[..k]` has length k, `s[k..]`
len(s) - k, `s[a..b]` b - a, `s[..]` len(s), an array `[_; N]` N. Equality is decided syntactically
after that normalisation, or by the guard facts at the site (Zone)."""
from . import guards, mir
from .report import short_loc

EQLEN_APIS = {
    "<[core::mem::maybe_uninit::MaybeUninit<T>]>::write_clone_of_slice": (0, 1),
    "<[core::mem::maybe_uninit::MaybeUninit<T>]>::write_copy_of_slice": (0, 1),
    "circular_buffer::CircularBuffer::extend_from_slice::write_uninit_slice_cloned": (0, 1),
    "<[T]>::copy_from_slice": (0, 1),
    "<[T]>::clone_from_slice": (0, 1),
    "<[T]>::swap_with_slice": (0, 1),
}

LEN = "<[T]>::len"


def _is_index(e):
    return isinstance(e, tuple) and e and e[0] == "call" and isinstance(e[1], str) and ("Index<I>>::index" in e[1] or "IndexMut<I>>::index_mut" in e[1]) and len(e[2]) == 2


def slice_len(e):
    """symbolic length of a slice-valued expression"""
    e = mir.strip_casts(e)
    if isinstance(e, tuple) and e:
        if e[0] == "unsize":
            c = e[2]
            return ("int", int(c)) if str(c).isdigit() else ("cparam", c)
        if e[0] == "field" and e[2] in ("0", "1") and isinstance(e[1], tuple) and e[1][:1] == ("call",) and e[1][1] in ("<[T]>::split_at", "<[T]>::split_at_mut") and len(e[1][2]) == 2:
            # split_at(s, k) = (s[..k], s[k..])
            base, k = e[1][2]
            k = norm_len(mir.strip_casts(k))
            return k if e[2] == "0" else ("binop", "Sub", slice_len(base), k)
        if e[0] == "ref" and isinstance(e[1], tuple) and e[1][0] == "local" and len(e[1]) > 2:
            return slice_len(e[1][2])
        if _is_index(e):
            base, r = e[2]
            if isinstance(r, tuple) and r[0] == "agg":
                d = {k: norm_len(v) for k, v in r[3]}
                v = r[2]
                if v == "RangeTo":
                    return d["end"]
                if v == "RangeFrom":
                    return ("binop", "Sub", slice_len(base), d["start"])
                if v == "Range":
                    return ("binop", "Sub", d["end"], d["start"])
                if v == "RangeFull":
                    return slice_len(base)
        return ("pcall", LEN, (norm_len(e),))
    return ("pcall", LEN, (e,))


def norm_len(e):
    """rewrite len(<slicing expression>) inside e"""
    if not isinstance(e, tuple) or not e:
        return e
    if e[0] == "pcall" and e[1] == LEN and len(e[2]) == 1:
        x = mir.strip_casts(e[2][0])
        if _is_index(x) or (isinstance(x, tuple) and x and x[0] in ("unsize", "field", "ref")):
            r = slice_len(x)
            if r != ("pcall", LEN, (x,)) and r != e:
                return r
        return e
    if e[0] in ("binop",):
        return (e[0], e[1], norm_len(e[2]), norm_len(e[3]))
    if e[0] == "cast":
        return norm_len(mir.strip_casts(e))
    if e[0] == "pcall":
        return (e[0], e[1], tuple(norm_len(x) for x in e[2]))
    return e


def _cancel(e, Z):
    """a - (a - b) = b when b <= a is entailed"""
    if isinstance(e, tuple) and e and e[0] == "binop" and e[1] == "Sub":
        a, c = _cancel(e[2], Z), _cancel(e[3], Z)
        if isinstance(c, tuple) and c and c[0] == "binop" and c[1] == "Sub" and c[2] == a and Z.le(c[3], a, 0):
            return c[3]
        return ("binop", "Sub", a, c)
    return e


def eqlen1(ctx, prog, cfg, rule="EQLEN1", floor=3):
    n = 0
    for f in prog.fns.values():
        if not f.has_mir:
            continue
        G = None
        for b, t in f.calls(False):
            p = mir.callee_path(t)
            if p not in EQLEN_APIS:
                continue
            i, j = EQLEN_APIS[p]
            args = [f.deep_simplify(a) for a in f.call_args(b)]
            if max(i, j) >= len(args):
                continue
            n += 1
            ld, ls = slice_len(args[i]), slice_len(args[j])
            if G is None:
                G = guards.Guards(f)
            Z = G.closure(b, extra_terms=[x for x in (ld, ls) if isinstance(x, tuple)])
            ld2, ls2 = _cancel(ld, Z), _cancel(ls, Z)
            ok = ld2 == ls2
            if not ok:
                Z2 = G.closure(b, extra_terms=[ld2, ls2])
                ok = Z2.eq(ld2, ls2)
            api = p.split("::")[-1]
            ctx.check(ok, rule, f.short, "%s: len(dst) == len(src)" % api, short_loc(f, b),
                      "`%s` is called with a destination of length `%s` and a source of length `%s`, which nothing makes equal: "
                      "the std API (or, for the stable helper, the std API substituted for it by the `unstable` feature) panics on "
                      "slices of different lengths" % (api, mir.fmt(ld2, f)[:120], mir.fmt(ls2, f)[:120]),
                      "both lengths are `%s`" % mir.fmt(ld2, f)[:100], cfg)
    ctx.floor(rule, "equal-length API call sites", n, floor, cfg)
    return n
