"""EQLEN1: std APIs with an equal-length contract (`write_clone_of_slice`, `copy_from_slice`,
`clone_from_slice`, `swap_with_slice`) panic when destination and source differ in length. The
crate's stable helper `write_uninit_slice_cloned` is the hand-written stand-in for the first one
(C18's reviewed substitution), so its call sites carry the same obligation: whatever the stable
helper tolerates, the `unstable` arm at the same site does not.

Lengths are computed symbolically from the slicing expressions: `s[..k]` has length k, `s[k..]`
len(s) - k, `s[a..b]` b - a, `s[..]` len(s), an array `[_; N]` N. Equality is decided syntactically
after that normalisation, or by the guard facts at the site (Zone)."""
from . import guards, mir
from .report import short_loc

EQLEN_APIS = {
    "<[core::mem::maybe_uninit::MaybeUninit<T>]>::write_clone_of_slice": (0, 1),
    "<[core::mem::maybe_uninit::MaybeUninit<T>]>::write_copy_of_slice": (0, 1),
    "circular_buffer::CircularBuffer::extend_from_slice::write_uninit_slice_cloned": (0, 1),
    "<[T]>::copy_from_slice": (0, 1),
    "<[T]>::clone_from_slice": (0, 1),
    "<[T]>::swap_with_slice": (0, 1),
}

LEN = "<[T]>::len"


def _is_index(e):
    return isinstance(e, tuple) and e and e[0] == "call" and isinstance(e[1], str) and ("Index<I>>::index" in e[1] or "IndexMut<I>>::index_mut" in e[1]) and len(e[2]) == 2


def slice_len(e):
    """symbolic length of a slice-valued expression"""
    e = mir.strip_casts(e)
    if isinstance(e, tuple) and e:
        if e[0] == "unsize":
            c = e[2]
            return ("int", int(c)) if str(c).isdigit() else ("cparam", c)
        if e[0] == "field" and e[2] in ("0", "1") and isinstance(e[1], tuple) and e[1][:1] == ("call",) and e[1][1] in ("<[T]>::split_at", "<[T]>::split_at_mut") and len(e[1][2]) == 2:
            # split_at(s, k) = (s[..k], s[k..])
            base, k = e[1][2]
            k = norm_len(mir.strip_casts(k))
            return k if e[2] == "0" else ("binop", "Sub", slice_len(base), k)
        if e[0] == "ref" and isinstance(e[1], tuple) and e[1][0] == "local" and len(e[1]) > 2:
            return slice_len(e[1][2])
        if _is_index(e):
            base, r = e[2]
            if isinstance(r, tuple) and r[0] == "agg":
                d = {k: norm_len(v) for k, v in r[3]}
                v = r[2]
                if v == "RangeTo":
                    return d["end"]
                if v == "RangeFrom":
                    return ("binop", "Sub", slice_len(base), d["start"])
                if v == "Range":
                    return ("binop", "Sub", d["end"], d["start"])
                if v == "RangeFull":
                    return slice_len(base)
        return ("pcall", LEN, (norm_len(e),))
    return ("pcall", LEN, (e,))


def norm_len(e):
    """rewrite len(<slicing expression>) inside e"""
    if not isinstance(e, tuple) or not e:
        return e
    if e[0] == "pcall" and e[1] == LEN and len(e[2]) == 1:
        x = mir.strip_casts(e[2][0])
        if _is_index(x) or (isinstance(x, tuple) and x and x[0] in ("unsize", "field", "ref")):
            r = slice_len(x)
            if r != ("pcall", LEN, (x,)) and r != e:
                return r
        return e
    if e[0] in ("binop",):
        return (e[0], e[1], norm_len(e[2]), norm_len(e[3]))
    if e[0] == "cast":
        return norm_len(mir.strip_casts(e))
    if e[0] == "pcall":
        return (e[0], e[1], tuple(norm_len(x) for x in e[2]))
    return e


def _cancel(e, Z):
    """a - (a - b) = b when b <= a is entailed"""
    if isinstance(e, tuple) and e and e[0] == "binop" and e[1] == "Sub":
        a, c = _cancel(e[2], Z), _cancel(e[3], Z)
        if isinstance(c, tuple) and c and c[0] == "binop" and c[1] == "Sub" and c[2] == a and Z.le(c[3], a, 0):
            return c[3]
        return ("binop", "Sub", a, c)
    return e


def eqlen1(ctx, prog, cfg, rule="EQLEN1", floor=3):
    n = 0
    for f in prog.fns.values():
        if not f.has_mir:
            continue
        G = None
        for b, t in f.calls(False):
            p = mir.callee_path(t)
            if p not in EQLEN_APIS:
                continue
            i, j = EQLEN_APIS[p]
            args = [f.deep_simplify(a) for a in f.call_args(b)]
            if max(i, j) >= len(args):
                continue
            n += 1
            ld, ls = slice_len(args[i]), slice_len(args[j])
            if G is None:
                G = guards.Guards(f)
            Z = G.closure(b, extra_terms=[x for x in (ld, ls) if isinstance(x, tuple)])
            ld2, ls2 = _cancel(ld, Z), _cancel(ls, Z)
            ok = ld2 == ls2
            if not ok:
                Z2 = G.closure(b, extra_terms=[ld2, ls2])
                ok = Z2.eq(ld2, ls2)
            if not ok:
                # equal as linear forms (the payload of `a.checked_sub(b)` is a - b)
                ok = lin_key(lin(ld2)) == lin_key(lin(ls2))
            api = p.split("::")[-1]
            ctx.check(ok, rule, f.short, "%s: len(dst) == len(src)" % api, short_loc(f, b),
                      "`%s` is called with a destination of length `%s` and a source of length `%s`, which nothing makes equal: "
                      "the std API (or, for the stable helper, the std API substituted for it by the `unstable` feature) panics on "
                      "slices of different lengths" % (api, mir.fmt(ld2, f)[:120], mir.fmt(ls2, f)[:120]),
                      "both lengths are `%s`" % mir.fmt(ld2, f)[:100], cfg)
    ctx.floor(rule, "equal-length API call sites", n, floor, cfg)
    return n


# --------------------------------------------------------------------------------------------------
# piece algebra: which physical interval of the backing array a slice expression denotes
# --------------------------------------------------------------------------------------------------

_IDENTITY_CALLS = ("slice_assume_init_ref", "slice_assume_init_mut", "<[MaybeUninit<T>]>::assume_init_ref", "<[MaybeUninit<T>]>::assume_init_mut")


def lin(e, sign=1, acc=None):
    """linear normal form {term: coeff, 1: const} of a usize expression built from Add/Sub/ints (subtractions are
    taken at face value: their non-underflow is SUB1's business)"""
    if acc is None:
        acc = {}
    e = mir.strip_casts(e)
    cs_ = mir.checked_sub_payload(e)
    if cs_ is not None:
        lin(cs_[0], sign, acc)
        lin(cs_[1], -sign, acc)
        return acc
    if isinstance(e, tuple) and e and e[0] == "int":
        acc[1] = acc.get(1, 0) + sign * e[1]
    elif isinstance(e, tuple) and e and e[0] == "binop" and e[1] in ("Add", "Sub", "AddUnchecked", "SubUnchecked"):
        lin(e[2], sign, acc)
        lin(e[3], sign if e[1].startswith("Add") else -sign, acc)
    else:
        acc[e] = acc.get(e, 0) + sign
    return acc


def lin_key(a):
    return tuple(sorted(((repr(k), v) for k, v in a.items() if v != 0)))


def lin_add(a, b):
    out = dict(a)
    for k, v in b.items():
        out[k] = out.get(k, 0) + v
    return out


def piece(f, e, depth=0):
    """('items', base, lo, hi) with lo/hi linear forms, ('empty',) for a slice of a zero-length constant, or None"""
    e = mir.strip_casts(e)
    if not isinstance(e, tuple) or not e or depth > 12:
        return None
    if e[0] == "ref" and isinstance(e[1], tuple) and e[1][0] == "local" and len(e[1]) > 2:
        return piece(f, e[1][2], depth + 1)
    if e[0] == "call" and e[1] in _IDENTITY_CALLS and len(e[2]) == 1:
        return piece(f, e[2][0], depth + 1)
    if e[0] == "unsize":
        if str(e[2]) == "0":
            return ("empty",)
        inner = mir.strip_casts(e[1])
        if isinstance(inner, tuple) and inner[0] == "ref" and isinstance(inner[1], tuple) and inner[1][0] == "place" and tuple(inner[1][2]) == ("items",):
            n = ("int", int(e[2])) if str(e[2]).isdigit() else ("cparam", e[2])
            return ("items", inner[1][1], {}, lin(n))
        return None
    if e[0] == "ref" and isinstance(e[1], tuple) and e[1][0] == "place" and tuple(e[1][2]) == ("items",):
        cp = guards.buffer_cparam(f, e[1][1]) or "N"
        return ("items", e[1][1], {}, lin(("cparam", cp)))
    if e[0] == "const" or (e[0] == "ref" and isinstance(e[1], tuple) and e[1][:1] == ("const",)):
        return ("empty",)
    if _is_index(e):
        base, r = e[2]
        p = piece(f, base, depth + 1)
        if p is None or not (isinstance(r, tuple) and r[0] == "agg"):
            return None
        if p[0] == "empty":
            return p
        d = dict(r[3])
        v = r[2]
        _, b0, lo, hi = p
        if v == "RangeFull":
            return p
        if v == "RangeTo":
            return ("items", b0, lo, lin_add(lo, lin(d["end"])))
        if v == "RangeFrom":
            return ("items", b0, lin_add(lo, lin(d["start"])), hi)
        if v == "Range":
            return ("items", b0, lin_add(lo, lin(d["start"])), lin_add(lo, lin(d["end"])))
        return None
    if e[0] == "field" and e[2] in ("0", "1") and isinstance(e[1], tuple) and e[1][:1] == ("call",) and e[1][1] in ("<[T]>::split_at", "<[T]>::split_at_mut") and len(e[1][2]) == 2:
        p = piece(f, e[1][2][0], depth + 1)
        if p is None or p[0] == "empty":
            return p
        _, b0, lo, hi = p
        k = lin_add(lo, lin(e[1][2][1]))
        return ("items", b0, lo, k) if e[2] == "0" else ("items", b0, k, hi)
    return None


VIEW_FNS = ("CircularBuffer::as_slices", "CircularBuffer::as_mut_slices", "CircularBuffer::slices_uninit_mut", "CircularBuffer::drop_range",
            "Drain::as_slices", "Drain::as_mut_slices")


def _is_start(e):
    return isinstance(e, tuple) and e[0] == "load" and tuple(e[2]) == ("start",) and e[1] == ("param", 1)


def _is_end(e):
    """add_mod(self.start, self.size, N)"""
    return (isinstance(e, tuple) and e[:2] == ("call", "add_mod") and len(e[2]) == 3 and _is_start(mir.strip_casts(e[2][0]))
            and mir.is_load_of(mir.strip_casts(e[2][1]), "size") and mir.strip_casts(e[2][2])[:1] == ("cparam",))


def _is_sub(which):
    def pred(e):
        if not (isinstance(e, tuple) and e[:2] == ("call", "add_mod") and len(e[2]) == 3):
            return False
        a, b_, n = (mir.strip_casts(x) for x in e[2])
        return a == ("param", 2) and isinstance(b_, tuple) and b_[0] == "field" and b_[2] == which and b_[1] == ("param", 4) and n[:1] == ("cparam",)
    return pred


VIEW_ROLES = {
    "CircularBuffer::as_slices": (_is_start, _is_end, "the occupied region [start, add_mod(start, size, N))"),
    "CircularBuffer::as_mut_slices": (_is_start, _is_end, "the occupied region [start, add_mod(start, size, N))"),
    "CircularBuffer::slices_uninit_mut": (_is_end, _is_start, "the free region [add_mod(start, size, N), start)"),
    "CircularBuffer::drop_range": (_is_sub("start"), _is_sub("end"), "[add_mod(start, range.start, N), add_mod(start, range.end, N))"),
}


def _deciding_edges(f, b):
    """the branch edges (block, label) over which block b is reached, looking back through straight-line code (gotos and
    calls that build the answer)"""
    out, seen, st = [], set(), [b]
    preds = f.preds(False)
    while st:
        x = st.pop()
        for p in preds.get(x, []):
            for (s_, kind, label) in f.succ_edges(p):
                if s_ != x or kind != "normal":
                    continue
                k = f.term(p)["k"]
                if k == "switch" and f._switch_const(f.term(p), p) is not None:
                    k = "goto"  # a test of a flag that was just set to a constant decides nothing
                if k in ("goto", "call", "drop") and p not in seen and p != 0:
                    seen.add(p)
                    st.append(p)
                else:
                    out.append((p, label))
    return out


def view2(ctx, prog, cfg, rule="VIEW2", only=None):
    """The two-piece views denote one circular interval of the backing array, lo -> hi: where the function builds
    the contiguous form it is ([lo, hi), empty), where it builds the wrapped form it is ([lo, N), [0, hi)) with the
    same lo and hi — decided by evaluating the slicing expressions to physical intervals (items[a..b], split_at
    pieces, re-slicing), whatever they are spelled with; and what is returned are the two pieces in that order."""
    for short in VIEW_FNS:
        if only is not None and short not in only:
            continue
        f = prog.fn(short)
        if f is None or not f.has_mir:
            ctx.violate(rule, short, "anchor-missing", "?", "view function not found", cfg)
            continue
        tuples = []
        for b, i, st, is_term in f.positions(False):
            if is_term or st["k"] != "assign" or st["rv"]["k"] != "aggregate" or st["rv"].get("agg") != "tuple" or len(st["rv"].get("fields", [])) != 2:
                continue
            e = f.deep_simplify(f.rvalue_expr(st["rv"], b, i))
            ps = [piece(f, x[1]) for x in e[3]]
            if None in ps:
                continue
            tuples.append((b, i, ps))
        # the empty answer (empty, empty) is given only where the facts entail that the interval is empty: N == 0, or
        # its logical length is zero (size == 0 for the contents, size == N for the free slots, iter.start >= iter.end
        # for a drain's un-yielded part) — on every incoming path, each judged on its own facts
        for (eb, ei, eps) in [(b, i, ps) for b, i, ps in tuples if ps[0][0] == "empty" and ps[1][0] == "empty"]:
            from .props import c07 as _c07

            Nn = ("cparam", guards.buffer_cparam(f, ("param", 1)) or "N")
            if short.startswith("Drain::"):
                lo_t = ("load", ("param", 1), ("iter", "start"), ("entry", ("M", "iter")))
                hi_t = ("load", ("param", 1), ("iter", "end"), ("entry", ("M", "iter")))
                what = "N == 0 or iter.start >= iter.end (or buf_size == 0)"
            elif short == "CircularBuffer::slices_uninit_mut":
                lo_t, hi_t, what = ("load", ("param", 1), ("size",), ("entry", ("M", "size"))), Nn, "N == 0 or size == N"
            else:
                lo_t, hi_t, what = guards.ZERO, ("load", ("param", 1), ("size",), ("entry", ("M", "size"))), "N == 0 or size == 0"
            G_ = guards.Guards(f)
            edges = _deciding_edges(f, eb) or [(eb, None)]
            for (pb, label) in edges:
                atoms = set(G_.facts_at(pb)) | (set(G_.edge_atoms(pb, label)) if label is not None else set())
                Z = guards.Zone(f, atoms, [lo_t, hi_t, Nn])
                ok_e = Z.contradiction or Z.eq0(Nn) or Z.le(hi_t, lo_t, 0)
                ctx.check(ok_e, rule, short, "empty answer only for an empty interval", short_loc(f, pb),
                          "`%s` answers (empty, empty) over an edge that establishes neither %s: elements (or free slots) that exist are "
                          "not shown — a drain would neither keep nor destroy them" % (short, what), "edge facts entail " + what, cfg)
        contig = [(b, i, ps) for b, i, ps in tuples if ps[0][0] == "items" and ps[1][0] == "empty"]
        wrapped = [(b, i, ps) for b, i, ps in tuples if ps[0][0] == "items" and ps[1][0] == "items"]
        fmtl = lambda a: " + ".join(("%s" % v if k == 1 else ("%s*%s" % (v, mir.fmt(k, f)[:40]) if v != 1 else mir.fmt(k, f)[:40])) for k, v in a.items() if v != 0) or "0"
        if len(contig) != 1 or len(wrapped) != 1:
            ctx.violate(rule, short, "one contiguous and one wrapped form", f.loc,
                        "`%s` does not build exactly one contiguous form (piece, empty) and one wrapped form (piece, piece) of slices of the "
                        "backing array (%d / %d found): the rule cannot relate the two and fails closed" % (short, len(contig), len(wrapped)), cfg)
            continue
        (cb, ci, cps), (wb, wi, wps) = contig[0], wrapped[0]
        lo, hi = cps[0][2], cps[0][3]
        n_ = wps[0][3]
        ok = lin_key(wps[0][2]) == lin_key(lo) and lin_key(wps[1][2]) == lin_key({}) and lin_key(wps[1][3]) == lin_key(hi) and \
            len(n_) == 1 and all(isinstance(k, tuple) and k[0] in ("cparam", "int") for k in n_ if k != 1)
        ctx.check(ok, rule, short, "wrapped form = ([lo, N), [0, hi)) of the contiguous form's [lo, hi)", short_loc(f, wb, wi),
                  "`%s`: the contiguous form is items[%s .. %s] but the wrapped form is (items[%s .. %s], items[%s .. %s]): the two forms do not "
                  "denote the same circular interval — slots are skipped, shown twice or taken from outside it"
                  % (short, fmtl(lo), fmtl(hi), fmtl(wps[0][2]), fmtl(wps[0][3]), fmtl(wps[1][2]), fmtl(wps[1][3])),
                  "lo = %s, hi = %s" % (fmtl(lo), fmtl(hi)), cfg)
        # which interval: the occupied region / its complement / the requested sub-range
        role = VIEW_ROLES.get(short)
        if role is not None:
            def single(a):
                ks = [k for k, v in a.items() if v != 0]
                return ks[0] if len(ks) == 1 and a[ks[0]] == 1 and ks[0] != 1 else None
            tl, th = single(lo), single(hi)
            okl, okh = tl is not None and role[0](tl), th is not None and role[1](th)
            ctx.check(okl and okh, rule, short, "interval is %s" % role[2], short_loc(f, cb, ci),
                      "`%s` presents the interval items[%s .. %s), which is not %s" % (short, fmtl(lo), fmtl(hi), role[2]),
                      "lo = %s, hi = %s" % (fmtl(lo), fmtl(hi)), cfg)
        # what is returned: the joined pair, first piece first
        okr = True
        whyr = ""
        from . import common

        rets = [mir.strip_casts(f.deep_simplify(f.rvalue_expr(pl, rb_, ri_))) for (rb_, ri_, k_, pl) in common.ret_assignments(f) if k_ == "stmt"]
        if not rets:
            rets = [mir.strip_casts(f.deep_simplify(f.return_expr(rb))) for rb in f.return_blocks()]
        for e in rets:
            comps = []
            if isinstance(e, tuple) and e[0] == "agg" and e[1] == "tuple" and len(e[3]) == 2:
                for _, x in e[3]:
                    x = mir.strip_casts(x)
                    while isinstance(x, tuple) and x[0] == "call" and x[1] in _IDENTITY_CALLS:
                        x = mir.strip_casts(x[2][0])
                    comps.append(x)
            elif isinstance(e, tuple) and e[0] == "phi":
                continue  # the joined pair returned as it is
            elif isinstance(e, tuple) and e[0] in ("const",) or e == ("agg", "tuple", "", ()):
                continue  # returns nothing (drop_range hands the pieces to its droppers)
            else:
                okr, whyr = False, "returns `%s`" % mir.fmt(e, f)[:80]
                continue
            if all(piece(f, x) == ("empty",) for x in comps):
                continue
            ps_ = [piece(f, x) for x in comps]
            if None not in ps_ and len(ps_) == 2:
                def keyp(p_):
                    return ("empty",) if p_[0] == "empty" else (lin_key(p_[2]), lin_key(p_[3]))
                if [keyp(x) for x in ps_] in ([keyp(x) for x in cps], [keyp(x) for x in wps]):
                    continue  # one of the two forms returned directly
            if not (len(comps) == 2 and all(isinstance(x, tuple) and x[0] == "field" for x in comps) and comps[0][2] == "0" and comps[1][2] == "1" and comps[0][1] == comps[1][1]):
                okr, whyr = False, "returns (%s) — not the two pieces in order" % ", ".join(mir.fmt(x, f)[:50] for x in comps)
        ctx.check(okr, rule, short, "returns (first piece, second piece)", f.loc, "`%s` %s" % (short, whyr), "the joined pair, in order", cfg)
