"""TERM1: every loop of the crate has a decided progress argument.

The crate has few loops; each one is classified:
  iterator   the exit is the `None` of a std iterator's `next()` on a local iterator that nothing else in the
             loop touches (termination is the iterator's)
  size       the exit test is `self.size < B` with B loop-invariant, and every path through the body passes a
             call that, under the facts projected from the loop (size < B <= N), increases `size` by one on every
             feasible path of the callee and writes it nowhere else (push_back below capacity = inc_size)
  counter    the exit test compares a loop-carried local with a bound and every path through the body moves it
             towards the bound by an amount the facts entail to be >= 1
A `size` loop whose progress cannot be established is reported (everything it depends on is visible: guard,
INV, the callee's paths). A `counter` loop whose step is an opaque value is listed as undecided. A loop whose
exit operands are not modified anywhere in the body is reported outright.
"""
from . import guards, mir, panics, skeleton
from .report import short_loc


def natural_loop(f, latch, head):
    body = {head, latch}
    st = [latch]
    preds = f.preds(False)
    while st:
        x = st.pop()
        if x == head:
            continue
        for p in preds.get(x, []):
            if p not in body:
                body.add(p)
                st.append(p)
    return body


def _all_paths_pass(f, head, body, through):
    """every cycle head -> ... -> head inside `body` passes a block of `through`"""
    seen = set()
    st = [s for s in f.succs(head, False) if s in body]
    while st:
        x = st.pop()
        if x in seen or x in through:
            continue
        if x == head:
            return False
        seen.add(x)
        st.extend(s for s in f.succs(x, False) if s in body)
    return True


def _increments_size(prog, g, assumed):
    """under the assumed entry atoms every feasible path of g to a return performs exactly one `size + 1` store
    (directly or through inc_size) and no other store to size"""
    G = guards.Guards(g)
    feasible = set()
    for b in g.reachable(False):
        if not G.closure(b, extra_atoms=assumed).contradiction:
            feasible.add(b)
    incs, others = set(), []
    for b in feasible:
        t = g.term(b)
        for i, st in enumerate(g.blocks[b]["stmts"]):
            if st["k"] == "assign" and mir.place_has_deref(st["place"]) and mir.mem_var_of(st["place"]) == ("M", "size"):
                e = mir.strip_casts(g.deep_simplify(g.rvalue_expr(st["rv"], b, i)))
                if isinstance(e, tuple) and e[0] == "binop" and e[1] == "Add" and mir.strip_casts(e[3]) == ("int", 1) and mir.is_load_of(mir.strip_casts(e[2]), "size"):
                    incs.add(b)
                else:
                    others.append(b)
        if t["k"] == "call" and mir.is_local_callee(t):
            cs = mir.callee_short(t)
            h = prog.fns.get(cs)
            if h is None or not h.has_mir:
                continue
            from . import effects

            if "size" in {w for w in effects.get(prog).writes(cs) if isinstance(w, str)} or cs in ("CircularBuffer::inc_size", "CircularBuffer::dec_size"):
                pr = panics.project(g, b, h, assumed)
                if pr is not None and _increments_size(prog, h, pr):
                    incs.add(b)
                else:
                    others.append(b)
    if others or not incs:
        return False
    rets = [r for r in g.return_blocks() if r in feasible]
    if not rets:
        return False
    # every feasible entry->return path passes an incrementing block
    seen, st = set(), [0]
    while st:
        x = st.pop()
        if x in seen or x in incs or x not in feasible:
            continue
        if x in rets:
            return False
        seen.add(x)
        st.extend(g.succs(x, False))
    return True


def term1(ctx, prog, cfg, rule="TERM1", floor=3):
    n = 0
    undecided = []
    for f in prog.fns.values():
        if not f.has_mir:
            continue
        for (latch, head) in f.back_edges(False):
            n += 1
            body = natural_loop(f, latch, head)
            site = "loop at %s" % short_loc(f, head).split(":")[-1] if False else "loop"
            G = guards.Guards(f)
            # --- iterator-driven
            it_calls = [b for b in body if f.term(b)["k"] == "call" and (mir.callee_path(f.term(b)) or "").endswith("Iterator>::next")
                        or (b in body and f.term(b)["k"] == "call" and (mir.callee_path(f.term(b)) or "") == "core::iter::traits::iterator::Iterator::next")]
            exits = [(b, s) for b in body for s in f.succs(b, False) if s not in body]
            if it_calls and any(f.term(b)["k"] == "switch" for b, _ in exits):
                ctx.ok(rule, f.short, site, "exit is the None of `%s` on a local iterator" % (mir.callee_path(f.term(it_calls[0])) or "").split("<")[-1][:60], cfg)
                continue
            # --- tests that leave the loop
            tests = []
            for b, s in exits:
                pb = skeleton.positive_branches(f, b)
                if pb is not None:
                    tests.append((b, pb, s))
            decided = False
            why = "no recognisable exit test"
            for b, (pd, tb, fb_), out in tests:
                if not (isinstance(pd, tuple) and pd[0] == "binop" and pd[1] in ("Lt", "Le")):
                    continue
                stay = tb if out == fb_ else fb_
                lhs, rhs = mir.strip_casts(pd[2]), mir.strip_casts(pd[3])
                # which side is the loop-varying measure?
                if mir.is_load_of(lhs, "size") and out == fb_:
                    # while size < B: progress = size grows
                    calls = [c for c in body if f.term(c)["k"] == "call" and mir.is_local_callee(f.term(c))]
                    prog_blocks = set()
                    for c in calls:
                        g = prog.fns.get(mir.callee_short(f.term(c)))
                        if g is None or not g.has_mir:
                            continue
                        pr = panics.project(f, c, g, frozenset())
                        if pr is not None and _increments_size(prog, g, pr):
                            prog_blocks.add(c)
                    direct = [c for c in body for st in f.blocks[c]["stmts"] if st["k"] == "assign" and mir.place_has_deref(st["place"]) and mir.mem_var_of(st["place"]) == ("M", "size")]
                    ok = bool(prog_blocks) and not direct and _all_paths_pass(f, head, body, prog_blocks)
                    why = "`%s`: every iteration passes a call that increases size by one under the loop's facts" % mir.fmt(pd, f) if ok else \
                        "`%s`: no call on every path through the body is proved to increase `size` under the loop's facts (size below the bound)" % mir.fmt(pd, f)
                    ctx.check(ok, rule, f.short, site, short_loc(f, head),
                              "the loop `while %s` of `%s` is not proved to make progress: %s — it may never terminate" % (mir.fmt(pd, f), f.short, why), why, cfg)
                    decided = True
                    break
                # an exit test over loop-invariant operands can never change its mind
                varying = False
                for side in (lhs, rhs):
                    for s_ in mir.walk(side):
                        if not (isinstance(s_, tuple) and s_):
                            continue
                        if (s_[0] == "phi" and s_[1] in body) or (s_[0] == "call" and len(s_) == 4 and s_[3] in body):
                            varying = True
                        if s_[0] == "load" and isinstance(s_[3], tuple) and s_[3][0] in ("def", "phi") and s_[3][1] in body:
                            varying = True  # memory (re)defined inside the loop
                if not varying:
                    ctx.violate(rule, f.short, site, short_loc(f, head),
                                "the exit test `%s` of a loop in `%s` depends on nothing the loop body changes: once entered, the loop cannot "
                                "terminate" % (mir.fmt(pd, f), f.short), cfg)
                    decided = True
                    break
                # loop-carried local counter
                var = None
                for side in (lhs, rhs):
                    if isinstance(side, tuple) and side[0] == "phi" and side[1] == head:
                        var = side
                if var is not None:
                    loc = var[2]
                    steps = []
                    for c in body:
                        for i, st in enumerate(f.blocks[c]["stmts"]):
                            if st["k"] == "assign" and not st["place"]["proj"] and ("L", st["place"]["local"]) == loc:
                                e = mir.strip_casts(f.deep_simplify(f.rvalue_expr(st["rv"], c, i)))
                                steps.append((c, i, e))
                    if not steps:
                        ctx.violate(rule, f.short, site, short_loc(f, head),
                                    "the loop counter of `while %s` in `%s` is never assigned inside the loop: it cannot terminate once entered" % (mir.fmt(pd, f), f.short), cfg)
                        decided = True
                        break
                    okc = True
                    for (c, i, e) in steps:
                        good = False
                        if isinstance(e, tuple) and e[0] == "binop" and e[1] in ("Sub", "Add") and mir.strip_casts(e[2]) == var:
                            step = mir.strip_casts(e[3])
                            Z = G.closure(c, extra_terms=[step])
                            towards = (e[1] == "Sub") == (var == rhs and pd[1] in ("Lt", "Le"))
                            good = Z.le(guards.ZERO, step, -1) and towards
                        okc = okc and good
                    if okc and _all_paths_pass(f, head, body, {c for c, _, _ in steps}):
                        ctx.ok(rule, f.short, site, "`%s`: every iteration moves the counter towards the bound by a step the facts entail to be >= 1" % mir.fmt(pd, f), cfg)
                    else:
                        undecided.append("%s: while %s (step not entailed >= 1: value-level)" % (f.short, mir.fmt(pd, f)))
                    decided = True
                    break
            if not decided:
                undecided.append("%s: %s" % (f.short, why))
    ctx.floor(rule, "loops classified", n, floor, cfg, slack=1)
    ctx.extra.setdefault("term1", {})[cfg] = {"loops": n, "undecided": undecided}
