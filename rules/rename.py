"""Rename transparency for private items. The rule tables anchor on names (functions, guard types). A maintainer
who renames a private helper or a private struct changes no behaviour; without help every anchor on the old name
would fail closed. Before the program model is built, each function that the reviewed tables do not know is
compared with the known functions that are missing from this build: if exactly one missing function has the same
body fingerprint (external callees, operators, field names, block/local/argument counts — nothing that mentions
crate-local names) and its name differs from the new one in exactly one identifier, the new identifier is an alias
of the old one and is rewritten to it throughout the fact base. The fingerprints (rules/known_fns.py) are used
only to recognise such a rename — never to raise an alarm: a function that was renamed *and* changed is simply not
recognised and is handled as before (unknown helper: inlined; known anchor: missing)."""
import hashlib
import json
import re

TOKEN = re.compile(r"[A-Za-z_][A-Za-z_0-9]*|[^A-Za-z_\s]")


def fingerprint(rec):
    m = rec.get("mir")
    if not m:
        return None
    ext, ops, fields = [], [], []
    nsw = 0

    def walk(node):
        if isinstance(node, dict):
            if node.get("k") == "field" and "name" in node:
                fields.append(node["name"])
            if node.get("k") == "binop":
                ops.append(node.get("op"))
            for v in node.values():
                walk(v)
        elif isinstance(node, list):
            for v in node:
                walk(v)

    for b in m["blocks"]:
        t = b["term"]
        if t["k"] == "call":
            fn = (t.get("func") or {}).get("fn") or {}
            local = fn.get("rlocal", fn.get("local", False))
            if not local:
                ext.append(fn.get("rpath") or fn.get("path") or "indirect")
        if t["k"] == "switch":
            nsw += 1
        walk(b["stmts"])
        walk({k: v for k, v in t.items() if k != "func"})
    key = json.dumps([rec.get("kind"), m.get("arg_count"), len(m["blocks"]), len(m["locals"]), nsw, sorted(ext), sorted(ops), sorted(fields)])
    return hashlib.sha1(key.encode()).hexdigest()[:16]


def _single_token_diff(a, b):
    ta, tb = TOKEN.findall(a), TOKEN.findall(b)
    if len(ta) != len(tb):
        return None
    diff = {(x, y) for x, y in zip(ta, tb) if x != y}
    if len(diff) != 1:
        return None
    (x, y), = diff
    if not (re.match(r"[A-Za-z_]", x) and re.match(r"[A-Za-z_]", y)):
        return None
    return x, y


def detect(facts, known, fingerprints):
    """[(new_identifier, old_identifier)] for private renames recognised in this fact base"""
    cfg = facts.get("_config")
    fps = fingerprints.get(cfg) or {}
    present = {r["short"] for r in facts["fns"]}
    missing = {n: fp for n, fp in fps.items() if n not in present}
    if not missing:
        return []
    out = {}
    for r in facts["fns"]:
        if r.get("kind") not in ("Fn", "AssocFn") or r["short"] in known:
            continue
        if r.get("vis") == "pub" and not (r.get("impl") or {}).get("of_trait"):
            pass  # a public inherent method cannot have been renamed silently, but a trait method of a private type can
        fp = fingerprint(r)
        cands = []
        for m, mfp in missing.items():
            if mfp != fp:
                continue
            d = _single_token_diff(m, r["short"])
            if d is not None:
                cands.append((m, d))
        if len(cands) == 1:
            old, new = cands[0][1]
            if out.get(new, old) == old:
                out[new] = old
    return sorted(out.items())


def apply(facts, known, fingerprints):
    ren = detect(facts, known, fingerprints)
    if not ren:
        return facts, []
    keep = {k: facts[k] for k in ("_config", "_path") if k in facts}
    body = {k: v for k, v in facts.items() if k not in keep}
    txt = json.dumps(body)
    for new, old in ren:
        txt = re.sub(r"(?<=::)%s\b" % re.escape(new), old, txt)
        txt = txt.replace('"name": "%s"' % new, '"name": "%s"' % old)
        txt = re.sub(r'(?<=["<& (])%s(?=[<"])' % re.escape(new), old, txt)
    out = json.loads(txt)
    out.update(keep)
    return out, ren
