"""Reviewed, frozen tables (DESIGN.md §1.3 / WHO1). One line of reason per entry."""

# functions that contain, on a normal (non-unwinding) path, a site that runs destructors of the
# element type (or of a user-chosen closure/iterator/range value)
DESTROYS_T_NORMAL = {
    "<CircularBuffer::drop_range::Dropper<T> as Drop>::drop": "the panic guard of drop_range: drop_in_place of one occupied segment",
    "<<Drain<N, T> as Drop>::drop::Dropper<T> as Drop>::drop": "the panic guard of Drain::drop: drop_in_place of one un-yielded segment",
    "<CircularBuffer::extend_from_slice::write_uninit_slice_cloned::Guard<T> as Drop>::drop": "destroys the clones made so far when a later clone panics",
    "<CircularBuffer<N, T> as From<[T; M]>>::from": "destroys the array prefix that does not fit (PS2 governs the unwinding path)",
    "<Drain<N, T> as Drop>::drop": "drops its two Droppers explicitly with mem::drop (DRN1 governs the order)",
    "CircularBuffer::fill_spare": "drops the Option<T> returned by push_back (always None here) and `value` on the early return",
    "CircularBuffer::fill_spare_with": "drops the Option<T> returned by push_back and the closure",
    "<CircularBuffer<N, T> as FromIterator<T>>::from_iter::{closure#0}": "drops the element displaced by push_back (already out of the buffer)",
    "<CircularBuffer<N, T> as Extend<T>>::extend::{closure#0}": "drops the element displaced by push_back (already out of the buffer)",
    "translate_range_bounds": "drops the by-value range argument R (not an element)",
    "slice_take": "drops the by-value range argument R (not an element)",
    "slice_take_mut": "drops the by-value range argument R (not an element)",
}

# entries of the table above that must be found in every configuration in which the function
# exists (the others are arms that a cfg may compile differently, e.g. `slice_take` under
# `unstable` forwards its range argument instead of dropping it)
DESTROYS_T_REQUIRED = [
    "<CircularBuffer::drop_range::Dropper<T> as Drop>::drop",
    "<<Drain<N, T> as Drop>::drop::Dropper<T> as Drop>::drop",
    "<CircularBuffer::extend_from_slice::write_uninit_slice_cloned::Guard<T> as Drop>::drop",
    "<CircularBuffer<N, T> as From<[T; M]>>::from",
    "<Drain<N, T> as Drop>::drop",
]

# functions that disarm a destructor: (max number of sites, reason)
FORGET_SITES = {
    "CircularBuffer::extend_from_slice::write_uninit_slice_cloned": (1, "forgets the Guard after all clones succeeded (GUARD1)"),
    "<CircularBuffer<N, T> as From<[T; M]>>::from": (1, "ManuallyDrop around the source array whose elements are moved/destroyed by hand (FROMARR1, PS2)"),
}
