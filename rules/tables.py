"""Reviewed, frozen tables (DESIGN.md §1.3 / WHO1). One line of reason per entry."""

# functions that contain, on a normal (non-unwinding) path, a site that runs destructors of the
# element type (or of a user-chosen closure/iterator/range value)
DESTROYS_T_NORMAL = {
    "<CircularBuffer::drop_range::Dropper<T> as Drop>::drop": "the panic guard of drop_range: drop_in_place of one occupied segment",
    "<<Drain<N, T> as Drop>::drop::Dropper<T> as Drop>::drop": "the panic guard of Drain::drop: drop_in_place of one un-yielded segment",
    "<CircularBuffer::extend_from_slice::write_uninit_slice_cloned::Guard<T> as Drop>::drop": "destroys the clones made so far when a later clone panics",
    "<CircularBuffer<N, T> as From<[T; M]>>::from": "destroys the array prefix that does not fit (PS2 governs the unwinding path)",
    "<Drain<N, T> as Drop>::drop": "drops its two Droppers explicitly with mem::drop (DRN1 governs the order)",
    "CircularBuffer::fill_spare": "drops the Option<T> returned by push_back (always None here) and `value` on the early return",
    "CircularBuffer::fill_spare_with": "drops the Option<T> returned by push_back and the closure",
    "<CircularBuffer<N, T> as FromIterator<T>>::from_iter::{closure#0}": "drops the element displaced by push_back (already out of the buffer)",
    "<CircularBuffer<N, T> as Extend<T>>::extend::{closure#0}": "drops the element displaced by push_back (already out of the buffer)",
    "translate_range_bounds": "drops the by-value range argument R (not an element)",
    "slice_take": "drops the by-value range argument R (not an element)",
    "slice_take_mut": "drops the by-value range argument R (not an element)",
}

# entries of the table above that must be found in every configuration in which the function
# exists (the others are arms that a cfg may compile differently, e.g. `slice_take` under
# `unstable` forwards its range argument instead of dropping it)
DESTROYS_T_REQUIRED = [
    "<CircularBuffer::drop_range::Dropper<T> as Drop>::drop",
    "<<Drain<N, T> as Drop>::drop::Dropper<T> as Drop>::drop",
    "<CircularBuffer::extend_from_slice::write_uninit_slice_cloned::Guard<T> as Drop>::drop",
    "<CircularBuffer<N, T> as From<[T; M]>>::from",
    "<Drain<N, T> as Drop>::drop",
]

# which kind of destructor site each of them was reviewed for: "drop" = a local going out of scope (a value already
# moved out of the buffer, a by-value argument), "drop-call" = elements destroyed in place (drop_in_place, mem::drop of a
# guard, assume_init_drop). A function reviewed for the first kind only must not start destroying slots in place.
DESTROYS_T_KINDS = {
    "<CircularBuffer::drop_range::Dropper<T> as Drop>::drop": {"drop-call"},
    "<<Drain<N, T> as Drop>::drop::Dropper<T> as Drop>::drop": {"drop-call"},
    "<CircularBuffer::extend_from_slice::write_uninit_slice_cloned::Guard<T> as Drop>::drop": {"drop-call"},
    "<CircularBuffer<N, T> as From<[T; M]>>::from": {"drop-call"},
    "<Drain<N, T> as Drop>::drop": {"drop-call"},
}

# functions that disarm a destructor: (max number of sites, reason)
FORGET_SITES = {
    "CircularBuffer::extend_from_slice::write_uninit_slice_cloned": (1, "forgets the Guard after all clones succeeded (GUARD1)"),
    "<CircularBuffer<N, T> as From<[T; M]>>::from": (1, "ManuallyDrop around the source array whose elements are moved/destroyed by hand (FROMARR1, PS2)"),
}

# functions that bit-copy, swap or move elements out of storage: (max sites, reason)
BITCOPIES_T = {
    "CircularBuffer::make_contiguous": (1, "rotate_left of the whole array to make the contents contiguous (O2 under C20)"),
    "CircularBuffer::push_back": (1, "mem::replace of the front element when full: displaced element is returned (OWN1)"),
    "CircularBuffer::push_front": (1, "mem::replace of the back element when full: displaced element is returned (OWN1)"),
    "CircularBuffer::pop_back": (1, "assume_init_read of the back slot, followed by dec_size (OCC)"),
    "CircularBuffer::pop_front": (1, "assume_init_read of the front slot, followed by dec_size + inc_start (OCC)"),
    "CircularBuffer::remove": (5, "assume_init_read of the removed slot, then up to 4 ptr::copy to close the gap, then dec_size (OCC)"),
    "CircularBuffer::swap": (1, "swap_nonoverlapping of two occupied slots, count 1"),
    "<CircularBuffer<N, T> as From<[T; M]>>::from": (1, "copy_nonoverlapping of the array suffix into fresh storage (FROMARR1)"),
    "Drain::read": (1, "ptr::read of a slot in the drained range; called only from next/next_back (DRN1 f)"),
    "<Drain<N, T> as Drop>::drop": (1, "ptr::copy back-fill of the hole; cannot unwind (DRN1 d)"),
}

# functions containing `unsafe` code or declared `unsafe fn` (closures under their enclosing fn)
UNSAFE_FNS = {
    "<<Drain<N, T> as Drop>::drop::Dropper<T> as Drop>::drop": "drop_in_place of an un-yielded segment",
    "<CircularBuffer::drop_range::Dropper<T> as Drop>::drop": "drop_in_place of an occupied segment",
    "<CircularBuffer::extend_from_slice::write_uninit_slice_cloned::Guard<T> as Drop>::drop": "drop_in_place of dst[..initialized]",
    "<CircularBuffer<N, T> as From<[T; M]>>::from": "uninit array, bit-copy, prefix destruction",
    "<Drain<N, T> as DoubleEndedIterator>::next_back": "calls unsafe fn Drain::read (in the function or in its mapping closure)",
    "<Drain<N, T> as Iterator>::next": "calls unsafe fn Drain::read (in the function or in its mapping closure)",
    "<Drain<N, T> as Drop>::drop": "NonNull::as_mut, ptr::copy back-fill",
    "CircularBuffer::as_mut_slices": "slice_assume_init_mut on the occupied ranges (REINT1)",
    "CircularBuffer::as_slices": "slice_assume_init_ref on the occupied ranges (REINT1)",
    "CircularBuffer::back": "assume_init_ref under size > 0 (ACC2)",
    "CircularBuffer::back_mut": "assume_init_mut under size > 0 (ACC2)",
    "CircularBuffer::boxed": "raw header writes + Box::assume_init (CTOR1)",
    "CircularBuffer::drop_range": "unsafe fn: caller guarantees the range is occupied (PS1)",
    "CircularBuffer::front": "assume_init_ref under size > 0 (ACC2)",
    "CircularBuffer::front_mut": "assume_init_mut under size > 0 (ACC2)",
    "CircularBuffer::get": "assume_init_ref under index < size (ACC2)",
    "CircularBuffer::get_mut": "assume_init_mut under index < size (ACC2)",
    "CircularBuffer::make_contiguous": "slice_assume_init_mut on the occupied range (REINT1)",
    "CircularBuffer::new": "uninit array of MaybeUninit (stable arm)",
    "CircularBuffer::pop_back": "assume_init_read (OCC)",
    "CircularBuffer::pop_front": "assume_init_read (OCC)",
    "CircularBuffer::push_back": "assume_init_mut of the front slot when full (ACC2)",
    "CircularBuffer::push_front": "assume_init_mut of the back slot when full (ACC2)",
    "CircularBuffer::remove": "assume_init_read + ptr::copy (OCC)",
    "CircularBuffer::swap": "swap_nonoverlapping",
    "CircularBuffer::truncate_back": "calls unsafe fn drop_range (PS1)",
    "CircularBuffer::truncate_front": "calls unsafe fn drop_range (PS1)",
    "CircularSlicePtr::as_mut_ptr": "pointer offset inside the array",
    "CircularSlicePtr::as_ptr": "pointer offset inside the array",
    "Drain::as_mut_slices": "NonNull::as_mut + raw slice cast of the un-yielded range (REINT1)",
    "Drain::as_slices": "NonNull::as_ref + raw slice cast of the un-yielded range (REINT1)",
    "Drain::read": "unsafe fn: ptr::read of a drained slot",
    "slice_assume_init_mut": "unsafe fn: [MaybeUninit<T>] -> [T]",
    "slice_assume_init_ref": "unsafe fn: [MaybeUninit<T>] -> [T]",
}

# single-slot reinterpretation sites whose occupancy is a value-level contract
ACC2_EXEMPT = {
    "Drain::read": "unsafe fn; contract index < buf_size established by translate_range_bounds + Range::next (DRAINIT1)",
}

# who may write the header
HEADER_WRITERS = {
    "size": {
        "CircularBuffer::new": "constructs the empty buffer",
        "CircularBuffer::boxed": "raw header write on fresh heap memory (CTOR1)",
        "CircularBuffer::inc_size": "size + 1 under size < N (ACC1)",
        "CircularBuffer::dec_size": "size - 1 under size > 0 (ACC1)",
        "CircularBuffer::truncate_back": "len under len < size",
        "CircularBuffer::truncate_front": "len under len < size",
        "CircularBuffer::extend_from_slice": "size + min(free, _), final_size, N",
        "<CircularBuffer<N, T> as From<[T; M]>>::from": "min(N, M)",
        "Drain::over_range": "0 while the drain exists (DRN1 b)",
        "<Drain<N, T> as Drop>::drop": "buf_size - range.len() (DRN1 e)",
    },
    "start": {
        "CircularBuffer::new": "0",
        "CircularBuffer::boxed": "raw header write of 0",
        "CircularBuffer::inc_start": "add_mod(start, 1, N)",
        "CircularBuffer::dec_start": "sub_mod(start, 1, N)",
        "CircularBuffer::make_contiguous": "0 after rotating",
        "CircularBuffer::truncate_front": "add_mod(start, dropped, N)",
        "CircularBuffer::extend_from_slice": "0 when the whole buffer is overwritten",
        "<CircularBuffer<N, T> as From<[T; M]>>::from": "0",
    },
}

# stores whose bound needs arithmetic this family does not do: listed, not decided
INV1_ASSUMED = {
    "CircularBuffer::extend_from_slice": {
        "Add(size, len)": "size + other.len() stored under the branch condition other.len() < N - size",
    },
}
# (function -> (regex on the rendered value, reason))
INV1_SPECIAL = {
    "<Drain<N, T> as Drop>::drop": (r"^Sub\(\(\*self\)\.buf_size, ", "buf_size - range.len(): the drain's own arithmetic (DRN1 e; value-level)"),
}

FREE_VIEW_CALLERS = {
    "CircularBuffer::extend_from_slice": "clones the new elements into the free slots",
}

# slice-level reinterpretation [MaybeUninit<T>] -> [T]: (kind, reason)
SLICE_REINT = {
    "slice_assume_init_ref": ("body", "the helper itself"),
    "slice_assume_init_mut": ("body", "the helper itself"),
    "CircularBuffer::as_slices": ("guarded", "occupied ranges, behind N == 0 || size == 0"),
    "CircularBuffer::as_mut_slices": ("guarded", "occupied ranges, behind N == 0 || size == 0"),
    "CircularBuffer::make_contiguous": ("guarded", "occupied range after rotation, behind N == 0 || size == 0"),
    "<CircularBuffer::drop_range::Dropper<T> as Drop>::drop": ("callee", "segment handed over by drop_range (PS1; caller guards)"),
    "Drain::as_slices": ("guarded", "un-yielded range, behind N == 0 || buf_size == 0 || iter.is_empty()"),
    "Drain::as_mut_slices": ("guarded", "un-yielded range, behind N == 0 || buf_size == 0 || iter.is_empty()"),
    "<CircularBuffer::extend_from_slice::write_uninit_slice_cloned::Guard<T> as Drop>::drop": ("callee", "dst[..initialized]: clones made so far (GUARD1)"),
}

# helpers whose debug_assert! is weaker than the tabled precondition (table is the stronger side)
ACC1_BELIEF_WEAKER = {
    "CircularBuffer::get_maybe_uninit": "asserts size > 0 and index < N; the table demands index < size",
    "CircularBuffer::get_maybe_uninit_mut": "asserts size > 0 and index < N; the table demands index < size",
}

# functions that relocate an unbounded number of elements
BULK_MOVERS = {
    # function -> (number of bulk-move sites the linear bound was reviewed for, why it is within the bound)
    "CircularBuffer::remove": (3, "closes the gap left by the removed element (up to len - i elements): one copy when the tail is contiguous, "
                                  "copy + single element + copy when it wraps"),
    "<Drain<N, T> as Drop>::drop": (1, "back-fills the drained hole with the elements behind it (up to len - j elements), one chunked copy loop"),
    "CircularBuffer::make_contiguous": (1, "rotates the array when the contents wrap"),
    "<CircularBuffer<N, T> as From<[T; M]>>::from": (1, "constructor: copies min(N, M) elements out of the source array"),
}


# debug assertions (visible with -Cdebug-assertions=on) that the guard-fact analysis cannot prove
# unreachable from the public entries because they state value-level facts: (function, kind) -> max
# number of sites. Any other debug assertion must be discharged (C11 thorough tier, DBGASSERT1).
DEBUG_ASSERT_UNDECIDED = {
    ("<CircularBuffer<N, T> as PartialEq<CircularBuffer<M, U>>>::eq", "assert_eq"): (1, "segment lengths agree in the Equal arm (alignment arithmetic)"),
    ("<CircularBuffer<N, T> as PartialEq<[U]>>::eq", "assert_eq"): (2, "split_at(a_left.len()) halves have the lengths of a_left / a_right"),
    ("CircularBuffer::extend_from_slice", "assert"): (1, "left.len() >= other.len(): free-space arithmetic"),
    ("CircularBuffer::extend_from_slice", "assert_eq"): (1, "items.len() == other.len() after other[len - N..]"),
    ("CircularBuffer::extend_from_slice::write_uninit_slice_cloned", "assert_eq"): (1, "dst.len() == src.len(): callers slice both to write_len"),
    ("CircularBuffer::to_vec", "assert_eq"): (1, "vec.len() == size after extend(iter().cloned())"),
    ("Iter::advance_back_by", "assert"): (1, "take_right <= right.len(): range arithmetic"),
    ("Iter::advance_front_by", "assert"): (1, "take_left <= left.len(): range arithmetic"),
    ("IterMut::advance_back_by", "assert"): (1, "take_right <= right.len(): range arithmetic"),
    ("IterMut::advance_front_by", "assert"): (1, "take_left <= left.len(): range arithmetic"),
}
