"""Normalised skeletons of function bodies for sibling / configuration comparison.

`exact(f)`   canonical rendering of the whole reachable CFG: blocks renumbered in DFS order from
             the entry, locals renumbered by first appearance, callees by crate-qualified resolved
             path, source locations dropped. Two builds of the same source give equal strings.
`events(f)`  the function as (ordered significant calls with argument provenance, stores, returned
             value provenance), rendered without block numbers and modulo a renaming ρ.
"""
import json
import re

from . import mir


# --------------------------------------------------------------------------------------------------
# exact skeleton
# --------------------------------------------------------------------------------------------------


def exact(f):
    key = "skel_exact"
    if key in f._cache:
        return f._cache[key]
    order = []
    seen = set()

    def dfs(b):
        stack = [b]
        while stack:
            x = stack.pop()
            if x in seen:
                continue
            seen.add(x)
            order.append(x)
            succ = [s for s, _, _ in f.succ_edges(x)]
            for s in reversed(succ):
                if s not in seen:
                    stack.append(s)

    if f.blocks:
        dfs(0)
    bmap = {b: i for i, b in enumerate(order)}
    lmap = {}

    def L(n):
        if n not in lmap:
            lmap[n] = len(lmap)
        return "_%d:%s" % (lmap[n], f.locals[n]["ty"])

    def place(p):
        s = L(p["local"])
        for q in p["proj"]:
            k = q["k"]
            if k == "deref":
                s = "(*%s)" % s
            elif k == "field":
                s += "." + q["name"]
            elif k == "index":
                s += "[%s]" % L(q["local"])
            elif k == "downcast":
                s += " as %s" % (q.get("variant") or q.get("i"))
            else:
                s += "{%s}" % json.dumps({a: b for a, b in q.items() if a != "k"}, sort_keys=True)
        return s

    def op(o):
        k = o["k"]
        if k in ("copy", "move"):
            return "%s %s" % (k, place(o["place"]))
        if k == "const":
            if "fn" in o:
                fn = o["fn"]
                return "fn %s<%s>" % (fn.get("rpath") or fn["path"], ",".join(fn.get("rargs") or fn.get("args") or []))
            if "param" in o:
                return "const " + o["param"]
            if "int" in o:
                return "const %s_%s" % (o["int"], o["ty"])
            if "uneval" in o:
                return "const {%s%s}:%s" % (o["uneval"], " promoted" if o.get("promoted") else "", o.get("ty", ""))
            return "const %s:%s" % (re.sub(r"alloc\d+", "alloc", o.get("disp", "?")), o.get("ty", ""))
        return "op?"

    def rv(r):
        k = r["k"]
        if k == "use":
            return op(r["op"])
        if k in ("ref", "rawptr"):
            return "%s%s %s" % ("&" if k == "ref" else "&raw ", "mut" if r.get("mut") else "", place(r["place"]))
        if k == "binop":
            return "%s(%s, %s)" % (r["op"], op(r["a"]), op(r["b"]))
        if k == "unop":
            return "%s(%s)" % (r["op"], op(r["a"]))
        if k == "cast":
            return "%s as %s [%s]" % (op(r["op"]), r["ty"], r["kind"].split("(")[0])
        if k == "discriminant":
            return "discr(%s)" % place(r["place"])
        if k == "aggregate":
            head = r.get("adt") or r.get("closure") or r["agg"]
            return "%s::%s{%s}" % (head, r.get("variant", ""), ", ".join("%s: %s" % (x["name"], op(x["op"])) for x in r["fields"]))
        if k == "repeat":
            return "[%s; %s]" % (op(r["op"]), r["count"])
        return "rv?" + r.get("dbg", "")

    lines = []
    for b in order:
        blk = f.blocks[b]
        lines.append("bb%d%s:" % (bmap[b], " (cleanup)" if blk["cleanup"] else ""))
        for st in blk["stmts"]:
            k = st["k"]
            if k == "assign":
                lines.append("  %s = %s" % (place(st["place"]), rv(st["rv"])))
            elif k == "setdiscr":
                lines.append("  discr(%s) = %s" % (place(st["place"]), st["vi"]))
            elif k == "copy_nonoverlapping":
                lines.append("  copy_nonoverlapping(%s, %s, %s)" % (op(st["src"]), op(st["dst"]), op(st["count"])))
            elif k == "assume":
                lines.append("  assume(%s)" % op(st["op"]))
        t = blk["term"]
        k = t["k"]
        tg = lambda x: ("bb%d" % bmap[x]) if isinstance(x, int) and x in bmap else str(x)
        if k == "goto":
            lines.append("  goto %s" % tg(t["target"]))
        elif k == "switch":
            edges = f.succ_edges(b)
            lines.append("  switch %s -> %s" % (op(t["discr"]), ", ".join("%s: %s" % (lab, tg(s)) for s, _, lab in edges)))
        elif k == "call":
            lines.append("  %s = call %s(%s) -> %s unwind %s" % (place(t["dest"]), op(t["func"]), ", ".join(op(a) for a in t["args"]), tg(t.get("target")), tg(t.get("unwind"))))
        elif k == "drop":
            lines.append("  drop %s -> %s unwind %s" % (place(t["place"]), tg(t["target"]), tg(t.get("unwind"))))
        elif k == "assert":
            lines.append("  assert %s == %s [%s] -> %s unwind %s" % (op(t["cond"]), t["expected"], t["msg"], tg(t["target"]), tg(t.get("unwind"))))
        elif k == "yield":
            lines.append("  yield -> %s" % tg(t["target"]))
        else:
            lines.append("  " + k)
    s = "\n".join(lines)
    f._cache[key] = s
    return s


# --------------------------------------------------------------------------------------------------
# event skeleton
# --------------------------------------------------------------------------------------------------

AWAIT_SCAFFOLD = {
    "core::future::into_future::IntoFuture::into_future", "core::pin::Pin::new_unchecked", "core::future::get_context",
    "core::future::future::Future::poll", "<F as core::future::into_future::IntoFuture>::into_future",
}
NOISE = {
    "core::ops::try_trait::Try::branch", "core::ops::try_trait::FromResidual::from_residual",
    "<core::result::Result<T, E> as core::ops::try_trait::Try>::branch", "<core::option::Option<T> as core::ops::try_trait::Try>::branch",
    "<core::result::Result<T, F> as core::ops::try_trait::FromResidual<core::result::Result<core::convert::Infallible, E>>>::from_residual",
    "<core::option::Option<T> as core::ops::try_trait::FromResidual<core::option::Option<core::convert::Infallible>>>::from_residual",
}


def canon(e, rename, depth=0, rewrite=None, pname=None):
    """render an expression without block numbers / versions, applying the renaming; `rewrite`
    may replace a sub-expression (return None to keep it), `pname` names parameters"""
    if not isinstance(e, tuple) or not e:
        return str(e)
    if depth > 40:
        return "…"
    if rewrite is not None:
        r = rewrite(e, depth)
        if r is not None:
            if isinstance(r, str):
                return r
            e = r
    k = e[0]
    c = lambda x: canon(x, rename, depth + 1, rewrite, pname)
    if k == "param":
        if pname is not None:
            return pname(e[1])
        return "arg%d" % e[1]
    if k == "int":
        return str(e[1])
    if k == "cparam":
        return e[1]
    if k == "load":
        path = ".".join(p if isinstance(p, str) else "[%s]" % (c(p[1]) if p[0] == "idx" else p[0]) for p in e[2])
        return "(*%s).%s" % (c(e[1]), path)
    if k == "binop":
        a, b = c(e[2]), c(e[3])
        op = e[1]
        if op in ("Add", "Mul", "BitAnd", "BitOr", "BitXor", "Eq", "Ne", "AddUnchecked", "MulUnchecked") and b < a:
            a, b = b, a  # commutative: operand order is not part of the skeleton
        if op in ("Gt", "Ge"):
            # `a > b` is `b < a`: the orientation of a comparison is not part of the skeleton
            op, a, b = {"Gt": "Lt", "Ge": "Le"}[op], b, a
        return "%s(%s, %s)" % (op, a, b)
    if k == "unop":
        return "%s(%s)" % (e[1], c(e[2]))
    if k == "pcall" and e[1] == "<[T]>::is_empty" and len(e[2]) == 1:
        return c(("binop", "Eq", ("pcall", "<[T]>::len", e[2]), ("int", 0)))
    if k in ("call", "pcall"):
        name = e[1] if isinstance(e[1], str) else "indirect"
        name = rename(name)
        if name in ("@skip",):
            return c(e[2][0]) if e[2] else "?"
        args = [c(a) for a in e[2]]
        if k == "pcall" and name.split("::")[-1] in ("min", "max"):
            args = sorted(args)  # symmetric
            if name in ("core::cmp::min", "core::cmp::Ord::min", "<usize>::min", "core::cmp::max", "core::cmp::Ord::max", "<usize>::max"):
                name = "usize::" + name.split("::")[-1]  # one function, three spellings
        return "%s(%s)" % (name, ", ".join(args))
    if k == "cast" or k == "unsize":
        return c(e[2] if k == "cast" else e[1])
    if k == "field":
        return "%s.%s" % (c(e[1]), e[2])
    if k == "ref":
        return "&" + c(e[1])
    if k == "place":
        return "%s->%s" % (c(e[1]), ".".join(str(p) if isinstance(p, str) else "[%s]" % (c(p[1]) if p[0] == "idx" else str(p[0])) for p in e[2]))
    if k == "local":
        if len(e) > 2 and isinstance(e[2], tuple) and e[2] and e[2][0] not in ("uninit", "phi", "upd", "cyc", "undef"):
            return "{%s}" % c(e[2])
        return "local"
    if k == "agg":
        return "%s::%s{%s}" % (rename(e[1]).split("::")[-1], rename(e[2]) if e[2] else e[2], ", ".join("%s: %s" % (n, c(x)) for n, x in e[3]))
    if k == "phi":
        return "phi"
    if k == "discr":
        return "discr(%s)" % c(e[1])
    if k == "as":
        return "%s as %s" % (c(e[1]), e[2])
    if k == "const":
        return "const"
    if k == "fn":
        return "fn " + rename(e[1])
    if k == "upd":
        return "upd(%s.%s := %s)" % (c(e[1]), ".".join(e[2]), c(e[3]))
    if k == "index":
        return "%s[%s]" % (c(e[1]), c(e[2]))
    return k


_NEG = {"Lt": "Ge", "Le": "Gt", "Gt": "Le", "Ge": "Lt", "Eq": "Ne", "Ne": "Eq"}
_FLIP = {"Lt": "Gt", "Le": "Ge", "Gt": "Lt", "Ge": "Le", "Eq": "Eq", "Ne": "Ne"}
_ID = lambda s: s


def _positive_form(d, rename=_ID):
    """(d', swapped): a boolean discriminant in canonical positive form and whether reaching it exchanged the two
    branches: `!x` becomes x; the operands of a comparison are put in the textual order of their canonical
    rendering; then `a != b`, `a >= b`, `a > b` become `a == b`, `a < b`, `a <= b`. So `a > b`, `b < a`,
    `!(a <= b)` and `!(b >= a)` all have one form and one branch order."""
    swapped = False
    while True:
        d = mir.strip_casts(d)
        if isinstance(d, tuple) and d and d[0] == "pcall" and d[1] == "<[T]>::is_empty" and len(d[2]) == 1:
            d = ("binop", "Eq", ("pcall", "<[T]>::len", d[2]), ("int", 0))  # `s.is_empty()` is `s.len() == 0`
            continue
        if isinstance(d, tuple) and d and d[0] == "unop" and d[1] == "Not":
            d, swapped = d[2], not swapped
            continue
        if isinstance(d, tuple) and d and d[0] == "binop" and d[1] in _NEG:
            op, a, b = d[1], d[2], d[3]
            if canon(b, rename, 1) < canon(a, rename, 1):
                op, a, b = _FLIP[op], b, a
            if op in ("Ge", "Gt", "Ne"):
                op, swapped = _NEG[op], not swapped
            return ("binop", op, a, b), swapped
        return d, swapped


def positive_branches(f, x, rename=_ID):
    """(positive-form discriminant, block taken when it holds, block taken when it does not) of a two-way boolean
    switch, or None"""
    t = f.term(x)
    if t["k"] != "switch" or f._switch_const(t, x) is not None or len(t["targets"]) != 1:
        return None
    n = len(f.blocks[x]["stmts"])
    d = f.deep_simplify(f.operand_expr(t["discr"], x, n))
    d0 = mir.strip_casts(d)
    if not (isinstance(d0, tuple) and (d0[0] in ("binop", "unop") or d0[:2] == ("pcall", "<[T]>::is_empty"))):
        return None
    v = int(t["targets"][0][0])
    false_b, true_b = (t["targets"][0][1], t["otherwise"]) if v == 0 else (t["otherwise"], t["targets"][0][1])
    pd, swapped = _positive_form(d, rename)
    if swapped:
        true_b, false_b = false_b, true_b
    return pd, true_b, false_b


def canonical_order(f, rename=_ID):
    """blocks of the normal CFG in reverse postorder, where the two successors of a boolean test are visited
    in the order (canonical positive condition holds, does not hold) whatever the spelling of the test, and code
    after a join comes after both branches. Returns (order, {block: positive-form discriminant})."""
    key = ("canonical_order", id(rename))
    if key in f._cache:
        return f._cache[key]
    forms = {}

    def succ(x):
        pb = positive_branches(f, x, rename)
        if pb is not None:
            forms[x] = pb[0]
            if pb[1] != pb[2]:
                return [pb[1], pb[2]]
        return [y for y, kind, _ in f.succ_edges(x) if kind == "normal"]

    post, seen = [], set()
    if f.blocks:
        stack = [(0, iter(reversed(succ(0))))]
        seen.add(0)
        while stack:
            x, it = stack[-1]
            adv = False
            for y in it:
                if y not in seen:
                    seen.add(y)
                    stack.append((y, iter(reversed(succ(y)))))
                    adv = True
                    break
            if not adv:
                post.append(x)
                stack.pop()
    order = list(reversed(post))
    f._cache[key] = (order, forms)
    return f._cache[key]


def events(f, rename=lambda s: s, significant=None, rewrite=None, pname=None, guards=False):
    """ordered list of (kind, text): significant calls in DFS order of the normal CFG, stores to
    memory, and the returned value(s)"""
    out = []
    order, forms = canonical_order(f, rename)
    for b in order:
        blk = f.blocks[b]
        for i, st in enumerate(blk["stmts"]):
            if st["k"] == "assign" and st["place"]["local"] == 0 and not mir.place_has_deref(st["place"]):
                # the returned value, at the place where it is produced (a merged `phi` at the
                # return terminator would hide which value each path returns)
                sub = ".".join(mir.place_fields(st["place"]))
                out.append(("return", ("%s := " % sub if sub else "") + canon(f.deep_simplify(f.rvalue_expr(st["rv"], b, i)), rename, 1, rewrite, pname)))
                continue
            if st["k"] == "assign" and mir.place_has_deref(st["place"]):
                tgt = ".".join(mir.place_fields(st["place"])) or "*"
                out.append(("store", "%s := %s" % (tgt, canon(f.deep_simplify(f.rvalue_expr(st["rv"], b, i)), rename, 1, rewrite, pname))))
        t = blk["term"]
        if t["k"] == "call":
            path = mir.callee_path(t) or "indirect"
            short = mir.callee_short(t) or path
            if t["dest"]["local"] == 0 and not t["dest"]["proj"] and path not in NOISE:
                out.append(("return", canon(f.deep_simplify(f.call_expr(b)), rename, 1, rewrite, pname)))
                returned = True
            else:
                returned = False
            if path in AWAIT_SCAFFOLD or path in NOISE or any(path.startswith(p) for p in ("core::fmt::", "core::panicking::")):
                continue
            name = rename(short if mir.is_local_callee(t) else path)
            if name == "@skip":
                continue
            from . import effects as _eff0

            if path in _eff0.PURE_BY_VALUE and not returned:
                continue  # a pure function of its argument values (len, min, checked_sub, ...): rendered where it is used
            if mir.is_local_callee(t) and short in f.prog.fns:
                from . import effects as _eff

                g = f.prog.fns[short]
                if g.has_mir and _eff._pure_single_path(g)[0] and not any(tt["k"] == "call" for tt in (g.term(bb) for bb in g.reachable(False))):
                    # a pure getter (len, capacity, is_empty, is_full): no event of its own, its
                    # value is rendered where it is used
                    continue
            if significant is not None and not significant(name, t):
                continue
            args = [canon(f.deep_simplify(a), rename, 1, rewrite, pname) for a in f.call_args(b)]
            if returned:
                # keep the order call -> return
                r = out.pop()
                out.append(("call", "%s(%s)" % (name, ", ".join(args))))
                out.append(r)
            else:
                out.append(("call", "%s(%s)" % (name, ", ".join(args))))
        elif t["k"] == "switch" and guards and f._switch_const(t, b) is None:
            n = len(blk["stmts"])
            d = forms.get(b)
            if d is None:
                d = f.deep_simplify(f.operand_expr(t["discr"], b, n))
            out.append(("guard", canon(d, rename, 1, rewrite, pname)))
        elif t["k"] == "return":
            pass  # return values are recorded where `_0` is assigned
        elif t["k"] == "yield":
            out.append(("yield", ""))
    return out


def call_names(f, rename=lambda s: s):
    """ordered significant callee names only (shallow signature)"""
    return [(k, t.split("(")[0] if k == "call" else "") for k, t in events(f, rename) if k in ("call", "yield")]
