"""C07 — all views of the contents agree; mutable views alias exactly those elements.

  DERIV1 every view is derived from one of two primitives: `as_slices` (slice-level) and the
         `*_maybe_uninit` helpers (positional): nth_front/nth_back/Index forward to get(_mut) with
         pass-through arguments; iter/range -> Iter::new -> as_slices; iter_mut/range_mut ->
         IterMut::new -> as_mut_slices; to_vec/Debug/Hash/PartialOrd/Ord/&IntoIterator -> iter
  NONE1  get/get_mut/front/front_mut/back/back_mut return None only over an edge that establishes
         N == 0, size == 0 or index >= size, and Some only under index < size / size > 0
  TWIN   the 11 &/&mut accessor pairs perform the same steps on the same operands      [twin]
Not decided: that the two primitives agree with each other; make_contiguous's result; the
out-of-range behaviour of nth_back beyond its checked_sub chain; range's element selection.
"""
from .. import common, guards, mir, shapes
from ..report import short_loc

QUICK = ["default"]
THOROUGH = ["default", "nostd", "alloc", "unstable", "eio_both", "eio_both_nostd", "eio", "eioa"]

EXPLANATION = (
    "Decides that every view of the contents is derived from one of two primitives with pass-through arguments "
    "(DERIV1), that the positional accessors answer None exactly outside the sequence (NONE1, as edge facts), and that "
    "each mutable view performs the same steps on the same operands as its shared counterpart (11 TWIN comparisons of "
    "calls-with-argument-provenance, guards and returned value). Pairwise distinctness of mutable references follows "
    "from the borrow checker outside unsafe and from the closed table of unsafe producers (WHO1 under C03). Does NOT "
    "decide that as_slices and the positional helpers agree with each other, nor make_contiguous's result (values)."
)

CB = "CircularBuffer::"
TWINS = [
    (CB + "get", CB + "get_mut"), (CB + "front", CB + "front_mut"), (CB + "back", CB + "back_mut"),
    (CB + "nth_front", CB + "nth_front_mut"), (CB + "nth_back", CB + "nth_back_mut"),
    (CB + "front_maybe_uninit", CB + "front_maybe_uninit_mut"), (CB + "back_maybe_uninit", CB + "back_maybe_uninit_mut"),
    (CB + "get_maybe_uninit", CB + "get_maybe_uninit_mut"),
    ("<CircularBuffer<N, T> as Index<usize>>::index", "<CircularBuffer<N, T> as IndexMut<usize>>::index_mut"),
]

R = lambda s: s  # noqa


def run(ctx, progs):
    ctx.explanation = EXPLANATION
    ctx.rule("DERIV1", "forwarders have the reviewed shape with pass-through arguments")
    ctx.rule("ESI1", "iteration views: next = first piece then second, next_back = second then first; len/size_hint count both")
    ctx.rule("CLONE1", "Iter::clone copies right<-right, left<-left")
    ctx.rule("DEFAULT1", "default iterators are empty")
    ctx.rule("VIEW2", "the two-piece views: contiguous form ([lo,hi), empty), wrapped form ([lo,N), [0,hi)) of the same lo/hi; the interval is the occupied region; returned in order")
    ctx.rule("NONE1", "None only over edges establishing N==0 / size==0 / index>=size; Some only under index<size / size>0")
    ctx.rule("TWIN", "&/&mut accessor pairs: equal event skeletons modulo mutability [twin]")
    ctx.rule("KIND1", "index-kind inference: physical positions and logical indices/lengths are never compared, and never stand in for each other")
    ctx.rule("ITERAGG1", "every Iter/IterMut is built from (first, second) of one view or (right, left) of one iterator")
    if "default" in progs and "unstable" in progs:
        # the positional views under the `unstable` feature: everything above is decided on each configuration's own MIR; that the nightly arms of the helpers
        # are the reviewed substitution of a std API for the hand-written code (same operands, same end of the slice) is C18's
        # DELEG1, evaluated here too because the statement quantifies over configurations
        from . import c18 as _c18

        ctx.rule("DELEG1", "each unstable arm is the reviewed substitution with pass-through operands")
        _c18.deleg1(ctx, progs["default"], progs["unstable"], "default|unstable", _c18.cfgdiff2(ctx, progs["default"], progs["unstable"], "default|unstable") if False else ())

    for cfg, prog in progs.items():
        from . import c08 as _c08i

        _c08i.iteragg1(ctx, prog, cfg)
        deriv1(ctx, prog, cfg)
        none1(ctx, prog, cfg)
        shapes.viewcmp1(ctx, prog, cfg)
        # the two-piece views, each decided on its own (this replaces the sibling comparison of the as_slices pairs):
        # both forms denote the same circular interval, it is the occupied region, the pieces are returned in order
        from .. import lenrule

        lenrule.view2(ctx, prog, cfg)
        from .. import kinds

        kinds.run(ctx, prog, cfg)
        from . import c08

        c08.iterset1(ctx, prog, cfg, "DERIV1", types=("Iter", "IterMut"))
        for a, b in TWINS:
            # calls with argument provenance and returned values; the guards of the accessors are
            # decided semantically by NONE1/ACC1/MOD1, so that an equivalent re-spelling of a guard
            # in one twin is not reported
            shapes.twin(ctx, "TWIN", prog, a, b, cfg, guards=False)
        # range()/range_mut() are views too: the shared and the mutable range view select the same elements iff
        # Iter and IterMut trim their two slices by the same algorithm (selection arithmetic itself: not decided)
        for a, b in c08.PAIRS:
            shapes.twin(ctx, "TWIN", prog, a, b, cfg, what="the shared and the mutable form of one view")
        # iter()/iter_mut() present the same sequence as get(): front consumption takes from the first piece and only then
        # from the second, back consumption the other way round, whatever has been consumed before (C08's ESI1)
        c08.esi1(ctx, prog, cfg)


def deriv1(ctx, prog, cfg):
    mm = shapes.must_match
    msg = "`%s` no longer simply forwards to `%s` with its own arguments: the view it presents can differ from the primitive's"
    for name, tgt in ((CB + "nth_front", "get"), (CB + "nth_front_mut", "get_mut")):
        mm(ctx, "DERIV1", prog, name, [r"call CircularBuffer::%s\(self, index\)" % tgt, r"return CircularBuffer::%s\(self, index\)" % tgt], cfg,
           "forwards to %s(self, index)" % tgt, msg % (name, tgt))
    for name, tgt in ((CB + "nth_back", "get"), (CB + "nth_back_mut", "get_mut")):
        nth_back_rule(ctx, prog, name, tgt, cfg)
    for name, tgt in (("<CircularBuffer<N, T> as Index<usize>>::index", "get"), ("<CircularBuffer<N, T> as IndexMut<usize>>::index_mut", "get_mut")):
        mm(ctx, "DERIV1", prog, name, [r"call CircularBuffer::%s\(self, index\)" % tgt, r"call core::option::Option::expect\(CircularBuffer::%s\(self, index\), const\)" % tgt,
                                       r"return Option::expect\(CircularBuffer::%s\(self, index\), const\)" % tgt], cfg,
           "%s(self, index).expect(..)" % tgt, msg % (name, tgt))
    for name, tgt, args in ((CB + "iter", "Iter::new", "self"), (CB + "iter_mut", "IterMut::new", "self"),
                            (CB + "range", "Iter::over_range", "self, range"), (CB + "range_mut", "IterMut::over_range", "self, range"),
                            ("<&CircularBuffer<N, T> as IntoIterator>::into_iter", "Iter::new", "self"),
                            (CB + "drain", "Drain::over_range", "self, range")):
        forwards(ctx, prog, cfg, name, tgt, len(args.split(",")), msg % (name, tgt),
                 also=(CB + "iter",) if name.startswith("<&CircularBuffer") else ())
    for name, prim in (("Iter::new", "as_slices"), ("IterMut::new", "as_mut_slices")):
        ty = name.split("::")[0]
        mm(ctx, "DERIV1", prog, name, [r"call CircularBuffer::%s\(buf\)" % prim,
                                       r"return %s::%s\{right: CircularBuffer::%s\(buf\)\.0, left: CircularBuffer::%s\(buf\)\.1\}" % (ty, ty, prim, prim)], cfg,
           "right, left = %s(buf)" % prim,
           "`%s` does not take (right, left) = buf.%s() in that order: iteration order no longer follows as_slices" % (name, prim))
    for name in ("Iter::over_range", "IterMut::over_range"):
        ty = name.split("::")[0]
        shapes.contains(ctx, "DERIV1", prog, name,
                        [r"call translate_range_bounds\(buf, range\)", r"call %s::new\(buf\)" % ty,
                         r"call %s::advance_front_by\(&\{%s::new\(buf\)\}, translate_range_bounds\(buf, range\)\.0\)" % (ty, ty),
                         r"call %s::advance_back_by\(&(local|\{.*\}), Sub\(\(\*buf\)\.size, translate_range_bounds\(buf, range\)\.1\)\)" % ty], cfg,
                        "new(buf) advanced by start from the front and len - end from the back",
                        "`%s` does not select the sub-range by advancing a full iterator by `start` from the front and `len - end` from the back" % name)
    if prog.fn(CB + "to_vec") is not None:
        shapes.contains(ctx, "DERIV1", prog, CB + "to_vec", [r"call CircularBuffer::iter\(self\)", r"call .*Iterator::cloned\(CircularBuffer::iter\(self\)\)",
                                                              r"call <alloc::vec::Vec<T, A> as .*Extend<T>>::extend\(&\{Vec::with_capacity\(\(\*self\)\.size\)\}, Iterator::cloned\(CircularBuffer::iter\(self\)\)\)"], cfg,
                        "vec.extend(self.iter().cloned())", "`to_vec` does not obtain the elements through self.iter().cloned()")
    from . import c13

    c13.dbg1(ctx, prog, cfg, "DERIV1")
    c13.ord1(ctx, prog, cfg, "DERIV1")


def forwards(ctx, prog, cfg, name, tgt, nargs, msg, also=()):
    """`name` returns, unchanged, the result of its one call of `tgt` (or of a sibling in `also`, itself decided to forward
    to `tgt`) on its own parameters in order; it calls nothing else"""
    f = ctx.need_fn(prog, name, "DERIV1")
    if f is None:
        return
    calls = [(b, t_) for b, t_ in f.calls(False)]
    ok = len(calls) == 1 and mir.callee_short(calls[0][1]) in (tgt,) + tuple(also)
    why = "calls %s" % [mir.callee_short(t_) for _, t_ in calls]
    if ok:
        b = calls[0][0]
        a = [mir.strip_casts(f.deep_simplify(x)) for x in f.call_args(b)]
        ok = a == [("param", i + 1) for i in range(len(a))] and (len(a) == nargs or mir.callee_short(calls[0][1]) in also)
        why = "%s(%s)" % (mir.callee_short(calls[0][1]), ", ".join(mir.fmt(x, f) for x in a))
        if ok:
            r = [mir.strip_casts(f.deep_simplify(f.return_expr(rb))) for rb in f.return_blocks()]
            ok = len(r) == 1 and isinstance(r[0], tuple) and r[0][0] == "call" and r[0][3] == b
            if not ok:
                why += ", but its result is not what is returned"
    ctx.check(ok, "DERIV1", name, "forwards to %s with its own arguments" % tgt, f.loc, msg + " (%s)" % why, why, cfg)


def _none_edges(f, b):
    """edges (pred, label) entering block b, looking through goto blocks (each incoming path is judged on its own facts)"""
    out = []
    preds = f.preds(False)
    seen = set()
    st = [b]
    while st:
        x = st.pop()
        for p in preds.get(x, []):
            for (s, kind, label) in f.succ_edges(p):
                if s != x or kind != "normal":
                    continue
                t = f.term(p)
                # a goto block is looked through whatever it assigns: facts are stated over SSA versions (locals and memory
                # alike), so what holds on an edge further up still holds — per incoming path — when the answer is built
                if t["k"] == "goto" and p not in seen and p != 0:
                    seen.add(p)
                    st.append(p)
                else:
                    out.append((p, label))
    return out


def none1(ctx, prog, cfg):
    n = 0
    for short, idx_param in ((CB + "get", 2), (CB + "get_mut", 2), (CB + "front", None), (CB + "front_mut", None), (CB + "back", None), (CB + "back_mut", None),
                             (CB + "pop_back", None), (CB + "pop_front", None), (CB + "remove", 2)):
        f = ctx.need_fn(prog, short, "NONE1")
        if f is None:
            continue
        G = guards.Guards(f)
        size0 = common.entry_size(f)
        Nn = common.N(guards.buffer_cparam(f, ("param", 1)) or "N")
        idx = ("param", idx_param) if idx_param else None
        seen = set()
        for (b, i, k, payload) in common.ret_assignments(f):
            if k == "call":
                # the answer is another call's result: `?` giving up (None), or a sibling accessor forwarded to
                p_ = mir.callee_path(payload) or ""
                if "FromResidual" in p_ and "Option" in p_:
                    n += 1
                    seen.add("None")
                    Z = G.closure(b, extra_terms=[size0, Nn] + ([idx] if idx else []))
                    ok = Z.eq0(Nn) or Z.eq0(size0) or (idx is not None and Z.le(size0, idx, 0))
                    ctx.check(ok, "NONE1", short, "None only outside the sequence", short_loc(f, b),
                              "`%s` gives up with None (`?`) where the facts establish neither N == 0, size == 0 nor index >= size: an "
                              "existing element is reported as absent" % short, "`?` returns None only when %s" % ("size == 0" if Z.eq0(size0) else "outside"), cfg)
                elif mir.callee_short(payload) in (CB + "get", CB + "get_mut") and short not in (CB + "get", CB + "get_mut"):
                    a_ = [mir.strip_casts(f.deep_simplify(x)) for x in f.call_args(b)]
                    n += 1
                    if idx is not None:
                        ok, why_ = a_ == [("param", 1), idx], "forwards its own index to %s" % mir.callee_short(payload)
                        seen.update(("Some", "None"))
                    else:
                        # front/back-like: reached only inside the sequence, with an index that is inside it
                        Z = G.closure(b, extra_terms=[size0, Nn, a_[1]])
                        want = ("binop", "Sub", size0, ("int", 1)) if short.split("::")[-1].startswith("back") else ("int", 0)
                        Zw = G.closure(b, extra_terms=[size0, Nn, a_[1], want])
                        ok = a_[0] == ("param", 1) and Z.gt0(size0) and Z.lt(a_[1], size0) and Zw.eq(a_[1], want)
                        why_ = "forwards to %s(self, %s) under size > 0" % (mir.callee_short(payload).split("::")[-1], "size - 1" if want[0] == "binop" else "0")
                        seen.add("Some")
                    ctx.check(ok, "NONE1", short, "forwarded answer is inside the sequence", short_loc(f, b),
                              "`%s` forwards to `%s` with an index (`%s`) that the facts do not place at the intended element inside the "
                              "sequence" % (short, mir.callee_short(payload), mir.fmt(a_[1], f) if len(a_) > 1 else "?"), why_, cfg)
                continue
            if k != "stmt":
                continue
            v = common.variant_of_rv(payload)
            if v is None:
                continue
            variant = v[0]
            seen.add(variant)
            if variant == "Some":
                n += 1
                Z = G.closure(b, extra_terms=[size0, Nn] + ([idx] if idx else []))
                ok = Z.gt0(Nn) and (Z.lt(idx, size0) if idx else Z.gt0(size0))
                ctx.check(ok, "NONE1", short, "Some only inside the sequence", short_loc(f, b, i),
                          "`%s` can answer Some(..) without the facts %s: a position outside the sequence is presented as an element"
                          % (short, "N > 0 and index < size" if idx else "N > 0 and size > 0"),
                          "facts at bb%d entail %s" % (b, "N > 0, index < size" if idx else "N > 0, size > 0"), cfg)
            elif variant == "None":
                for (p, label) in _none_edges(f, b):
                    n += 1
                    atoms = G.edge_atoms(p, label)
                    Z = guards.Zone(f, set(G.facts_at(p)) | set(atoms), [size0, Nn] + ([idx] if idx else []))
                    ok = Z.eq0(Nn) or Z.eq0(size0) or (idx is not None and Z.le(size0, idx, 0))
                    ctx.check(ok, "NONE1", short, "None edge bb%d" % p if False else "None only outside the sequence", short_loc(f, p),
                              "`%s` answers None over an edge that establishes neither N == 0, size == 0 nor index >= size: an "
                              "existing element is reported as absent" % short,
                              "edge bb%d->None establishes %s" % (p, "N == 0" if Z.eq0(Nn) else ("size == 0" if Z.eq0(size0) else "index >= size")), cfg)
        ctx.check({"Some", "None"} <= seen, "NONE1", short, "both outcomes present", f.loc, "return sites %s" % sorted(seen), "Some and None return sites", cfg, nontrivial=False)
    ctx.floor("NONE1", "return edges examined", n, 20, cfg)


def nth_back_rule(ctx, prog, name, tgt, cfg):
    """nth_back(index) = get(size - index - 1), computed without underflow: either the checked_sub
    chain, or the plain subtraction under the fact index < size"""
    f = ctx.need_fn(prog, name, "DERIV1")
    if f is None:
        return
    cs = f.calls_to(CB + tgt, unwind=False)
    ok = len(cs) == 1
    why = "%d calls of %s" % (len(cs), tgt)
    if ok:
        b = cs[0][0]
        a = [mir.strip_casts(f.deep_simplify(x)) for x in f.call_args(b)]
        size = common.cur_size(f, b, len(f.blocks[b]["stmts"]))
        idx = ("param", 2)
        k = a[1]
        txt = mir.fmt(k, f)
        def chk(e):
            # payload of checked_sub(checked_sub(size, index), 1) through the `?` plumbing
            s = [x for x in mir.walk(e) if isinstance(x, tuple) and x and x[0] == "pcall" and x[1] == "<usize>::checked_sub"]
            if len(s) >= 2:
                outer = s[0]
                inner = [x for x in s[1:] if mir.strip_casts(x[2][0]) == size and mir.strip_casts(x[2][1]) == idx]
                return bool(inner) and mir.strip_casts(outer[2][1]) == ("int", 1)
            return False
        plain = (isinstance(k, tuple) and k[0] == "binop" and k[1] == "Sub" and mir.strip_casts(k[3]) == ("int", 1)
                 and isinstance(mir.strip_casts(k[2]), tuple) and mir.strip_casts(k[2])[:2] == ("binop", "Sub")
                 and mir.strip_casts(mir.strip_casts(k[2])[2]) == size and mir.strip_casts(mir.strip_casts(k[2])[3]) == idx)
        if chk(k):
            ok, why = a[0] == ("param", 1), "get(self, size.checked_sub(index)?.checked_sub(1)?)"
        elif plain:
            Z = guards.Guards(f).closure(b, extra_terms=[idx, size])
            ok = a[0] == ("param", 1) and Z.lt(idx, size)
            why = "get(self, size - index - 1) under index < size" if ok else "`size - index - 1` without the fact index < size (underflows)"
        else:
            # any other spelling: the argument is size - index - 1 as a linear form (the payload of a.checked_sub(b) is a - b),
            # and the facts at the call place the index inside the sequence (so nothing in it underflowed unchecked)
            from .. import lenrule as _lr

            want = {size: 1, idx: -1, 1: -1}
            Z = guards.Guards(f).closure(b, extra_terms=[idx, size])
            if _lr.lin_key(_lr.lin(k)) == _lr.lin_key(want) and a[0] == ("param", 1) and Z.lt(idx, size):
                ok, why = True, "get(self, <size - index - 1>) under index < size"
            else:
                ok, why = False, "argument `%s` is not size - index - 1" % txt
    ctx.check(ok, "DERIV1", name, "forwards to %s(self, size - index - 1) without underflow" % tgt, f.loc,
              "`%s` does not forward to `%s` with `size - index - 1` computed without underflow: %s" % (name, tgt, why), why, cfg)
