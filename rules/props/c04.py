"""C04 — unoccupied storage is never observed.

  ACC1   every call of a slot helper discharges the helper's precondition (size>0 / index<size / ...)
  ACC2   every single-slot reinterpretation (assume_init_ref/mut/read) takes an ACC1 helper's
         result, or items[add_mod(start, i, N)] under the fact i < size
  INV1   the header (`size`, `start`) is written only by the reviewed functions and only with
         the reviewed value shapes (so size <= N and start < N are preserved)
  MOD1   no modulus by / element index into capacity zero
  FREE1  the free-slot view (slices_uninit_mut) flows only into initialising callees
  CTOR1  constructors set the header to the empty state and never read the storage
  REINT1 slice-level reinterpretation MaybeUninit<T> -> T happens only in the reviewed functions,
         each behind its own emptiness guard
Not decided: the bounds arithmetic of the slice views; two-run non-interference.
"""
import re

from .. import common, effects, guards, mir, shared, tables
from ..report import short_loc

QUICK = ["default"]
THOROUGH = ["default", "nostd", "alloc", "unstable", "eio_both", "eio_both_nostd", "eio", "eioa", "default_dbg"]

EXPLANATION = (
    "Decides the structural necessary conditions of 'unoccupied storage is never observed': single slots are "
    "reinterpreted as T only through helpers whose occupancy precondition every caller discharges (ACC1/ACC2), the "
    "header is written only by reviewed functions with value shapes that preserve size <= N and start < N (INV1), "
    "capacity zero never reaches a modulus or element index (MOD1), the free-slot view is write-only (FREE1), "
    "constructors do not depend on the storage bytes (CTOR1), and slice-level reinterpretation happens only in the "
    "reviewed functions behind their emptiness guards (REINT1). Does NOT validate the bounds arithmetic inside the "
    "slice-view functions nor two-run non-interference over garbage/history (values)."
)

ASSUME_INIT = {
    "core::mem::maybe_uninit::MaybeUninit::assume_init_ref": "ref",
    "core::mem::maybe_uninit::MaybeUninit::assume_init_mut": "mut",
    "core::mem::maybe_uninit::MaybeUninit::assume_init_read": "read",
    "core::mem::maybe_uninit::MaybeUninit::assume_init_drop": "drop",
    "core::mem::maybe_uninit::MaybeUninit::assume_init": "move",
}
HELPERS = set(shared.ACC1_TABLE) - {"CircularBuffer::inc_size", "CircularBuffer::dec_size", "CircularBuffer::inc_start", "CircularBuffer::dec_start"}

SLICE_REINT_CALLS = {
    "slice_assume_init_ref", "slice_assume_init_mut",
}
SLICE_REINT_PATHS = {
    "<[core::mem::maybe_uninit::MaybeUninit<T>]>::assume_init_ref",
    "<[core::mem::maybe_uninit::MaybeUninit<T>]>::assume_init_mut",
    "<[core::mem::maybe_uninit::MaybeUninit<T>]>::assume_init_drop",
}


def run(ctx, progs):
    ctx.explanation = EXPLANATION
    ctx.rule("ACC1", "helper preconditions (table, cross-checked against the helpers' debug_assert!s) discharged at every call")
    ctx.rule("ACC2", "assume_init_* operands: ACC1 helper result, or items[add_mod(start,i,N)] with i<size")
    ctx.rule("ACC2b", "a physical slot position add_mod(start, i, N) used to index/offset/swap storage needs i < size (outside the view functions)")
    ctx.rule("INV1", "stores to size/start: reviewed writers and value shapes")
    ctx.rule("WHOLE1", "the backing array is filled as a whole only where the facts establish start == 0")
    ctx.rule("MOD1", "REQUIRES(N>0) never reaches a public entry")
    ctx.rule("FREE1", "slices_uninit_mut results flow only into initialising callees")
    ctx.rule("CTOR1", "constructors: header = empty, storage never read")
    ctx.rule("VIEW2", "the views cover exactly the occupied region (slices_uninit_mut: exactly the free region), in both forms")
    ctx.rule("REINT1", "slice-level reinterpretation only in reviewed functions, behind an emptiness guard")
    ctx.assumptions.append("INV1 leaves one store undecided: extend_from_slice `size + other.len()` under other.len() < N - size (needs arithmetic)")
    ctx.rule("NONE1", "accessors answer None exactly outside the sequence (edge facts)")
    ctx.rule("DERIV1", "every derived view forwards to one of the two primitives with pass-through arguments")
    ctx.rule("OBS1", "observers never read start/items/capacity")
    ctx.rule("ORD1", "std lexicographic comparison of iter()s")
    ctx.rule("HASH1", "len once + one element hash per iter() item")
    ctx.rule("DBG1", "debug_list().entries(<all elements in order>).finish()")
    ctx.rule("PS1", "size/start are shrunk before drop_range runs destructors and not written afterwards")
    ctx.rule("KIND1", "index-kind inference: physical positions and logical indices/lengths are never compared, and never stand in for each other")
    ctx.rule("ITERAGG1", "every Iter/IterMut is built from (first, second) of one view or (right, left) of one iterator")
    ctx.rule("TWIN", "the shared and the mutable form of each range/iterator helper are one algorithm (what range() shows does not depend on which form — or layout — produced it)")
    for cfg, prog in progs.items():
        from . import c08 as _c08i
        from .. import shapes as _shapes

        _c08i.iteragg1(ctx, prog, cfg)
        for a_, b_ in _c08i.PAIRS:
            _shapes.twin(ctx, "TWIN", prog, a_, b_, cfg, what="the shared and the mutable form of one view")
        if cfg == "default_dbg":
            acc1_beliefs(ctx, prog, cfg)
            continue
        eng = shared.run_acc1(prog)
        shared.report_requires(ctx, eng, "ACC1", cfg)
        ctx.floor("ACC1", "helper call sites", eng.sites, 20, cfg)
        acc2(ctx, prog, cfg)
        acc2b(ctx, prog, cfg)
        from .. import kinds

        kinds.run(ctx, prog, cfg)
        inv1(ctx, prog, cfg)
        m = shared.run_mod1(prog)
        shared.report_requires(ctx, m, "MOD1", cfg)
        free1(ctx, prog, cfg)
        ctor1(ctx, prog, cfg)
        reint1(ctx, prog, cfg)
        from .. import drainrules

        drainrules.drnview1(ctx, prog, cfg, "REINT1")
        drainrules.backfill2(ctx, prog, cfg, "REINT1")
        from .. import geom

        geom.remove2(ctx, prog, cfg, "REINT1")
        # while a Drain exists (it may be leaked) the header must not claim the slots it moves elements out of
        drainrules.drn1_abcf(ctx, prog, cfg, "REINT1")
        # which slots the views reinterpret as initialised: exactly the occupied region (and the free view its complement)
        from .. import lenrule

        lenrule.view2(ctx, prog, cfg)
        # the header describes occupied slots also when a destructor panics: it is shrunk before drop_range
        # runs and not touched afterwards (PS1 / PS1b of C05; here: no destroyed slot stays inside the header)
        from . import c05

        c05.ps1(ctx, prog, cfg)
        # "equal logical contents are indistinguishable": the observers read the contents only through
        # len/as_slices/iter and feed them to std's order/hash/list algorithms element by element (C13's rules)
        from . import c13

        c13.obs1(ctx, prog, cfg)
        c13.ord_hash_dbg(ctx, prog, cfg)
        # ... and the positional accessors answer from the logical position only (C07's NONE1 / DERIV1)
        from . import c07

        c07.none1(ctx, prog, cfg)
        c07.deriv1(ctx, prog, cfg)


# ------------------------------------------------------------------------------------------------
def acc2(ctx, prog, cfg):
    n = 0
    for f in prog.fns.values():
        G = None
        for b, t in f.calls(False):
            p = mir.callee_path(t)
            if p not in ASSUME_INIT:
                continue
            fn = mir.callee_of(t)
            a0 = (fn.get("rargs") or fn.get("args") or [""])[0]
            if a0.startswith("[") or "CircularBuffer" in a0:
                continue  # constructing the uninitialised array / boxed header: CTOR1
            n += 1
            e = mir.strip_casts(f.call_args(b)[0])
            site = "%s operand" % p.split("::")[-1]
            if isinstance(e, tuple) and e[0] == "call" and e[1] in HELPERS:
                ctx.ok("ACC2", f.short, site, "operand is the result of %s (ACC1 discharges its precondition)" % e[1], cfg)
                continue
            ok, why = _indexed_slot(f, b, e)
            if not ok and f.short in tables.ACC2_EXEMPT:
                ctx.ok("ACC2", f.short, site, "named exception: " + tables.ACC2_EXEMPT[f.short], cfg)
                continue
            ctx.check(ok, "ACC2", f.short, site, short_loc(f, b),
                      "a slot is reinterpreted as an initialised `T` (%s) without evidence that it is occupied: %s"
                      % (p.split("::")[-1], why), why, cfg)
    ctx.floor("ACC2", "single-slot reinterpretation sites", n, 12, cfg)


def _indexed_slot(f, b, e):
    """e == &items[add_mod(start, i, N)] with i < size entailed at b"""
    if not (isinstance(e, tuple) and e[0] == "ref" and isinstance(e[1], tuple) and e[1][0] == "place"):
        return False, "operand `%s` is neither an ACC1 helper result nor an indexed slot" % mir.fmt(e, f)
    _, base, path = e[1]
    if not (len(path) == 2 and path[0] == "items" and isinstance(path[1], tuple) and path[1][0] == "idx"):
        return False, "operand `%s` is not items[..]" % mir.fmt(e, f)
    idx = mir.strip_casts(path[1][1])
    if not (isinstance(idx, tuple) and idx[0] == "call" and idx[1] == "add_mod" and len(idx[2]) == 3):
        return False, "slot index `%s` is not add_mod(start, i, N)" % mir.fmt(idx, f)
    s, i, m = idx[2]
    if mir.is_load_of(s, "start") is None or mir.strip_casts(m)[0] != "cparam":
        return False, "slot index `%s` is not add_mod(start, i, N)" % mir.fmt(idx, f)
    n = len(f.blocks[b]["stmts"])
    size = ("load", mir.is_load_of(s, "start"), ("size",), f.version_at(b, n, ("M", "size")))
    Z = guards.Guards(f).closure(b, extra_terms=[i, size])
    if Z.lt(i, size):
        return True, "items[add_mod(start, %s, N)] with %s < size entailed" % (mir.fmt(i, f), mir.fmt(i, f))
    return False, "index `%s` is not known to be below `size` at this point" % mir.fmt(i, f)


# ------------------------------------------------------------------------------------------------
def _defs_of_local(f, n):
    out = []
    for b, i, st, is_term in f.positions(False):
        if not is_term and st["k"] == "assign" and st["place"]["local"] == n and not st["place"]["proj"]:
            out.append((b, i, st["rv"]))
    return out


def _shape_size(f, b, i, e, base, depth=0):
    """(ok, why) for a value stored to `size` at (b, i)"""
    e = mir.strip_casts(f.deep_simplify(e))
    cur = ("load", base, ("size",), f.version_at(b, i, ("M", "size")))
    cp = guards.buffer_cparam(f, base) or "N"
    declared = [a for (a, _, _) in shared.ACC1_TABLE.get(f.short, [])]
    Z = guards.Guards(f).closure(b, extra_terms=[e, cur, ("cparam", cp)], extra_atoms=declared)
    if e == ("int", 0):
        return True, "const 0"
    if e == ("cparam", cp):
        return True, "const %s" % cp
    if isinstance(e, tuple) and e[0] == "binop" and e[1] == "Add" and mir.strip_casts(e[2]) == cur:
        inc = mir.strip_casts(e[3])
        if inc == ("int", 1):
            if Z.lt(cur, ("cparam", cp)):
                return True, "size + 1 under size < %s" % cp
            return False, "`size + 1` without the fact size < %s" % cp
        # size + min(len(free view), _): the F4 repair shape
        if isinstance(inc, tuple) and inc[0] == "pcall" and inc[1] in ("core::cmp::min", "core::cmp::Ord::min"):
            for a in inc[2]:
                a = mir.strip_casts(a)
                if isinstance(a, tuple) and a[0] == "pcall" and a[1] == "<[T]>::len":
                    if any(isinstance(s, tuple) and s and s[0] == "call" and s[1] == "CircularBuffer::slices_uninit_mut" for s in mir.walk(a)):
                        return True, "size + min(len(free view), _): bounded by the free space"
            return False, "`size + min(..)` not bounded by the free-slot view"
        if f.short in tables.INV1_ASSUMED and "Add(size, len)" in tables.INV1_ASSUMED[f.short]:
            return True, "ASSUMED (not decided): " + tables.INV1_ASSUMED[f.short]["Add(size, len)"]
        return False, "`size + %s` is not a reviewed shape" % mir.fmt(inc, f)
    if isinstance(e, tuple) and e[0] == "binop" and e[1] == "Sub" and mir.strip_casts(e[2]) == cur:
        dec = mir.strip_casts(e[3])
        if dec == ("int", 1) and Z.gt0(cur):
            return True, "size - 1 under size > 0"
        if Z.le(dec, cur, 0):
            return True, "size - x under x <= size"
        return False, "`size - %s` without the fact that it does not underflow" % mir.fmt(dec, f)
    if Z.le(e, cur, 0):
        return True, "value `%s` entailed <= size" % mir.fmt(e, f)
    if isinstance(e, tuple) and e[0] == "phi" and e[2][0] == "L" and depth < 3:
        res = []
        for (db, di, rv) in _defs_of_local(f, e[2][1]):
            res.append(_shape_size(f, db, di, f.rvalue_expr(rv, db, di), base, depth + 1))
        if res and all(r[0] for r in res):
            return True, "join of: " + " | ".join(r[1] for r in res)
        return False, "join with an unreviewed input: " + " | ".join(r[1] for r in res if not r[0])
    if f.short in tables.INV1_SPECIAL:
        pat, why = tables.INV1_SPECIAL[f.short]
        if re.search(pat, mir.fmt(e, f)):
            return True, why
    return False, "value `%s` is not a reviewed shape" % mir.fmt(e, f)


def _shape_start(f, b, i, e):
    e = mir.strip_casts(f.deep_simplify(e))
    if e == ("int", 0):
        return True, "const 0"
    if isinstance(e, tuple) and e[0] == "call" and e[1] in ("add_mod", "sub_mod") and len(e[2]) == 3 and mir.strip_casts(e[2][2])[0] == "cparam":
        return True, "%s(_, _, N)" % e[1]
    return False, "value `%s` is neither 0 nor add_mod/sub_mod(_, _, N)" % mir.fmt(e, f)


WHOLE_WRITERS = (
    "circular_buffer::CircularBuffer::extend_from_slice::write_uninit_slice_cloned",
    "<[core::mem::maybe_uninit::MaybeUninit<T>]>::write_clone_of_slice", "<[core::mem::maybe_uninit::MaybeUninit<T>]>::write_copy_of_slice",
    "<[T]>::copy_from_slice", "<[T]>::clone_from_slice", "core::ptr::copy_nonoverlapping", "core::ptr::copy", "<[T]>::fill", "<[T]>::fill_with",
)


def whole1(ctx, prog, cfg, only=None):
    """Filling the backing array as a whole (from physical slot 0) lays the elements out in array order: that is the
    logical order only if `start` is 0 at that moment — decided by the facts at the call (a store `start = 0` that
    reaches it), not assumed from what other functions may have left behind."""
    n = 0
    for f in prog.fns.values():
        if only is not None and f.short not in only:
            continue
        if not f.has_mir or f.short in ("CircularBuffer::new", "CircularBuffer::boxed"):
            continue
        G = None
        for b, t_ in f.calls(False):
            if mir.callee_path(t_) not in WHOLE_WRITERS:
                continue
            a0 = mir.strip_casts(f.deep_simplify(f.call_args(b)[0]))
            x = a0[1] if isinstance(a0, tuple) and a0[0] == "unsize" else a0
            if not (isinstance(x, tuple) and x[0] == "ref" and isinstance(x[1], tuple) and x[1][0] == "place" and tuple(x[1][2]) == ("items",)):
                continue
            base = x[1][1]
            n += 1
            if G is None:
                G = guards.Guards(f)
            st = ("load", base, ("start",), f.version_at(b, len(f.blocks[b]["stmts"]), ("M", "start")))
            Z = G.closure(b, extra_terms=[st])
            ctx.check(Z.eq0(st), "WHOLE1", f.short, "whole-array fill needs start == 0", short_loc(f, b),
                      "`%s` fills the whole backing array from slot 0 (%s) where nothing establishes `start == 0`: the elements come out "
                      "rotated by `start`" % (f.short, (mir.callee_path(t_) or "").split("::")[-1]),
                      "a store `start = 0` reaches the call", cfg)
    return n


def inv1(ctx, prog, cfg, only=None):
    whole1(ctx, prog, cfg, only)
    writers = {"size": {}, "start": {}}
    for f in prog.fns.values():
        if only is not None and f.short not in only:
            continue
        for b, i, st, is_term in f.positions(False):
            if is_term:
                if st["k"] == "call" and mir.callee_path(st) in ("<*mut T>::write", "core::ptr::write"):
                    a = f.call_args(b)
                    tgt = a[0]
                    if isinstance(tgt, tuple) and tgt[0] == "ref" and tgt[1][0] == "place" and tgt[1][2] in (("size",), ("start",)):
                        fld = tgt[1][2][0]
                        ok = mir.strip_casts(a[1]) == ("int", 0)
                        writers[fld].setdefault(f.short, []).append((b, i, ok, "raw write of %s" % mir.fmt(a[1], f)))
                if st["k"] == "call" and mir.callee_path(st) in ("core::mem::replace", "core::mem::take"):
                    # mem::replace(&mut _.size, v) stores v; mem::take(&mut _.size) stores 0
                    a = f.call_args(b)
                    tgt = a[0] if a else None
                    if isinstance(tgt, tuple) and tgt[0] == "ref" and tgt[1][0] == "place" and tuple(tgt[1][2])[-1:] in (("size",), ("start",)):
                        fld = tuple(tgt[1][2])[-1]
                        if mir.callee_path(st).endswith("take"):
                            ok, why = True, "mem::take: const 0"
                        elif fld == "size":
                            ok, why = _shape_size(f, b, i, a[1], tgt[1][1])
                        else:
                            ok, why = _shape_start(f, b, i, a[1])
                        writers[fld].setdefault(f.short, []).append((b, i, ok, why))
                continue
            if st["k"] != "assign":
                continue
            pl = st["place"]
            if mir.place_has_deref(pl) and mir.mem_var_of(pl)[1] in ("size", "start") and mir.place_fields(pl)[-1] in ("size", "start"):
                fld = mir.place_fields(pl)[-1]
                basepl = {"local": pl["local"], "proj": pl["proj"][:-2]} if len(pl["proj"]) >= 2 else None
                base = f.place_expr({"local": pl["local"], "proj": pl["proj"][:-2]}, b, i) if basepl else ("?",)
                e = f.rvalue_expr(st["rv"], b, i)
                if fld == "size":
                    ok, why = _shape_size(f, b, i, e, base)
                else:
                    ok, why = _shape_start(f, b, i, e)
                writers[fld].setdefault(f.short, []).append((b, i, ok, why))
            if st["rv"]["k"] in ("ref", "rawptr") and st["rv"].get("mut") and mir.place_fields(st["rv"]["place"])[-1:] in (["size"], ["start"]) \
                    and "usize" == st["rv"]["place"].get("ty", "usize"):
                # a mutable reference/pointer to a header field: only as the direct operand of mem::replace / mem::take / ptr::write
                # (whose stored value is judged above); anything else writes the header out of this rule's sight
                fld = mir.place_fields(st["rv"]["place"])[-1]
                t_ = f.term(b)
                direct = False
                if t_["k"] == "call" and mir.callee_path(t_) in ("core::mem::replace", "core::mem::take", "<*mut T>::write", "core::ptr::write") and not st["place"]["proj"]:
                    a0 = t_["args"][0] if t_["args"] else {}
                    if a0.get("k") in ("move", "copy") and not a0["place"]["proj"]:
                        # the operand is this reference, or a reborrow `&mut *ref` of it made in the same block
                        cur_ = a0["place"]["local"]
                        for _ in range(3):
                            if cur_ == st["place"]["local"]:
                                direct = True
                                break
                            nxt = [s2["rv"]["place"]["local"] for s2 in f.blocks[b]["stmts"] if s2["k"] == "assign" and s2["place"]["local"] == cur_ and not s2["place"]["proj"]
                                   and s2["rv"]["k"] in ("ref", "rawptr") and [p_["k"] for p_ in s2["rv"]["place"]["proj"]] == ["deref"]]
                            if len(nxt) != 1:
                                break
                            cur_ = nxt[0]
                if not direct:
                    writers[fld].setdefault(f.short, []).append((b, i, False, "`&mut %s` escapes into a local or a call: stores through it are not tracked" % fld))
            if st["rv"]["k"] == "aggregate" and st["rv"].get("adt", "").endswith("::CircularBuffer"):
                e = f.rvalue_expr(st["rv"], b, i)
                d = dict(e[3])
                oks = mir.strip_casts(d.get("start")) == ("int", 0)
                writers["start"].setdefault(f.short, []).append((b, i, oks, "aggregate start = %s" % mir.fmt(d.get("start"), f)))
                sz = mir.strip_casts(d.get("size"))
                if sz == ("int", 0):
                    okz, whyz = True, "aggregate size = 0"
                else:
                    okz, whyz = _agg_size(f, sz)
                writers["size"].setdefault(f.short, []).append((b, i, okz, whyz))
    for fld in ("size", "start"):
        table = tables.HEADER_WRITERS[fld]
        n = 0
        for short, sites in sorted(writers[fld].items()):
            ent = table.get(short)
            # a writer outside the reviewed table is acceptable when every one of its stores has a
            # shape that is *decided* safe (not merely assumed): the shape rule is the substance,
            # the table only names the writers whose stores need an assumption or a special case
            decided = all(ok and not why.startswith("ASSUMED") and "value-level" not in why for (_, _, ok, why) in sites)
            ctx.check(ent is not None or decided, "INV1", short, "writes %s" % fld, prog.fns[short].loc,
                      "`%s` writes the header field `%s`, is not one of the reviewed writers, and not all of its stores have a "
                      "decided-safe shape: the representation invariant (size <= N, start < N) may no longer be preserved" % (short, fld),
                      "reviewed writer: %s" % ent if ent else "unlisted writer, all stores of decided-safe shape", cfg)
            for (b, i, ok, why) in sites:
                n += 1
                ctx.check(ok, "INV1", short, "%s value #%d" % (fld, sites.index((b, i, ok, why))), short_loc(prog.fns[short], b, i),
                          "`%s` is stored a value of an unreviewed shape: %s" % (fld, why), why, cfg)
        if only is None:
            ctx.floor("INV1", "stores to " + fld, n, 8 if fld == "size" else 7, cfg)


def _agg_size(f, sz):
    """From<[T;M]>: size = if N >= M { M } else { N }: every input is a const parameter and is
    entailed <= N where it is assigned"""
    if isinstance(sz, tuple) and sz[0] == "phi" and sz[2][0] == "L":
        res = []
        for (db, di, rv) in _defs_of_local(f, sz[2][1]):
            e = mir.strip_casts(f.rvalue_expr(rv, db, di))
            cp = "N"
            Z = guards.Guards(f).closure(db, extra_terms=[e, ("cparam", cp)])
            res.append((e[0] == "cparam" and Z.le(e, ("cparam", cp), 0), mir.fmt(e, f)))
        if res and all(r[0] for r in res):
            return True, "aggregate size = join of const parameters each entailed <= N (%s)" % ", ".join(r[1] for r in res)
        return False, "aggregate size input not entailed <= N: %s" % ", ".join(r[1] for r in res if not r[0])
    # any other value that the facts (incl. min(a, b) <= a, b) bound by the capacity
    for b, i, st, is_term in f.positions(False):
        if not is_term and st["k"] == "assign" and st["rv"]["k"] == "aggregate" and st["rv"].get("adt", "").endswith("::CircularBuffer"):
            Z = guards.Guards(f).closure(b, extra_terms=[sz, ("cparam", "N")])
            if Z.le(sz, ("cparam", "N"), 0):
                return True, "aggregate size `%s` entailed <= N" % mir.fmt(sz, f)
    return False, "aggregate size `%s` of unreviewed shape" % mir.fmt(sz, f)


# ------------------------------------------------------------------------------------------------
FREE_ALLOWED = {
    "<[T]>::len", "<[T] as core::ops::index::IndexMut<I>>::index_mut", "<[T] as core::ops::index::Index<I>>::index",
    "<[core::mem::maybe_uninit::MaybeUninit<T>]>::write_clone_of_slice",
    "<[core::mem::maybe_uninit::MaybeUninit<T>]>::write_copy_of_slice",
}


def free1(ctx, prog, cfg):
    src = "CircularBuffer::slices_uninit_mut"
    if ctx.need_fn(prog, src, "FREE1") is None:
        return
    callers = {}
    for f in prog.fns.values():
        cs = f.calls_to(src, unwind=False)
        if cs:
            callers[f.short] = cs
    for short in callers:
        ctx.check(short in tables.FREE_VIEW_CALLERS, "FREE1", short, "calls slices_uninit_mut", prog.fns[short].loc,
                  "`%s` obtains the free-slot view but is not a reviewed caller" % short,
                  "reviewed caller: " + tables.FREE_VIEW_CALLERS.get(short, ""), cfg)
    ctx.floor("FREE1", "callers of slices_uninit_mut", len(callers), 1, cfg)
    from .. import occ

    def tainted(e):
        """does the value carry (a pointer into) the free-slot view? Its length does not."""
        if not isinstance(e, tuple) or not e:
            return False
        if e[0] == "pcall" and e[1] in ("<[T]>::len", "<[T]>::is_empty"):
            return False
        if e[0] == "call" and e[1] == src:
            return True
        return any(tainted(x) for x in e if isinstance(x, tuple))

    for short in callers:
        f = prog.fns[short]
        n = 0
        for b, t in f.calls(True):
            if mir.callee_short(t) == src:
                continue
            args = f.call_args(b)
            for k, a in enumerate(args):
                if not tainted(a):
                    continue
                n += 1
                p = mir.callee_path(t)
                g = prog.fns.get(mir.callee_short(t) or "")
                ok = p in FREE_ALLOWED or (g is not None and occ.inits_param(g) and k == 0)
                ctx.check(ok, "FREE1", short, "free view -> %s arg %d" % (mir.callee_short(t), k), short_loc(f, b),
                          "the free-slot view (uninitialised storage) is passed to `%s`, which is not an initialising "
                          "callee: unoccupied slots can be read" % p,
                          "flows into %s" % ("sub-slicing/len" if p in FREE_ALLOWED else "INITS callee " + str(mir.callee_short(t))), cfg)
        for rb in f.return_blocks():
            ctx.check(not tainted(f.return_expr(rb)), "FREE1", short, "free view not returned", short_loc(f, rb),
                      "the free-slot view escapes through the return value", "return value independent of the view", cfg)
        ctx.floor("FREE1", "uses of the free view in " + short, n, 4, cfg)


# ------------------------------------------------------------------------------------------------
def ctor1(ctx, prog, cfg):
    f = prog.fn("CircularBuffer::boxed")
    if f is not None:
        writes = {}
        asm = []
        for b, t in f.calls(False):
            p = mir.callee_path(t)
            if p in ("<*mut T>::write", "core::ptr::write"):
                a = f.call_args(b)
                tgt = a[0]
                if isinstance(tgt, tuple) and tgt[0] == "ref" and tgt[1][0] == "place":
                    writes[tgt[1][2]] = (b, mir.strip_casts(a[1]))
            if p == "alloc::boxed::Box::assume_init":
                asm.append(b)
        for fld in ("size", "start"):
            w = writes.get((fld,))
            ok = w is not None and w[1] == ("int", 0) and asm and all(f.dominates(w[0], x, False) and w[0] != x for x in asm)
            ctx.check(ok, "CTOR1", f.short, "header write of %s before assume_init" % fld, f.loc,
                      "boxed() does not initialise `%s` to 0 before Box::assume_init: the new buffer's header is whatever "
                      "bytes the allocator returned" % fld,
                      "raw write of 0 to %s at bb%s dominates assume_init bb%s" % (fld, w and w[0], asm), cfg)
    elif cfg not in ("nostd", "eio_both_nostd"):
        ctx.violate("CTOR1", "CircularBuffer::boxed", "anchor-missing", "?", "boxed() not found", cfg)
    for short in ("CircularBuffer::new", "CircularBuffer::boxed", "<CircularBuffer<N, T> as From<[T; M]>>::from"):
        f = prog.fn(short)
        if f is None:
            continue
        reads = []
        for b, i, st, is_term in f.positions(True):
            for pl in mir._places_read(st):
                names = mir.place_fields(pl)
                lname = f.local_name(pl["local"])
                if "items" in names and not (not is_term and st["k"] == "assign" and st["rv"]["k"] in ("ref", "rawptr")):
                    reads.append((b, "items"))
        ctx.check(not reads, "CTOR1", short, "storage never read", f.loc,
                  "constructor reads the uninitialised storage: %s" % reads, "no load from `items`", cfg)


# ------------------------------------------------------------------------------------------------
def _is_slice_cast(st):
    if st["k"] != "assign" or st["rv"]["k"] != "cast":
        return False
    rv = st["rv"]
    src = rv["op"].get("place", {}).get("ty") or rv["op"].get("ty", "")
    dst = rv["ty"]
    return bool(re.match(r"^\*(const|mut) \[core::mem::maybe_uninit::MaybeUninit<", src)) and bool(re.match(r"^\*(const|mut) \[[A-Z]", dst))


def reint1(ctx, prog, cfg):
    found = {}
    for f in prog.fns.values():
        sites = []
        for b, t in f.calls(True):
            if mir.callee_short(t) in SLICE_REINT_CALLS or mir.callee_path(t) in SLICE_REINT_PATHS:
                sites.append((b, mir.callee_short(t)))
        for b, i, st, is_term in f.positions(True):
            if not is_term and _is_slice_cast(st):
                sites.append((b, "raw slice cast"))
        if sites:
            found[f.short] = sites
    total = 0
    for short, sites in sorted(found.items()):
        f = prog.fns[short]
        ent = tables.SLICE_REINT.get(short)
        total += len(sites)
        ctx.check(ent is not None, "REINT1", short, "slice reinterpretation x%d" % len(sites), f.loc,
                  "`%s` reinterprets a `[MaybeUninit<T>]` range as `[T]` but is not a reviewed site: a range that "
                  "includes unoccupied slots would be exposed wholesale" % short,
                  "reviewed: %s" % (ent[1] if ent else ""), cfg)
        if ent and ent[0] == "guarded":
            G = guards.Guards(f)
            cp = guards.buffer_cparam(f, ("param", 1)) or "N"
            for (b, what) in sites:
                Z = G.closure(b, extra_terms=[("cparam", cp)])
                ctx.check(Z.gt0(("cparam", cp)), "REINT1", short, "%s behind emptiness guard" % what, short_loc(f, b),
                          "the reinterpretation is reachable without the function's `N == 0 || size == 0` guard",
                          "facts at bb%d entail N > 0" % b, cfg)
    ctx.floor("REINT1", "slice reinterpretation sites", total, 9, cfg)


# ------------------------------------------------------------------------------------------------
def acc1_beliefs(ctx, prog, cfg):
    """Thorough tier: the helpers' own debug_assert!s (visible with -Cdebug-assertions=on) state
    the same preconditions as the ACC1 table — the crate's stated beliefs, Engler-style."""
    for short, reqs in shared.ACC1_TABLE.items():
        f = prog.fn(short)
        if f is None:
            ctx.violate("ACC1", short, "anchor-missing", "?", "helper not found", cfg)
            continue
        G = guards.Guards(f)
        # the block that performs the helper's real work: the (unique) return block
        rb = f.return_blocks()
        if not rb:
            continue
        # facts that survive all debug assertions = beliefs
        Zterms = []
        for (atom, why, tag) in reqs:
            Zterms += [atom[1], atom[2]]
        Z = G.closure(rb[0], extra_terms=Zterms)
        for (atom, why, tag) in reqs:
            held = Z.le(atom[1], atom[2], atom[3])
            if short in tables.ACC1_BELIEF_WEAKER and not held:
                ctx.ok("ACC1", short, "belief cross-check", "table is stronger than the helper's assertion: " + tables.ACC1_BELIEF_WEAKER[short], cfg, nontrivial=False)
                continue
            ctx.check(held, "ACC1", short, "belief cross-check", f.loc,
                      "the ACC1 table requires `%s` for `%s` but the helper's own debug_assert!s do not state it: table "
                      "and code have drifted apart" % (why, short),
                      "debug_assert!s of the helper entail the tabled precondition", cfg)


# functions that compute *range ends* (i may equal size) or work on a drain's saved size
POSITION_RANGE_FNS = {
    "CircularBuffer::as_slices", "CircularBuffer::as_mut_slices", "CircularBuffer::make_contiguous", "CircularBuffer::slices_uninit_mut",
    "CircularBuffer::drop_range", "CircularBuffer::truncate_front", "Drain::as_slices", "Drain::as_mut_slices", "Drain::read",
    "<Drain<N, T> as Drop>::drop", "CircularSlicePtr::add",
}


def _slot_pos(e):
    """(i) if e is add_mod(<start>, i, N) — the physical position of logical index i"""
    e = mir.strip_casts(e)
    if isinstance(e, tuple) and e[0] == "call" and e[1] == "add_mod" and len(e[2]) == 3:
        s, i, m = e[2]
        if mir.is_load_of(s, "start") is not None and mir.strip_casts(m)[0] == "cparam":
            return mir.is_load_of(s, "start"), i
    return None


def acc2b(ctx, prog, cfg):
    n = 0
    for f in prog.fns.values():
        if f.short in POSITION_RANGE_FNS or f.short in ("add_mod", "sub_mod"):
            continue
        G = guards.Guards(f)
        declared = [a for (a, _, _) in shared.ACC1_TABLE.get(f.short, [])]
        sites = []
        for b in sorted(f.reachable(False)):
            t = f.term(b)
            nst = len(f.blocks[b]["stmts"])
            if t["k"] == "assert" and t.get("msg") == "BoundsCheck" and t["len"].get("param"):
                sites.append((b, f.deep_simplify(f.operand_expr(t["index"], b, nst)), "element index"))
            elif t["k"] == "call" and not mir.is_local_callee(t):
                for a in f.call_args(b):
                    a = f.deep_simplify(a)
                    if _slot_pos(a) is not None:
                        sites.append((b, a, "argument of %s" % mir.callee_short(t)))
        for (b, e, what) in sites:
            sp = _slot_pos(e)
            if sp is None:
                # front slot: items[start] itself is position of index 0
                if mir.is_load_of(mir.strip_casts(e), "start") is not None:
                    base, i = mir.is_load_of(mir.strip_casts(e), "start"), guards.ZERO
                else:
                    continue
            else:
                base, i = sp
            n += 1
            nst = len(f.blocks[b]["stmts"])
            size = ("load", base, ("size",), f.version_at(b, nst, ("M", "size")))
            Z = G.closure(b, extra_terms=[i, size], extra_atoms=declared)
            ctx.check(Z.lt(i, size), "ACC2b", f.short, "slot position of `%s` (%s)" % (mir.fmt(i, f)[:40], what), short_loc(f, b),
                      "storage is indexed/offset/swapped at the physical position of logical index `%s` without the fact that this "
                      "index is below `size`: an unoccupied slot can be read, exchanged or moved into the sequence" % mir.fmt(i, f),
                      "facts entail %s < size" % mir.fmt(i, f), cfg)
    ctx.floor("ACC2b", "slot positions used as element index / pointer offset", n, 8, cfg)
