"""C20 — documented constant-time operations move O(1) elements.

  O1  for each operation documented as O(1): its transitive in-crate call closure has no loop /
      recursion and no BULK_MOVE site; external callees that receive `&mut [X]` / `*mut X` with X
      carrying T are classified (non-moving / constant / bulk) from a reviewed table — an
      unclassified one fails closed; the bit-copy sites on it move a constant number of elements
  O2  the functions with a BULK_MOVE site are exactly the reviewed table, and make_contiguous does
      not reach its rotate unconditionally
Not decided: the linear bounds of remove/drain; whether make_contiguous's contiguity test is the
right one (defect F6 lives there: it rotates when the contents end exactly at the array end).
"""
from .. import effects, guards, mir, tables
from ..report import short_loc
from . import c03

QUICK = ["default"]
THOROUGH = ["default", "nostd", "alloc", "unstable", "eio_both", "eio_both_nostd", "eio", "eioa"]

EXPLANATION = (
    "Decides the O(1) clause as an effect property: no loop, recursion or bulk-relocating call is reachable from any "
    "operation documented as constant-time (element destructors excluded), for every N, layout and argument; and that "
    "bulk relocation exists only in remove, Drain::drop, make_contiguous and the From<[T;M]> constructor, with "
    "make_contiguous not rotating unconditionally. Does NOT decide the linear bounds of remove(i)/drain(i..j) nor the "
    "correctness of make_contiguous's contiguity test — the known defect F6 (it rotates although the contents are "
    "contiguous when they end exactly at the array end) is a genuine violation of the statement that this family "
    "cannot see; it is documented in DESIGN.md and neither reported nor suppressed here."
)

O1_ENTRIES = [
    "CircularBuffer::push_back", "CircularBuffer::push_front", "CircularBuffer::try_push_back", "CircularBuffer::try_push_front",
    "CircularBuffer::pop_back", "CircularBuffer::pop_front", "CircularBuffer::swap", "CircularBuffer::swap_remove_back",
    "CircularBuffer::swap_remove_front", "CircularBuffer::get", "CircularBuffer::get_mut", "CircularBuffer::nth_front",
    "CircularBuffer::nth_front_mut", "CircularBuffer::nth_back", "CircularBuffer::nth_back_mut", "CircularBuffer::front",
    "CircularBuffer::front_mut", "CircularBuffer::back", "CircularBuffer::back_mut",
    "<CircularBuffer<N, T> as Index<usize>>::index", "<CircularBuffer<N, T> as IndexMut<usize>>::index_mut",
    "CircularBuffer::as_slices", "CircularBuffer::as_mut_slices", "CircularBuffer::len", "CircularBuffer::is_empty",
    "CircularBuffer::is_full", "CircularBuffer::capacity", "CircularBuffer::iter", "CircularBuffer::iter_mut",
    "CircularBuffer::truncate_back", "CircularBuffer::truncate_front", "CircularBuffer::clear",
    "<IntoIter<N, T> as Iterator>::next", "<IntoIter<N, T> as DoubleEndedIterator>::next_back",
    "<Iter<T> as Iterator>::next", "<Iter<T> as DoubleEndedIterator>::next_back",
    "<IterMut<T> as Iterator>::next", "<IterMut<T> as DoubleEndedIterator>::next_back",
]

BULK = {
    "core::ptr::copy", "core::ptr::copy_nonoverlapping", "core::ptr::swap_nonoverlapping", "<[T]>::rotate_left", "<[T]>::rotate_right",
    "<[T]>::copy_from_slice", "<[T]>::clone_from_slice", "<[T]>::swap_with_slice", "<[T]>::fill", "<[T]>::fill_with", "<[T]>::sort",
    "<[T]>::sort_unstable", "<[T]>::sort_by", "<[T]>::sort_by_key", "<[T]>::reverse", "<[T]>::copy_within",
    "<*mut T>::copy_from", "<*mut T>::copy_from_nonoverlapping", "<*const T>::copy_to", "<*const T>::copy_to_nonoverlapping",
    "<*mut T>::copy_to", "<*mut T>::copy_to_nonoverlapping", "<[T]>::select_nth_unstable", "<[T]>::partition_dedup",
    "core::ptr::write_bytes", "<*mut T>::write_bytes", "core::slice::<impl [T]>::rotate_left",
}
# callees whose count argument (index) makes them constant when it is a literal
COUNTED = {"core::ptr::copy": 2, "core::ptr::copy_nonoverlapping": 2, "core::ptr::swap_nonoverlapping": 2}
CONSTANT_MOVE = {
    "core::mem::replace": 1, "core::mem::swap": 2, "core::ptr::swap": 2, "<[T]>::swap": 2, "core::ptr::read": 1, "core::ptr::write": 1,
    "<*mut T>::write": 1, "core::mem::maybe_uninit::MaybeUninit::write": 1, "core::mem::maybe_uninit::MaybeUninit::assume_init_read": 1,
    "core::mem::take": 0, "core::ptr::replace": 1,
}
NON_MOVING_PREFIXES = (
    "<[T]>::split_at", "<[T]>::split_first", "<[T]>::split_last", "<[T]>::len", "<[T]>::is_empty", "<[T]>::as_mut_ptr", "<[T]>::as_ptr",
    "<[T]>::get", "<[T]>::first", "<[T]>::last", "<[T]>::iter", "<[T] as core::ops::index::Index", "<[T] as core::ops::index::IndexMut",
    "<[T; N] as core::ops::index::Index", "<[T; N] as core::ops::index::IndexMut", "<*mut T>::add", "<*const T>::add", "<*mut T>::sub",
    "<*mut T>::offset", "<*const T>::offset", "core::mem::maybe_uninit::MaybeUninit::assume_init_ref",
    "core::mem::maybe_uninit::MaybeUninit::assume_init_mut", "core::mem::maybe_uninit::MaybeUninit::as_mut_ptr",
    "core::mem::maybe_uninit::MaybeUninit::as_ptr", "core::ptr::non_null::NonNull", "core::ptr::drop_in_place", "core::mem::drop",
    "core::mem::forget", "core::option::Option", "core::result::Result", "<core::option::Option", "<core::result::Result",
    "core::ops::try_trait", "<[T]>::split_off", "<[core::mem::maybe_uninit::MaybeUninit<T>]>::assume_init", "core::cmp::",
    "<usize", "core::panicking::", "core::fmt::", "core::mem::manually_drop::ManuallyDrop", "<core::mem::manually_drop::ManuallyDrop",
    "<&A as core::cmp::PartialEq", "core::ops::range::", "<core::ops::range::", "core::iter::", "core::convert::", "<core::ptr::non_null::NonNull",
    "core::hash::", "core::clone::Clone::clone", "core::ops::function::",
    # pointer/reference re-typing: no element is read, written or moved
    "core::ptr::from_ref", "core::ptr::from_mut", "<*mut T>::cast", "<*const T>::cast", "<*mut T>::cast_const", "<*const T>::cast_mut",
    "core::ptr::slice_from_raw_parts", "core::ptr::null", "<*mut T>::is_null", "<*const T>::is_null", "<[T; N]>::as_mut_slice", "<[T; N]>::as_slice",
    "<[T; N]>::as_mut_ptr", "<[T; N]>::as_ptr", "<[T]>::as_mut_ptr_range", "<[T]>::as_ptr_range", "core::ptr::addr_of",
)


def carries_T_ptr(t):
    """does the call pass a mutable pointer/slice to element storage?"""
    for a in t["args"]:
        if a.get("k") in ("copy", "move"):
            ty = a["place"]["ty"]
            if (ty.startswith("&mut ") or ty.startswith("*mut ")) and (c03._carries_T(ty.split(" ", 1)[1]) or "MaybeUninit<" in ty):
                return True
    return False


def classify(f, b, t):
    """'bulk' | ('const', k) | 'none' | 'unknown' for an external call"""
    p = mir.callee_path(t) or "?"
    if p in COUNTED:
        cnt = t["args"][COUNTED[p]]
        c = mir.const_int(cnt)
        if c is None:
            e = mir.strip_casts(f.call_args(b)[COUNTED[p]])
            c = e[1] if isinstance(e, tuple) and e[0] == "int" else None
        if c is not None:
            return ("const", c * (2 if "swap" in p else 1))
        return "bulk"
    if p in BULK:
        return "bulk"
    if p in CONSTANT_MOVE:
        return ("const", CONSTANT_MOVE[p])
    if any(p.startswith(x) for x in NON_MOVING_PREFIXES):
        return "none"
    if not carries_T_ptr(t):
        return "none"
    return "unknown"


def fn_profile(f):
    key = "o1_profile"
    if key in f._cache:
        return f._cache[key]
    prof = {"loop": f.has_loop(), "bulk": [], "const": 0, "unknown": []}
    for b, t in f.calls(False):
        if mir.is_local_callee(t) and mir.callee_short(t) in f.prog.fns:
            continue
        c = classify(f, b, t)
        if c == "bulk":
            prof["bulk"].append((b, mir.callee_path(t)))
        elif c == "unknown":
            prof["unknown"].append((b, mir.callee_path(t)))
        elif isinstance(c, tuple):
            prof["const"] += c[1]
    for b, i, st, is_term in f.positions(False):
        if not is_term and st["k"] == "copy_nonoverlapping":
            c = mir.const_int(st["count"])
            if c is None:
                prof["bulk"].append((b, "copy_nonoverlapping (statement)"))
            else:
                prof["const"] += c
    f._cache[key] = prof
    return prof


def run(ctx, progs):
    ctx.explanation = EXPLANATION
    ctx.rule("O1", "closure of each O(1) entry: no loop/recursion, no bulk move, no unclassified storage-mutating callee")
    ctx.rule("O2", "functions with a bulk-move site == reviewed table; make_contiguous rotates only conditionally")
    ctx.assumptions.append("F6 (make_contiguous rotates contiguous contents that end at the array end) is a known, documented defect outside this check's reach")
    ctx.rule("HEADMOVE1", "remove / Drain::drop write `start` (relocating every element in front of the gap) only where the guard facts entail front count <= documented bound")
    ctx.rule("KIND1", "index-kind inference: physical positions and logical indices/lengths are never compared, and never stand in for each other")
    for cfg, prog in progs.items():
        o1(ctx, prog, cfg)
        o2(ctx, prog, cfg)
        headmove1(ctx, prog, cfg)
        from .. import kinds

        kinds.run(ctx, prog, cfg, only=lambda s: s in ("CircularBuffer::remove", "<Drain<N, T> as Drop>::drop", "CircularBuffer::make_contiguous", "CircularBuffer::swap", "CircularBuffer::swap_remove_back", "CircularBuffer::swap_remove_front"))
        from .. import shapes

        shapes.viewcmp1(ctx, prog, cfg, groups=[["CircularBuffer::as_slices", "CircularBuffer::as_mut_slices", "CircularBuffer::make_contiguous"]])


def o1(ctx, prog, cfg):
    eff = effects.get(prog)
    n = 0
    for short in O1_ENTRIES:
        f = ctx.need_fn(prog, short, "O1")
        if f is None:
            continue
        n += 1
        clo = eff.closure(short)
        # recursion: a function reachable from itself
        problems = []
        for g in sorted(clo):
            gf = prog.fns[g]
            pr = fn_profile(gf)
            if pr["loop"]:
                problems.append("loop in `%s` (%s)" % (g, gf.loc))
            for b, p in pr["bulk"]:
                problems.append("bulk move `%s` in `%s` (%s)" % (p, g, short_loc(gf, b)))
            for b, p in pr["unknown"]:
                problems.append("unclassified callee `%s` receiving element storage mutably in `%s` (%s)" % (p, g, short_loc(gf, b)))
            if g in eff.closure(g) - {g} and any(t == g for x in clo for _, _, t in eff.callees(x) if x in eff.closure(g)):
                pass
        rec = [g for g in clo if any(t == g for _, _, t in eff.callees(g))]
        for g in rec:
            problems.append("recursion in `%s`" % g)
        ctx.check(not problems, "O1", short, "constant-time closure (%d functions)" % len(clo), f.loc,
                  "`%s` is documented as O(1) but can reach: %s" % (short, "; ".join(problems[:4])),
                  "no loop, recursion, bulk move or unclassified storage-mutating callee in %s" % sorted(clo)[:6], cfg,
                  detail="call path: " + " -> ".join([short] + [p[3] for p in (eff.find_path(short, lambda x: fn_profile(prog.fns[x])["loop"] or fn_profile(prog.fns[x])["bulk"] or fn_profile(prog.fns[x])["unknown"]) or [])]) if problems else None)
        tot = max((fn_profile(prog.fns[g])["const"] for g in clo), default=0)
        ctx.check(tot <= 2, "O1", short, "constant moves per function <= 2", f.loc,
                  "a function on the path of `%s` moves %d elements with constant-count primitives" % (short, tot),
                  "max %d element(s) moved by constant-count primitives in any function of the closure" % tot, cfg, nontrivial=False)
    ctx.floor("O1", "O(1) entries", n, 30, cfg)


def o2(ctx, prog, cfg):
    found = {}
    for f in prog.fns.values():
        pr = fn_profile(f)
        if pr["bulk"]:
            found[f.short] = pr["bulk"]
    for short, sites in sorted(found.items()):
        ent = tables.BULK_MOVERS.get(short)
        ctx.check(ent is not None, "O2", short, "bulk mover", prog.fns[short].loc,
                  "`%s` relocates an unbounded number of elements (%s) and is not one of the reviewed bulk movers"
                  % (short, ", ".join(sorted({p for _, p in sites}))), "reviewed: %s" % (ent[1] if ent else ""), cfg)
        if ent is not None:
            ctx.check(len(sites) <= ent[0], "O2", short, "bulk-move sites within the reviewed number", short_loc(prog.fns[short], sites[-1][0]),
                      "`%s` now has %d bulk-move sites (%s); its linear bound (%s) was reviewed for %d: an additional relocation path "
                      "can move elements the documented bound does not allow" % (short, len(sites), ", ".join(p.split("::")[-1] for _, p in sites), ent[1], ent[0]),
                      "%d site(s) <= reviewed %d" % (len(sites), ent[0]), cfg)
    ctx.floor("O2", "bulk movers", len(found), 3, cfg)
    f = ctx.need_fn(prog, "CircularBuffer::make_contiguous", "O2")
    if f is not None:
        rot = [b for b, t in f.calls(False) if (mir.callee_path(t) or "").startswith("<[T]>::rotate")]
        rets = set(f.return_blocks())
        G = guards.Guards(f)
        # a return that is reachable without passing the rotate AND with size > 0 (i.e. not only the empty early-out)
        ok = False
        why = "no rotate found"
        if rot:
            why = "every non-empty path rotates"
            seen = {0}
            st = [0]
            while st:
                x = st.pop()
                for s in f.succs(x, False):
                    if s not in seen and s not in rot:
                        seen.add(s)
                        st.append(s)
            for b in f.reachable(False):
                if b in seen and b not in rot:
                    Z = G.closure(b, extra_terms=[("cparam", "N")])
                    t = f.term(b)
                    if t["k"] == "call" and mir.callee_short(t) == "slice_assume_init_mut" and Z.gt0(("cparam", "N")):
                        ok = True
                        why = "bb%d reaches the result without rotating" % b
        ctx.check(ok, "O2", f.short, "rotate only on one branch", f.loc,
                  "make_contiguous rotates the storage on every path that has elements: it relocates elements even when the "
                  "contents are already contiguous", why, cfg)


# ---------------------------------------------------------------------------------------------------------------
# HEADMOVE1 — a necessary condition of the linear bounds of remove(i) and drain(i..j)
#
# Closing a gap by moving the elements *behind* it leaves `start` where it was; closing it by moving the elements *in
# front of* it changes `start`, and then every one of the i (resp. range.start) front elements changes address. The
# documented bounds are len - i resp. len - j. So wherever remove / Drain::drop write `start`, the facts holding at the
# write must entail i <= len - i (resp. range.start <= buf_size - range.end). Accepted justifications (all decided on the
# guard facts of the site, as linear forms): a dominating comparison A <= B + w whose difference B - A is, up to a
# non-negative constant, the required slack (halving, doubling and shifts by one are linearised), or a bound
# i <= 1 (resp. range.start == 0: nothing in front of the hole). On the pinned tree neither function writes `start`.
def _hlin(f, e, syms, sign=1, acc=None, scale=1):
    if acc is None:
        acc = {}
    e = mir.strip_casts(f.deep_simplify(e))
    if isinstance(e, tuple) and e:
        if e[0] == "int":
            acc[1] = acc.get(1, 0) + sign * scale * e[1]
            return acc
        cs_ = mir.checked_sub_payload(e)
        if cs_ is not None:
            _hlin(f, cs_[0], syms, sign, acc, scale)
            _hlin(f, cs_[1], syms, -sign, acc, scale)
            return acc
        if e[0] == "binop" and e[1] in ("Add", "Sub", "AddUnchecked", "SubUnchecked"):
            _hlin(f, e[2], syms, sign, acc, scale)
            _hlin(f, e[3], syms, sign if e[1].startswith("Add") else -sign, acc, scale)
            return acc
        if e[0] == "binop" and e[1] in ("Mul", "MulUnchecked"):
            a, b = mir.strip_casts(e[2]), mir.strip_casts(e[3])
            for x, y in ((a, b), (b, a)):
                if isinstance(x, tuple) and x and x[0] == "int":
                    return _hlin(f, y, syms, sign, acc, scale * x[1])
        if e[0] == "binop" and e[1] in ("Shl", "ShlUnchecked") and mir.strip_casts(e[3]) == ("int", 1):
            return _hlin(f, e[2], syms, sign, acc, scale * 2)
        for name, pred in syms.items():
            if pred(e):
                acc[name] = acc.get(name, 0) + sign * scale
                return acc
        if e[0] in ("call", "pcall") and str(e[1]).endswith("ExactSizeIterator::len") and len(e[2]) == 1:
            a = e[2][0]
            if isinstance(a, tuple) and a[0] == "ref" and isinstance(a[1], tuple) and a[1][0] == "place" and a[1][1] == ("param", 1) and tuple(a[1][2]) == ("range",):
                acc["range.end"] = acc.get("range.end", 0) + sign * scale
                acc["range.start"] = acc.get("range.start", 0) - sign * scale
                return acc
    acc[repr(e)] = acc.get(repr(e), 0) + sign * scale
    return acc


def _halved(e):
    """X if e is X / 2 or X >> 1"""
    e = mir.strip_casts(e)
    if isinstance(e, tuple) and e and e[0] == "binop" and ((e[1] == "Div" and mir.strip_casts(e[3]) == ("int", 2)) or (e[1] in ("Shr", "ShrUnchecked") and mir.strip_casts(e[3]) == ("int", 1))):
        return e[2]
    return None


def _entry_load(path):
    return lambda e: e[0] == "load" and tuple(e[2]) == path and e[3][0] == "entry"


HEADMOVE = {
    # function: (symbols, required slack t >= 0 as a linear form, the quantity that may instead be bounded by a constant, that constant, text)
    "CircularBuffer::remove": ({"index": lambda e: e == ("param", 2), "size": _entry_load(("size",))},
                               {"size": 1, "index": -2}, "index", 1, "index <= len - index"),
    "<Drain<N, T> as Drop>::drop": ({"range.start": _entry_load(("range", "start")), "range.end": _entry_load(("range", "end")), "buf_size": _entry_load(("buf_size",))},
                                    {"buf_size": 1, "range.end": -1, "range.start": -1}, "range.start", 0, "range.start <= buf_size - range.end"),
}


def headmove1(ctx, prog, cfg):
    eff = effects.get(prog)
    from .. import common

    for short, (syms, need, small, small_k, text) in HEADMOVE.items():
        f = ctx.need_fn(prog, short, "HEADMOVE1")
        if f is None:
            continue
        sites = []
        for (b, i, e) in common.field_stores(f, "start"):
            if mir.is_load_of(mir.strip_casts(f.deep_simplify(e)), "start"):
                continue  # stores the value it already has
            sites.append((b, "store to start"))
        for b, t in f.calls(False):
            if mir.is_local_callee(t):
                cs = mir.callee_short(t)
                if cs in prog.fns and "start" in {w for w in eff.writes(cs) if isinstance(w, str)}:
                    sites.append((b, "call of `%s`, which writes start" % cs))
        if not sites:
            ctx.ok("HEADMOVE1", short, "never writes start", "no store to `start`, no callee that writes it: only elements behind the gap can be relocated", cfg)
            continue
        G = guards.Guards(f)
        for b, what in sites:
            ok, by = False, ""
            for at in G.facts_at(b):
                if at[0] != "le":
                    continue
                _, a, c, w = at
                h = _halved(c)
                if h is not None:   # a <= X/2 + w  =>  2a <= X + 2w
                    la, lc, w = _hlin(f, a, syms, scale=2), _hlin(f, h, syms), 2 * w
                else:
                    la, lc = _hlin(f, a, syms), _hlin(f, c, syms)
                d = dict(lc)
                for k, v in la.items():
                    d[k] = d.get(k, 0) - v
                # fact: d >= -w ; wanted: t = need >= 0 ; t - d must be a constant k with k - w >= 0
                r = dict(need)
                for k, v in d.items():
                    r[k] = r.get(k, 0) - v
                if all(v == 0 for k, v in r.items() if k != 1) and r.get(1, 0) - w >= 0:
                    ok, by = True, "guard fact `%s <= %s%+d` entails %s" % (mir.fmt(a, f)[:40], mir.fmt(c, f)[:40], at[3], text)
                    break
            if not ok:
                Z = G.closure(b)
                # the front part has at most `small_k` elements on this path
                cand = [s for at in G.facts_at(b) if at[0] == "le" for s in (mir.strip_casts(at[1]), mir.strip_casts(at[2])) if isinstance(s, tuple) and s and syms[small](s)]
                for s in cand:
                    if Z.le(s, guards.ZERO, small_k):
                        ok, by = True, "guard facts entail %s <= %d" % (small, small_k)
                        break
            ctx.check(ok, "HEADMOVE1", short, "head move justified: " + what, short_loc(f, b),
                      "`%s` moves the elements in front of the gap (%s) on a path whose guard facts do not entail `%s`: every "
                      "front element changes address there, which exceeds the documented bound for a gap near the back" % (short, what, text),
                      by, cfg)
