"""C17 — no operation allocates; the crate works without std or an allocator.

  BUILD     `--no-default-features` and `--no-default-features --features alloc` type-check on the
            stable toolchain; in the first the crate is #![no_std] without `extern crate alloc`
            (the driver confirms the extern-crate set), so nothing compiled there can name an
            allocating item
  CFGDIFF1  every function present both in the no-alloc build and in a richer build has an
            identical normalised body in both -> it is allocation-free everywhere; the functions
            that exist only with alloc/std are exactly {boxed, to_vec} plus the I/O impls
  ALLOC1    the I/O impls call only in-crate functions, `core`, and an explicit allow-list; the
            crate declares no foreign items and no allocator hooks
"""
from .. import effects, facts, mir, skeleton
from ..report import short_loc

QUICK = ["nostd", "alloc", "default"]
THOROUGH = ["nostd", "alloc", "default", "eio", "eioa", "eio_both", "eio_both_nostd", "unstable", "unstable_nostd"]

EXPLANATION = (
    "By construction: the crate type-checks as #![no_std] with no `extern crate alloc` (so no function compiled in "
    "that configuration can allocate, because nothing it can name allocates), and every function that also exists in "
    "the alloc/std/embedded configurations has an identical resolved MIR body there; the only additional functions are "
    "boxed(), to_vec() (exempt by the statement) and the I/O trait impls, whose callees are restricted to in-crate "
    "functions, `core`, and the allow-listed `<&[u8] as std::io::Read>::read`. Iterators and drains are covered because "
    "their methods are among the compared functions. Trusted: `core` does not allocate."
)

ALLOWED_EXTRA = {
    "CircularBuffer::boxed": "exempt by the statement",
    "CircularBuffer::to_vec": "exempt by the statement",
}
IO_PREFIXES = ("<CircularBuffer<N, u8> as std::", "<CircularBuffer<N, u8> as embedded_io::", "<CircularBuffer<N, u8> as embedded_io_async::")
ALLOC_ALLOW = {
    "<&[u8] as std::io::Read>::read": "copies min(len) bytes and advances the slice; no allocation (std source)",
    "<&[u8] as embedded_io::Read>::read": "copies min(len) bytes and advances the slice (embedded-io 0.6.1)",
    "<&[u8] as embedded_io_async::Read>::read": "copies min(len) bytes and advances the slice (embedded-io-async 0.6.1)",
}


def run(ctx, progs):
    ctx.explanation = EXPLANATION
    ctx.rule("BUILD", "cargo check --offline --lib for the no_std / alloc / std configurations (stable)")
    ctx.rule("NOSTD", "extern crates of the no-alloc build: none besides core/compiler builtins; no extern blocks")
    ctx.rule("CFGDIFF1", "bodies common to the no-alloc build and any other configuration are identical; extra functions == table")
    ctx.rule("ALLOC1", "callees of the extra I/O impls: in-crate, core, or allow-list")
    builds = ["nostd", "alloc", "default"] + [c for c in progs if c not in ("nostd", "alloc", "default")]
    builds = [b for b in builds if b in facts.BUILD_MATRIX]
    res = facts.plain_checks(builds)
    for name in builds:
        ok, msg = res[name]
        ctx.check(ok, "BUILD", "*", "cargo check %s" % " ".join(facts.BUILD_MATRIX[name][0] or ["(default features)"]), "Cargo.toml",
                  "the crate does not build in configuration `%s`:\n%s" % (name, msg[-1500:]),
                  "cargo %s check --offline --lib succeeds" % facts.BUILD_MATRIX[name][1], name)
    base = progs.get("nostd")
    if base is None:
        ctx.violate("BUILD", "*", "nostd facts", "?", "no fact base for --no-default-features")
        return
    ext = set(base.facts.get("extern_crates", []))
    ctx.check(not (ext & {"alloc", "std"}), "NOSTD", "*", "extern crates of the no-alloc build", "src/lib.rs",
              "the --no-default-features build declares extern crates %s: `alloc`/`std` are nameable, so the 'cannot name "
              "an allocating item' argument no longer holds" % sorted(ext),
              "extern crate items: %s" % sorted(ext), "nostd")
    crates = set(base.facts.get("crates", []))
    ctx.check("std" not in crates and "alloc" not in crates, "NOSTD", "*", "crate graph of the no-alloc build", "Cargo.toml",
              "the no-alloc build links %s" % sorted(crates & {"std", "alloc"}), "linked crates: %s" % sorted(crates), "nostd")
    # every configuration without the `std` feature is a #![no_std] crate: `std` is neither named nor linked; only the
    # configurations with the `alloc` feature name / link `alloc`
    for cfg, prog in progs.items():
        feats = " ".join(facts.BUILD_MATRIX.get(cfg, ([], ""))[0])
        if "--no-default-features" not in feats or "std" in [x for part in feats.split() for x in part.split(",")]:
            continue
        cr, ex = set(prog.facts.get("crates", [])), set(prog.facts.get("extern_crates", []))
        ctx.check("std" not in cr and "std" not in ex, "NOSTD", "*", "no std without the `std` feature", "src/lib.rs",
                  "configuration `%s` (no `std` feature) links or names `std` (extern crates %s): the crate is not #![no_std] there"
                  % (cfg, sorted(ex)), "crate graph without std: %s" % sorted(cr)[:6], cfg)
        has_alloc = "alloc" in [x for part in feats.split() for x in part.split(",")]
        ctx.check(has_alloc or ("alloc" not in cr and "alloc" not in ex), "NOSTD", "*", "no alloc without the `alloc` feature", "src/lib.rs",
                  "configuration `%s` (no `alloc` feature) links or names `alloc`: a final binary without a global allocator is rejected"
                  % cfg, "crate graph: %s" % sorted(cr)[:6], cfg)
    for cfg, prog in progs.items():
        ctx.check(prog.facts.get("foreign_mods", 0) == 0, "NOSTD", "*", "no extern blocks", "?",
                  "the crate declares foreign items (extern blocks): a side door to an allocator", "0 foreign modules", cfg, nontrivial=False)
    for cfg, prog in progs.items():
        if cfg in ("nostd", "unstable_nostd"):
            continue
        base = progs["nostd"]
        if cfg == "unstable":
            # the nightly-only arms are compared against their own no-alloc build
            base = progs.get("unstable_nostd")
            if base is None:
                continue
            ext_u = set(base.facts.get("extern_crates", []))
            ctx.check(not (ext_u & {"alloc", "std"}), "NOSTD", "*", "extern crates of the no-alloc unstable build", "src/lib.rs",
                      "extern crates %s" % sorted(ext_u), "extern crate items: %s" % sorted(ext_u), "unstable_nostd")
        common = 0
        for short, f in base.fns.items():
            g = prog.fns.get(short)
            if g is None:
                ctx.violate("CFGDIFF1", short, "missing in " + cfg, f.loc,
                            "function exists in the no-alloc build but not in configuration %s" % cfg, cfg)
                continue
            common += 1
            a, b = skeleton.exact(f), skeleton.exact(g)
            if a == b:
                ctx.ok("CFGDIFF1", short, "identical body in nostd and " + cfg, "normalised MIR equal (%d lines)" % a.count("\n"), cfg)
            else:
                d = first_diff(a, b)
                ctx.violate("CFGDIFF1", short, "body differs between nostd and " + cfg, g.loc,
                            "`%s` compiles to different code when `alloc`/`std`/other features are enabled: its no-alloc "
                            "build says nothing about the richer build, where it may allocate" % short, cfg, detail=d)
        ctx.floor("CFGDIFF1", "functions common to nostd and " + cfg, common, 140, cfg)
        extra = [s for s in prog.fns if s not in base.fns]
        for s in sorted(extra):
            f = prog.fns[s]
            encl = f.rec.get("enclosing_fn") or s
            ok = encl in ALLOWED_EXTRA or any(encl.startswith(p) for p in IO_PREFIXES)
            ctx.check(ok, "CFGDIFF1", s, "exists only with alloc/std", f.loc,
                      "`%s` is compiled only when an allocator is available and is not one of {boxed, to_vec, I/O impls}" % s,
                      ALLOWED_EXTRA.get(encl, "I/O trait impl"), cfg)
            if any(encl.startswith(p) for p in IO_PREFIXES):
                alloc1(ctx, prog, f, cfg)


def alloc1(ctx, prog, f, cfg):
    for b, t in f.calls(True):
        fn = mir.callee_of(t)
        if fn is None:
            ctx.violate("ALLOC1", f.short, "indirect call", short_loc(f, b), "indirect call in an I/O impl", cfg)
            continue
        path = fn.get("rpath") or fn["path"]
        krate = fn.get("rkrate") or fn.get("krate")
        local = fn.get("rlocal", fn.get("local"))
        if local:
            tgt = fn.get("rshort") or fn["short"]
            encl = tgt
            ok = tgt in ("CircularBuffer::boxed", "CircularBuffer::to_vec")
            ctx.check(not ok, "ALLOC1", f.short, "calls %s" % tgt, short_loc(f, b),
                      "an I/O impl calls `%s`, which allocates" % tgt, "in-crate callee other than boxed/to_vec", cfg, nontrivial=False)
            continue
        ok = krate == "core" or path in ALLOC_ALLOW or any(path.startswith(a + "::{closure") for a in ALLOC_ALLOW)
        ctx.check(ok, "ALLOC1", f.short, "calls %s" % path, short_loc(f, b),
                  "an I/O impl calls `%s` (crate %s), which is neither in `core` nor on the non-allocating allow-list" % (path, krate),
                  "crate core" if krate == "core" else ALLOC_ALLOW.get(path, ""), cfg)
    for b in f.reachable(True):
        t = f.term(b)
        if t["k"] == "drop":
            ty = t["ty"]
            if ty.startswith("alloc::") or "alloc::vec::Vec" in ty or "alloc::boxed::Box" in ty or "alloc::string::String" in ty:
                ctx.violate("ALLOC1", f.short, "owns %s" % ty, short_loc(f, b), "an I/O impl owns a heap type `%s`" % ty, cfg)


def first_diff(a, b):
    la, lb = a.splitlines(), b.splitlines()
    for i, (x, y) in enumerate(zip(la, lb)):
        if x != y:
            return "first difference at skeleton line %d:\n  nostd: %s\n  other: %s" % (i, x.strip(), y.strip())
    return "skeletons differ in length: %d vs %d lines" % (len(la), len(lb))
