"""C02 — single-element insertion never loses an element silently.

Decided (for every N, layout and history at once, because none of it depends on them):
  OWN1   the argument is never destroyed by the call; every T-typed component of the return value
         is the argument itself or the result of mem::replace(<slot>, argument); the argument's
         only sinks are the return value, MaybeUninit::write and mem::replace
  UNCH1  nothing is written to the buffer on any path to an `Err(..)` return
  STORE1 every path to `Ok(())` / `None` passes MaybeUninit::write(slot, item) and a size increase
  FULL1  `Ok`/`None` only under `size < N` (entry value), `Err`/`Some` only under `size >= N` or
         `N == 0`
Not decided: which end the element lands on and that the length grows by exactly one (values).
"""
from .. import common, effects, guards, mir
from ..report import short_loc

QUICK = ["default"]
THOROUGH = ["default", "nostd", "alloc", "unstable", "eio_both", "eio_both_nostd", "eio", "eioa", "default_dbg"]

TARGETS = {
    "CircularBuffer::push_back": "push",
    "CircularBuffer::push_front": "push",
    "CircularBuffer::try_push_back": "try",
    "CircularBuffer::try_push_front": "try",
}

EXPLANATION = (
    "Decides clauses 1-5 of C02 (argument never destroyed; Err returns the very argument and leaves the "
    "buffer untouched; Ok/None paths store the argument and grow the size; Ok/None exactly when not full) "
    "on the drop-elaborated MIR of push_back, push_front, try_push_back, try_push_front, for symbolic N, "
    "start and size. Does NOT decide which end the element is stored at nor that the length grows by "
    "exactly one (value-level)."
)


def run(ctx, progs):
    ctx.explanation = EXPLANATION
    ctx.rule("OWN1", "no normal-path Drop of a T-carrying place; return components and sinks of `item` are reviewed shapes")
    ctx.rule("UNCH1", "no buffer write on any path to an Err return")
    ctx.rule("STORE1", "every path to Ok/None passes MaybeUninit::write(_, item) and a size increase")
    ctx.rule("FULL1", "Ok/None dominated by an edge establishing size<N; Err/Some by size>=N or N==0")
    ctx.assumptions.append("INV: size <= N on entry (preservation is checked by INV1 under C04)")
    ctx.rule("INV1", "header stores of the insertion functions have the reviewed writers and value shapes")
    ctx.rule("TOTAL1", "no explicit panic site (in the debug build: no debug assertion) is feasible from the four insertion functions")
    for cfg, prog in progs.items():
        total1(ctx, prog, cfg)
        if cfg == "default_dbg":
            continue  # the debug build only adds the assertion sites; the ownership rules are decided on the release MIR
        found = 0
        for short, kind in TARGETS.items():
            f = ctx.need_fn(prog, short, "OWN1")
            if f is None:
                continue
            found += 1
            check_fn(ctx, prog, f, kind, cfg)
        ctx.floor("C02", "insertion functions", found, 4, cfg)
        # "without disturbing the other elements": what the four functions write to the header has the reviewed shapes
        # (size + 1; start moved by one position through dec_start / inc_start) — a hand-computed `start` is reported here
        from . import c04 as _c04

        _c04.inv1(ctx, prog, cfg, only=set(TARGETS) | {"CircularBuffer::inc_size", "CircularBuffer::dec_start", "CircularBuffer::inc_start"})


def total1(ctx, prog, cfg):
    """'hand back exactly ...' presupposes that the call returns: no assert!/expect/unreachable (and, with debug
    assertions compiled in, no debug_assert!) can fire for any call of the four functions — decided by the
    caller-context projection of C11 (guard facts of every call path projected into the callee)."""
    from .. import panics

    R = panics.Reach(prog)
    for short in TARGETS:
        if prog.fn(short) is None:
            continue
        sites = sorted(R.sites(short))
        ctx.check(not sites, "TOTAL1", short, "no feasible panic site" + (" (debug assertions on)" if cfg == "default_dbg" else ""), prog.fn(short).loc,
                  "`%s` can reach %s: instead of handing the element back (or storing it) the call panics%s"
                  % (short, "; ".join("%s in `%s` (%s)" % (s[2], s[0], s[1]) for s in sites[:3]), " in builds with debug assertions" if cfg == "default_dbg" else ""),
                  "every explicit panic site in its call closure is infeasible under the callers' guard facts", cfg)


def item_param(f):
    for n in range(1, f.arg_count + 1):
        if f.local_ty(n) == "T":
            return n
    return None


def check_fn(ctx, prog, f, kind, cfg):
    item = item_param(f)
    if item is None:
        ctx.violate("OWN1", f.short, "no-item-parameter", f.loc, "insertion function has no by-value `T` parameter", cfg)
        return
    G = guards.Guards(f)
    # ---- OWN1 (a): no normal-path drop of anything mentioning T ---------------------------------
    ndrops = 0
    for b in sorted(f.reachable(False)):
        t = f.term(b)
        if t["k"] == "drop" and not f.is_cleanup(b):
            pl = t["place"]
            if f.locals[pl["local"]]["tparam"] or t.get("user_drop"):
                ndrops += 1
                ctx.violate(
                    "OWN1", f.short, "normal-path drop of %s" % f.local_name(pl["local"]), short_loc(f, b),
                    "`%s` (type %s) is destroyed on a non-unwinding path of an insertion function: the "
                    "element is lost silently" % (f.local_name(pl["local"]), t["ty"]), cfg)
    if ndrops == 0:
        ctx.ok("OWN1", f.short, "no normal-path drop of a T value", "0 non-cleanup Drop terminators on T-carrying places in %d blocks" % len(f.reachable(False)), cfg)
    # ---- OWN1 (c): sinks of item -----------------------------------------------------------------
    sinks = common.value_sinks(f, item)
    allowed = 0
    for s in sinks:
        if s[0] == "return":
            okv = s[1] in (("Some",) if kind == "push" else ("Err",))
            ctx.check(okv, "OWN1", f.short, "item returned as %s" % (s[1] or "?"), short_loc(f, s[2], s[3]),
                      "the argument is returned wrapped in `%s`, expected %s" % (s[1], "Some" if kind == "push" else "Err"),
                      "argument moved into the return value as %s" % s[1], cfg)
            allowed += okv
        elif s[0] == "call":
            okc = (s[1] == common.MU_WRITE and s[2] == 1) or (s[1] == common.MEM_REPLACE and s[2] == 1 and kind == "push")
            ctx.check(okc, "OWN1", f.short, "item passed to %s" % s[1].split("::")[-1], short_loc(f, s[3]),
                      "the argument is handed to `%s` (argument %d), which is not one of the reviewed sinks "
                      "{return value, MaybeUninit::write, mem::replace}" % (s[1], s[2]),
                      "sink %s arg %d" % (s[1], s[2]), cfg)
            allowed += okc
        elif s[0] == "store":
            ctx.violate("OWN1", f.short, "item stored to %s" % s[1], short_loc(f, s[2], s[3]),
                        "the argument is bit-stored into `%s` outside MaybeUninit::write" % s[1], cfg)
        elif s[0] == "drop":
            pass  # reported above
    ctx.check(allowed >= (3 if kind == "push" else 2), "OWN1", f.short, "sink count", f.loc,
              "expected at least %d reviewed sinks of the argument, found %d" % (3 if kind == "push" else 2, allowed),
              "%d reviewed sinks" % allowed, cfg, nontrivial=False)
    # ---- return sites -----------------------------------------------------------------------------
    rets = common.ret_assignments(f)
    size0 = common.entry_size(f)
    Nn = common.N(guards.buffer_cparam(f, ("param", 1)) or "N")
    zero = guards.ZERO
    seen_variants = set()
    for (b, i, k, payload) in rets:
        if k != "stmt":
            ctx.violate("OWN1", f.short, "return value produced by a call", short_loc(f, b),
                        "the return value comes from a call (%s); its T component is of unknown provenance" % mir.callee_short(payload), cfg)
            continue
        v = common.variant_of_rv(payload)
        if v is None:
            ctx.violate("OWN1", f.short, "return value of unknown shape", short_loc(f, b, i),
                        "the return place is assigned something other than a Some/None/Ok/Err aggregate", cfg)
            continue
        variant, fields = v
        seen_variants.add(variant)
        site = "return %s" % variant
        # OWN1 (b): provenance of the T component
        if variant in ("Some", "Err"):
            e = mir.strip_casts(f.operand_expr(fields[0]["op"], b, i))
            is_item = e == ("param", item)
            is_repl = (
                kind == "push" and isinstance(e, tuple) and e[0] == "call" and e[1] == "replace"
                and len(e[2]) == 2 and mir.strip_casts(e[2][1]) == ("param", item)
            )
            ctx.check(is_item or is_repl, "OWN1", f.short, site + " provenance", short_loc(f, b, i),
                      "the element returned in `%s` is `%s`, neither the argument nor the value displaced by "
                      "mem::replace(slot, argument)" % (variant, mir.fmt(e, f)),
                      "returned element is %s" % ("the argument" if is_item else "mem::replace(slot, argument)"), cfg)
            if is_repl:
                slot = mir.strip_casts(e[2][0])
                okslot = isinstance(slot, tuple) and slot[0] == "call" and slot[1] == "MaybeUninit::assume_init_mut"
                ctx.check(okslot, "OWN1", f.short, site + " replaced slot", short_loc(f, b, i),
                          "mem::replace operates on `%s`, not on an occupied buffer slot" % mir.fmt(slot, f),
                          "slot is assume_init_mut(<ACC1 helper>)", cfg)
        Z = G.closure(b, extra_terms=[size0, Nn, zero])
        # FULL1
        if variant in ("Ok", "None"):
            ctx.check(Z.lt(size0, Nn), "FULL1", f.short, site, short_loc(f, b, i),
                      "a `%s` return is reachable without the fact `size < N` (entry value of size): the "
                      "function reports success although the buffer may be full%s"
                      % (variant, " — on this path N == 0, where the buffer is always full" if Z.eq0(Nn) else ""),
                      "must-facts at bb%d entail size@entry < N" % b, cfg,
                      detail="facts: " + fmt_facts(f, G.facts_at(b)))
        else:
            full = Z.le(Nn, size0, 0) or Z.eq0(Nn)
            if not full:
                # `N == 0 || size >= N` merges in one block: decide on each incoming edge instead
                from .c07 import _none_edges

                edges = _none_edges(f, b)
                full = bool(edges)
                for (p_, label) in edges:
                    Ze = guards.Zone(f, set(G.facts_at(p_)) | set(G.edge_atoms(p_, label)), [size0, Nn, zero])
                    if not (Ze.le(Nn, size0, 0) or Ze.eq0(Nn)):
                        full = False
            ctx.check(full, "FULL1", f.short, site, short_loc(f, b, i),
                      "a `%s` return is reachable without `size >= N` or `N == 0`: an element is refused or "
                      "displaced although there is room" % variant,
                      "must-facts at bb%d entail size@entry >= N or N == 0" % b, cfg,
                      detail="facts: " + fmt_facts(f, G.facts_at(b)))
        # UNCH1 / STORE1
        on_path = common.blocks_on_paths_to(f, b)
        if variant == "Err" or (variant == "Some" and Z.eq0(Nn)):
            ws = []
            for x in sorted(on_path):
                ws.extend((x, w) for w in common.writes_at(f, x, upto=(i if x == b else None)))
            after = f.reachable_from(b, unwind=False)
            for x in sorted(after):
                ws.extend((x, w) for w in common.writes_at(f, x))
            ctx.check(not ws, "UNCH1", f.short, site, short_loc(f, b, i),
                      "the buffer is modified on a path to the `%s` return: %s" % (variant, "; ".join("bb%d %s" % (x, w[1]) for x, w in ws)),
                      "no store / WRITES call in the %d blocks on paths to bb%d" % (len(on_path), b), cfg)
        if variant in ("Ok", "None"):
            wblocks = [bb for bb, t in f.calls(False) if mir.callee_path(t) == common.MU_WRITE
                       and len(t["args"]) == 2 and mir.strip_casts(f.call_args(bb)[1]) == ("param", item)]
            incblocks = [bb for bb in f.reachable(False) if any("size" in w[1] for w in common.writes_at(f, bb))]
            okw = bool(wblocks) and f.must_pass(None, wblocks, {b})
            oki = bool(incblocks) and f.must_pass(None, incblocks, {b})
            ctx.check(okw, "STORE1", f.short, site + " passes write(item)", short_loc(f, b, i),
                      "a path reaches the `%s` return without MaybeUninit::write(slot, item): the element is not stored" % variant,
                      "every path to bb%d passes write(item) in bb%s" % (b, wblocks), cfg)
            ctx.check(oki, "STORE1", f.short, site + " passes size increase", short_loc(f, b, i),
                      "a path reaches the `%s` return without increasing `size`" % variant,
                      "every path to bb%d passes a size write in bb%s" % (b, incblocks), cfg)
            # the slot written is one of the ACC1 helpers' results
            for wb in wblocks:
                slot = mir.strip_casts(f.call_args(wb)[0])
                okslot = isinstance(slot, tuple) and slot[0] == "call" and slot[1] in (
                    "CircularBuffer::back_maybe_uninit_mut", "CircularBuffer::front_maybe_uninit_mut")
                ctx.check(okslot, "STORE1", f.short, "write target", short_loc(f, wb),
                          "MaybeUninit::write targets `%s`, not the front/back slot helper" % mir.fmt(slot, f),
                          "slot = %s" % mir.fmt(slot, f), cfg)
        if variant == "Some" and not Z.eq0(Nn):
            rblocks = [bb for bb, t in f.calls(False) if mir.callee_path(t) == common.MEM_REPLACE]
            okr = bool(rblocks) and f.must_pass(None, rblocks, {b})
            ctx.check(okr, "STORE1", f.short, site + " passes mem::replace", short_loc(f, b, i),
                      "a path reaches `Some(displaced)` without mem::replace(slot, item): the argument is not stored",
                      "every path to bb%d passes mem::replace in bb%s" % (b, rblocks), cfg)
    want = {"Some", "None"} if kind == "push" else {"Ok", "Err"}
    ctx.check(want <= seen_variants, "FULL1", f.short, "both outcomes present", f.loc,
              "expected return sites for %s, found %s" % (sorted(want), sorted(seen_variants)),
              "return sites: %s" % sorted(seen_variants), cfg, nontrivial=False)


def fmt_facts(f, facts):
    out = []
    for a in sorted(facts, key=str):
        if a[0] == "le":
            rel = "<=" if a[3] == 0 else ("<" if a[3] == -1 else "<= %+d +" % a[3])
            out.append("%s %s %s" % (mir.fmt(a[1], f), rel, mir.fmt(a[2], f)))
        elif a[0] == "ne":
            out.append("%s != %s" % (mir.fmt(a[1], f), mir.fmt(a[2], f)))
    return "; ".join(out) or "(none)"
