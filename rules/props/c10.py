"""C10 — leaking a drain is safe.

The property follows from a typestate visible in the code: from the moment a `Drain` exists until
its `drop` has finished, the buffer's `size` is 0. A leaked drain never reaches `drop`, so the
buffer stays the empty sequence (valid, disjoint from what the drain handed out; by C04's rules
no later operation touches a slot outside `size`).
  DRN1 a  Drain is constructed only in Drain::over_range
  DRN1 b  there, `size := 0` dominates the creation of the pointer, the Drain and the return, is
          the only store to size, and happens after the range has been validated
  DRN1 c  no Drain method other than drop writes size
  DRN1 f  the only move-out (Drain::read) is called only by next/next_back (&mut Drain)
  WHO1    Drain is neither Clone nor Copy
  + the C04 obligations on which 'an empty buffer touches no slot' rests (ACC1, ACC2, INV1, MOD1)
"""
from .. import drainrules, shared
from . import c04

QUICK = ["default"]
THOROUGH = ["default", "nostd", "alloc", "unstable", "eio_both", "eio_both_nostd", "eio", "eioa"]

EXPLANATION = (
    "Decides the typestate 'while a Drain exists the buffer's size is 0': single constructor, size cleared (after "
    "validation) before the pointer/Drain/return exist and never written again except by Drain::drop, move-outs only "
    "through &mut Drain, no Clone/Copy — together with the C04 obligations (helper preconditions, header write "
    "discipline) under which a buffer with size 0 touches no slot. All premises are mechanically checked; the "
    "three-line implication to the property statement is in DESIGN.md."
)


def run(ctx, progs):
    ctx.explanation = EXPLANATION
    ctx.rule("DRN1", "drain typestate a,b,c,f + not Clone/Copy")
    ctx.rule("ACC1/ACC2/INV1", "C04 obligations re-evaluated: an empty buffer touches no slot")
    for cfg, prog in progs.items():
        drainrules.drn1_abcf(ctx, prog, cfg)
        eng = shared.run_acc1(prog)
        shared.report_requires(ctx, eng, "ACC1", cfg)
        c04.acc2(ctx, prog, cfg)
        c04.inv1(ctx, prog, cfg)
