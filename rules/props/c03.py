"""C03 — every element is dropped exactly once and never while still reachable.

  WHO1    closed, reviewed tables: functions that run element destructors directly, that bit-copy /
          move elements, that disarm destructors (forget/ManuallyDrop), that contain `unsafe`.
          Every function outside the tables is safe code over T and cannot duplicate or leak-by-
          overwrite an element.
  OCC     every move-out (M) is followed by the counter decrease (B-) and every counter increase
          by the slot write (A) with no user code in between; public entries return balanced;
          MaybeUninit::write on storage only in state size-ahead (never over a live element)
  OWNER1  owners destroy what they still hold: Drop for CircularBuffer must reach drop_range;
          IntoIter has no Drop of its own and exactly one field, the buffer; Drain::drop obeys
          DRN1(d,e); From<[T;M]> passes both the prefix destruction and the disarming
Not decided: that the ranges handed to drop_range / drop_in_place / ptr::copy are the right ones.
"""
from .. import common, effects, guards, mir, occ, tables
from ..report import short_loc
from . import c05, c06

QUICK = ["default"]
THOROUGH = ["default", "nostd", "alloc", "unstable", "eio_both", "eio_both_nostd", "eio", "eioa"]

EXPLANATION = (
    "Decides the structural part of exactly-once destruction: (1) only the reviewed, closed set of functions can "
    "destroy, bit-copy, move out or disarm elements or contains unsafe code at all (everything else is safe code "
    "over T, for which the language guarantees exactly-once); (2) in those functions every move-out is paired with "
    "the size decrease and every size increase with the slot write, with no user code in between, slots are written "
    "only when size already covers them, and every public entry returns in the balanced state; (3) the owners "
    "(buffer, IntoIter, Drain, From<[T;M]>) destroy what they still hold. Does NOT decide that the slot ranges "
    "computed for drop_range/drop_in_place/ptr::copy are the right ones (value-level)."
)

BITCOPY_FNS = {
    "core::mem::maybe_uninit::MaybeUninit::assume_init_read", "core::mem::maybe_uninit::MaybeUninit::assume_init",
    "core::ptr::read", "<*const T>::read", "<*mut T>::read", "core::ptr::copy", "core::ptr::copy_nonoverlapping",
    "<*const T>::copy_to", "<*mut T>::copy_to", "<*mut T>::copy_from", "<*const T>::copy_to_nonoverlapping",
    "<*mut T>::copy_from_nonoverlapping", "core::ptr::swap_nonoverlapping", "core::ptr::swap", "core::mem::swap",
    "core::mem::replace", "core::mem::take", "<[T]>::rotate_left", "<[T]>::rotate_right", "<[T]>::swap",
    "<[T]>::copy_from_slice", "<[T]>::copy_within", "<[T]>::swap_with_slice", "<[T]>::reverse", "core::ptr::write",
    "<*mut T>::write", "core::ptr::replace", "<*mut T>::replace", "<*mut T>::swap", "core::mem::transmute",
    "core::mem::transmute_copy", "core::intrinsics::transmute", "core::ptr::read_unaligned", "core::ptr::read_volatile",
    "<[T]>::fill", "<[T]>::fill_with", "<[T]>::clone_from_slice", "core::mem::zeroed",
}


def _carries_T(argstr):
    """does a generic argument denote element values (T or MaybeUninit<T>, possibly in an array /
    slice)? references to slices (`&mut [T]`) and plain integers do not"""
    a = argstr.strip()
    if a.startswith("&") or a.startswith("*"):
        return False
    return effects._mentions_param(a) or "MaybeUninit<" in a and effects._mentions_param(a.replace("MaybeUninit", ""))


def bitcopy_sites(f):
    out = []
    for b, t in f.calls(True):
        p = mir.callee_path(t)
        if p in BITCOPY_FNS:
            fn = mir.callee_of(t)
            args = fn.get("rargs") or fn.get("args") or []
            if any(_carries_T(a) for a in args):
                # constructing an uninitialised array moves no element
                if p.endswith("MaybeUninit::assume_init") and args and args[0].startswith("["):
                    continue
                out.append((b, p.split("::")[-1] if not p.startswith("<") else p))
    for b, i, st, is_term in f.positions(True):
        if not is_term and st["k"] == "copy_nonoverlapping":
            out.append((b, "copy_nonoverlapping"))
    return out


def run(ctx, progs):
    ctx.explanation = EXPLANATION
    ctx.rule("WHO1", "closed tables: destructor sites, bit-copy/move-out sites, forget/ManuallyDrop sites, unsafe-containing functions")
    ctx.rule("OCC", "M..B- / B+..A pairing, no user code in between, balanced returns, writes only in size-ahead")
    ctx.rule("VIEWCMP1", "the pieces handed to the destructors: contiguous only when lower < upper strictly, split only when upper <= lower")
    ctx.rule("OWNER1", "buffer Drop reaches drop_range; IntoIter has only the buffer; Drain::drop DRN1; From passes destroy + disarm")
    for cfg, prog in progs.items():
        c05.dtor_table(ctx, prog, cfg)
        who1_bitcopy(ctx, prog, cfg)
        who1_unsafe(ctx, prog, cfg)
        c06.leak1(ctx, prog, cfg)
        occ_c03(ctx, prog, cfg)
        owner1(ctx, prog, cfg)


def who1_bitcopy(ctx, prog, cfg):
    found = {}
    for f in prog.fns.values():
        s = bitcopy_sites(f)
        if s:
            found[f.short] = s
    total = 0
    for short, sites in sorted(found.items()):
        ent = tables.BITCOPIES_T.get(short)
        total += len(sites)
        ctx.check(ent is not None and len(sites) <= ent[0], "WHO1", short, "bit-copy/move-out x%d" % len(sites), prog.fns[short].loc,
                  "`%s` bit-copies or moves elements out of storage (%s)%s: an element can be duplicated or lost without the "
                  "type system noticing, and this function's bookkeeping has not been reviewed"
                  % (short, ", ".join(sorted({x for _, x in sites})),
                     " — %d site(s), reviewed %d" % (len(sites), ent[0]) if ent else " but is not in the reviewed table"),
                  "reviewed (%d site(s) max): %s" % (ent[0], ent[1]) if ent else "", cfg)
    ctx.floor("WHO1", "bit-copy sites", total, 12, cfg)


def who1_unsafe(ctx, prog, cfg):
    n = 0
    for f in sorted(prog.fns.values(), key=lambda x: x.short):
        ub = f.rec.get("unsafe_blocks", 0)
        uf = f.rec.get("sig", {}).get("unsafe", False)
        if not ub and not uf:
            continue
        n += 1
        key = f.short
        if f.is_closure():
            key = f.rec.get("enclosing_fn", f.short)  # closures are reviewed with their enclosing function
        ent = tables.UNSAFE_FNS.get(key)
        ctx.check(ent is not None, "WHO1", f.short, "contains unsafe", f.loc,
                  "`%s` contains `unsafe` code (%d block(s)%s) but is not in the reviewed table of unsafe-containing "
                  "functions: the exactly-once argument for safe code does not cover it"
                  % (f.short, ub, ", unsafe fn" if uf else ""),
                  "reviewed: %s" % (ent or ""), cfg)
    ctx.floor("WHO1", "unsafe-containing functions", n, 28, cfg)


def occ_c03(ctx, prog, cfg):
    c06.run_occ(ctx, prog, cfg, "OCC")
    O = occ.Occ(prog)
    for f in c06.occ_scope(prog):
        O.transfer(f.short, occ.BAL)
    fns_with_events = {e[0] for e in O.slot_events}
    ctx.floor("OCC", "functions with slot events", len(fns_with_events), 7, cfg)
    for (short, b, ev, pre, callee) in sorted(O.slot_events):
        f = prog.fns[short]
        if ev == "A" and not occ.is_guard_fn(f) and callee == "MaybeUninit::write":
            ctx.check(pre == occ.SIZE, "OCC", short, "iv:slot write in state %s" % pre, short_loc(f, b),
                      "MaybeUninit::write on buffer storage in state `%s`: the slot is not known to be vacant-but-counted; "
                      "writing over a live element leaks it, writing an uncounted slot loses the new element" % pre,
                      "slot written in state size-ahead (size was increased first)", cfg)
        elif ev == "M":
            ctx.check(pre == occ.BAL, "OCC", short, "iv:move-out in state %s" % pre, short_loc(f, b),
                      "an element is moved out of storage in state `%s`" % pre,
                      "move-out in state balanced, followed by the size decrease (checked at return)", cfg)


def owner1(ctx, prog, cfg):
    eff = effects.get(prog)
    d = ctx.need_fn(prog, "<CircularBuffer<N, T> as Drop>::drop", "OWNER1")
    if d is not None:
        reach = eff.closure(d.short)
        ctx.check("CircularBuffer::drop_range" in reach, "OWNER1", d.short, "reaches drop_range", d.loc,
                  "dropping the buffer no longer reaches drop_range: live elements are leaked when the buffer goes away",
                  "call-graph path " + " -> ".join([d.short] + [p[3] for p in (eff.find_path(d.short, lambda x: x == "CircularBuffer::drop_range") or [])]), cfg)
        # must-pass: every normal path through drop() calls something that reaches drop_range
        cb = [b for b, t in d.calls(False) if mir.is_local_callee(t) and "CircularBuffer::drop_range" in eff.closure(mir.callee_short(t))]
        ctx.check(bool(cb) and d.must_pass(None, cb, set(d.return_blocks())), "OWNER1", d.short, "every path destroys", d.loc,
                  "a path through Drop::drop returns without calling the element-destroying chain",
                  "every return passes bb%s" % cb, cfg)
        # ... and on that chain each callee passes it unconditionally up to the guarded primitive
    # IntoIter
    ii = prog.adts.get("IntoIter")
    if ii is None:
        ctx.violate("OWNER1", "IntoIter", "anchor-missing", "?", "IntoIter type not found", cfg)
    else:
        fields = ii["fields"]
        ok = len(fields) == 1 and "CircularBuffer<" in fields[0]["ty"] and not ii.get("has_dtor")
        ctx.check(ok, "OWNER1", "IntoIter", "single buffer field, no Drop impl", ii["loc"],
                  "IntoIter has fields %s and %s: its drop glue is no longer simply the buffer's, remaining elements may "
                  "be leaked or destroyed twice" % ([f["name"] + ": " + f["ty"] for f in fields], "a manual Drop impl" if ii.get("has_dtor") else "no Drop impl"),
                  "one field `inner: CircularBuffer<N, T>`, no Drop impl", cfg)
    c05.drn1_de(ctx, prog, cfg)
    c05.shrink1(ctx, prog, cfg, "OWNER1")
    c05.destroy1(ctx, prog, cfg, "OWNER1")
    from . import c08

    c08.iterset1(ctx, prog, cfg, "OWNER1", types=("Drain", "IntoIter"))
    from .. import drainrules

    drainrules.drnview1(ctx, prog, cfg, "OWNER1")
    drainrules.backfill2(ctx, prog, cfg, "OWNER1")
    # while a Drain exists the header claims nothing: a leaked drain cannot make the buffer destroy yielded elements again
    drainrules.drn1_abcf(ctx, prog, cfg, "OWNER1")
    # each element is moved out at most once: what next/next_back hand out is read(i) for exactly the index the
    # range iterator just produced, and the drain's index iterator is advanced by nothing else
    drainrules.drainit1(ctx, prog, cfg, "OWNER1")
    # the slot ranges handed to the destructors: the un-yielded views of a drain and drop_range's two pieces
    from .. import shapes

    shapes.viewcmp1(ctx, prog, cfg, groups=[["Drain::as_slices", "Drain::as_mut_slices"], ["CircularBuffer::drop_range"]])
    from .. import lenrule as _lr

    _lr.view2(ctx, prog, cfg, only=("Drain::as_slices", "Drain::as_mut_slices", "CircularBuffer::drop_range"))
    owner1_from(ctx, prog, cfg, "OWNER1")
    from . import c12 as _c12

    _c12.fromarr2(ctx, prog, cfg, "OWNER1")
    from .. import geom

    geom.remove2(ctx, prog, cfg, "OWNER1")


def owner1_from(ctx, prog, cfg, RULE):
    # From<[T; M]>
    f = ctx.need_fn(prog, "<CircularBuffer<N, T> as From<[T; M]>>::from", RULE)
    if f is not None:
        rets = set(f.return_blocks())
        dips = [b for b, t in f.calls(False) if mir.callee_path(t) == common.DROP_IN_PLACE]
        disarm = [b for b, t in f.calls(False) if mir.callee_path(t) in (common.MEM_FORGET, "core::mem::manually_drop::ManuallyDrop::new")]
        copies = [b for b, t in f.calls(False) if mir.callee_path(t) in ("core::ptr::copy_nonoverlapping", "core::ptr::copy")] + \
                 [b for b, i, st, is_term in f.positions(False) if not is_term and st["k"] == "copy_nonoverlapping"]
        ctx.check(bool(dips) and f.must_pass(None, dips, rets), RULE, f.short, "prefix destroyed on every path", f.loc,
                  "a path through From<[T; M]>::from returns without destroying the array elements that do not fit: they are leaked",
                  "every return passes drop_in_place in bb%s" % dips, cfg)
        ctx.check(bool(disarm) and f.must_pass(None, disarm, rets), RULE, f.short, "array disarmed on every path", f.loc,
                  "a path through From<[T; M]>::from returns with the source array still armed: the elements moved into the "
                  "buffer are destroyed a second time when the array goes out of scope",
                  "every return passes forget/ManuallyDrop::new in bb%s" % disarm, cfg)
        ctx.check(bool(copies) and f.must_pass(None, copies, rets), RULE, f.short, "elements copied on every path", f.loc,
                  "a path returns a buffer with size > 0 without having copied the elements in",
                  "every return passes the bit-copy in bb%s" % copies, cfg)
