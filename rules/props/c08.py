"""C08 — borrowing and owning iterators obey the double-ended exact-size protocol.

  TWIN    Iter vs IterMut where the mutable form has no rule of its own: empty, new, over_range,
          advance_front_by, advance_back_by (5 pairs) and the helper pairs slice_take /
          slice_take_first / slice_take_last vs their _mut forms (3 pairs)            [twin]
  ESI1    size_hint = (len, Some(len)) of one len() call; len = right.len() + left.len() (resp.
          inner.len()); next takes from `right` then `left`, next_back from `left` then `right`
  CLONE1  Iter::clone copies right<-right, left<-left; DEFAULT1 default() = empty() with two empty
          slices
  INTO1   IntoIter::next = inner.pop_front(), next_back = inner.pop_back(), len = inner.len();
          into_iter stores the buffer as IntoIter's only field
  RANGE1  the three range entry points validate through translate_range_bounds, whose arms
          translate every Bound kind as documented
Not decided: which elements are selected and in which order (advance_*_by arithmetic), Fused
behaviour (values).
"""
from .. import drainrules, mir, shapes
from ..report import short_loc

QUICK = ["default"]
THOROUGH = ["default", "nostd", "alloc", "unstable", "eio_both", "eio_both_nostd", "eio", "eioa"]

EXPLANATION = (
    "Decides agreement between the iterator implementations where they are meant to be the same algorithm (8 TWIN "
    "pairs: the constructors, over_range, advance_*_by and the slice_take helpers), that len/size_hint are computed from both remaining slices (ESI1), that front "
    "consumption takes from `right` then `left` and back consumption from `left` then `right`, that a cloned Iter copies "
    "both fields and default iterators are empty, that IntoIter is exactly pop_front/pop_back/len of the buffer it owns, "
    "and that every RangeBounds form is translated as documented. Does NOT decide the selection arithmetic of "
    "advance_front_by/advance_back_by nor element order (values)."
)

I, M = "Iter", "IterMut"
PAIRS = [
    ("Iter::empty", "IterMut::empty"), ("Iter::new", "IterMut::new"), ("Iter::over_range", "IterMut::over_range"),
    ("Iter::advance_front_by", "IterMut::advance_front_by"), ("Iter::advance_back_by", "IterMut::advance_back_by"),
    # next / next_back / len / size_hint / default of both types are decided one by one (ESI1, DEFAULT1): a
    # sibling comparison would add nothing there except an alarm when only one of the two is re-spelled
    ("slice_take", "slice_take_mut"), ("slice_take_first", "slice_take_first_mut"), ("slice_take_last", "slice_take_last_mut"),
]


def run(ctx, progs):
    ctx.explanation = EXPLANATION
    for r, t in (("TWIN", "Iter/IterMut and helper pairs equal modulo mutability [twin]"),
                 ("ESI1", "len/size_hint/next shapes"), ("CLONE1", "Iter::clone field-for-field"), ("DEFAULT1", "default = empty"),
                 ("INTO1", "IntoIter = pop_front/pop_back/len of the owned buffer"), ("RANGE1", "bound translation"),
                 ("ITERSET1", "the iterator types implement exactly the reviewed iterator methods (no second implementation of the iteration order)")):
        ctx.rule(r, t)
    for cfg, prog in progs.items():
        for a, b in PAIRS:
            shapes.twin(ctx, "TWIN", prog, a, b, cfg, what="the shared and the mutable form of one algorithm")
        esi1(ctx, prog, cfg)
        iterset1(ctx, prog, cfg)
        into1(ctx, prog, cfg)
        drainrules.range1(ctx, prog, cfg)


def esi1(ctx, prog, cfg):
    mm = shapes.must_match
    for ty in ("Iter<T>", "IterMut<T>"):
        sfx = "_mut" if ty.startswith("IterMut") else ""
        mm(ctx, "ESI1", prog, "<%s as ExactSizeIterator>::len" % ty,
           [r"return Add\(<\[T\]>::len\(\(\*self\)\.left\), <\[T\]>::len\(\(\*self\)\.right\)\)"], cfg, "len = right.len() + left.len()",
           "`len` of %s does not count both remaining slices: it no longer equals the number of elements not yet produced" % ty)
        ln = r"<%s as ExactSizeIterator>::len\(self\)" % ty.replace("<", "<").replace(">", ">")
        mm(ctx, "ESI1", prog, "<%s as Iterator>::size_hint" % ty,
           [r"call " + ln, r"return tuple::\{0: " + ln + r", 1: Option::Some\{0: " + ln + r"\}\}"], cfg, "size_hint = (len, Some(len))",
           "`size_hint` of %s is not `(len, Some(len))` of one `self.len()` call: the exact-size contract is broken" % ty)
        for meth, take, first, second, what in (
                ("<%s as Iterator>::next" % ty, "slice_take_first" + sfx, "right", "left", "next: first of right, else first of left"),
                ("<%s as DoubleEndedIterator>::next_back" % ty, "slice_take_last" + sfx, "left", "right", "next_back: last of left, else last of right")):
            first_then_second(ctx, prog, cfg, meth, take, first, second, what)
        mm(ctx, "DEFAULT1", prog, "<%s as Default>::default" % ty, [r"return %s::%s\{right: const, left: const\}" % (ty.split("<")[0], ty.split("<")[0])], cfg, "default() = empty()",
           "`default()` of %s is not `empty()`" % ty)
    mm(ctx, "CLONE1", prog, "<Iter<T> as Clone>::clone", [r"return Iter::Iter\{right: \(\*self\)\.right, left: \(\*self\)\.left\}"], cfg,
       "clone copies right<-right, left<-left", "`Iter::clone` does not copy both slice fields into the same positions: the clone does not continue from the same point")
    for name in ("Iter::empty", "IterMut::empty"):
        f = prog.fn(name)
        if f is None:
            ctx.violate("DEFAULT1", name, "anchor-missing", "?", "not found", cfg)
            continue
        ok = True
        for rb in f.return_blocks():
            e = f.return_expr(rb)
            if not (isinstance(e, tuple) and e[0] == "agg"):
                ok = False
                continue
            for fname, fe in e[3]:
                fe0 = fe
                # an unsizing of a zero-length array: ('unsize', _, '0') or a promoted constant of type &[T; 0]
                s = str(fe0)
                if not ("'0'" in s and "unsize" in s or "[T; 0]" in s):
                    ok = False
        ctx.check(ok, "DEFAULT1", name, "both fields are empty slices", f.loc,
                  "`%s` does not build both fields from zero-length arrays" % name, "right and left are unsizings of [T; 0]", cfg)


def first_then_second(ctx, prog, cfg, meth, take, first, second, what):
    """`take(&mut self.<first>)`, and only when that is None `take(&mut self.<second>)`; the result is returned unchanged.
    Two spellings are accepted: the if-let chain and `take(first).or_else(|| take(second))`."""
    f = ctx.need_fn(prog, meth, "ESI1")
    if f is None:
        return
    A = r"%s\(&self->%s\)" % (take, first)
    B = r"%s\(&self->%s\)" % (take, second)
    chain = [r"call " + A, r"guard discr\(%s\)" % A, r"return Option::Some\{0: %s as Some\.0\}" % A,
             r"call " + B, r"guard discr\(%s\)" % B, r"return Option::Some\{0: %s as Some\.0\}" % B, r"return Option::None\{\}"]
    orelse = [r"call " + A, r"call core::option::Option::or_else\(%s, \{closure#0\}::\{0: &self->%s\}\)" % (A, second),
              r"return Option::or_else\(%s, \{closure#0\}::\{0: &self->%s\}\)" % (A, second)]
    clos = [r"call %s\(_1\.0\)" % take, r"return %s\(_1\.0\)" % take]
    import re
    ev = shapes.events(f, guards=True)
    def m(pats, evs):
        return len(pats) == len(evs) and all(re.fullmatch(p, e) for p, e in zip(pats, evs))
    ok, by = m(chain, ev), "if-let chain"
    if not ok and m(orelse, ev):
        c = prog.fn(meth + "::{closure#0}")
        ok, by = c is not None and m(clos, shapes.events(c, guards=True)), "or_else closure"
    ctx.check(ok, "ESI1", meth, what, f.loc,
              "`%s` does not take from `%s` and only then from `%s`, returning what it took" % (meth, first, second),
              by + ": " + " ; ".join(e[:60] for e in ev), cfg, detail="\n".join("  " + e[:200] for e in ev[:10]))


def into1(ctx, prog, cfg):
    mm = shapes.must_match
    mm(ctx, "INTO1", prog, "<IntoIter<N, T> as Iterator>::next",
       [r"call CircularBuffer::pop_front\(&self->inner\)", r"return CircularBuffer::pop_front\(&self->inner\)"], cfg, "next = inner.pop_front()",
       "IntoIter::next is not `self.inner.pop_front()`")
    mm(ctx, "INTO1", prog, "<IntoIter<N, T> as DoubleEndedIterator>::next_back",
       [r"call CircularBuffer::pop_back\(&self->inner\)", r"return CircularBuffer::pop_back\(&self->inner\)"], cfg, "next_back = inner.pop_back()",
       "IntoIter::next_back is not `self.inner.pop_back()`")
    mm(ctx, "INTO1", prog, "<IntoIter<N, T> as ExactSizeIterator>::len",
       [r"return \(\*&self->inner\)\.size"], cfg, "len = inner.len()", "IntoIter::len is not `self.inner.len()`")
    mm(ctx, "INTO1", prog, "<IntoIter<N, T> as Iterator>::size_hint",
       [r"return tuple::\{0: \(\*&self->inner\)\.size, 1: Option::Some\{0: \(\*&self->inner\)\.size\}\}"], cfg,
       "size_hint = (len, Some(len))", "IntoIter::size_hint is not `(inner.len(), Some(inner.len()))`")
    mm(ctx, "INTO1", prog, "IntoIter::new", [r"return IntoIter::IntoIter\{inner: inner\}"], cfg, "stores the buffer", "IntoIter::new does not store its argument as `inner`")
    mm(ctx, "INTO1", prog, "<CircularBuffer<N, T> as IntoIterator>::into_iter", [r"return IntoIter::IntoIter\{inner: self\}"], cfg,
       "into_iter = IntoIter::new(self)", "into_iter does not move the buffer into the owning iterator")
    ii = prog.adts.get("IntoIter")
    ctx.check(ii is not None and len(ii["fields"]) == 1, "INTO1", "IntoIter", "no other state", ii["loc"] if ii else "?",
              "IntoIter has fields %s: extra state can desynchronise it from the buffer" % ([f["name"] for f in ii["fields"]] if ii else None),
              "single field `inner`", cfg)


ITER_TYPES = ("Iter", "IterMut", "IntoIter", "Drain")
ITER_METHODS = {
    "core::iter::traits::iterator::Iterator": {"next", "size_hint"},
    "core::iter::traits::double_ended::DoubleEndedIterator": {"next_back"},
    "core::iter::traits::exact_size::ExactSizeIterator": {"len"},
    "core::iter::traits::marker::FusedIterator": set(),
}


def iterset1(ctx, prog, cfg, rule="ITERSET1", types=ITER_TYPES):
    """Every provided iterator method that a type overrides (nth, fold, rfold, advance_by, last,
    count, ...) is a second implementation of the iteration order / element ownership that has to
    agree with next/next_back; the crate overrides none, and a new override is reported for review."""
    n = 0
    for imp in prog.impls:
        adt = (imp.get("self_adt") or "").split("::")[-1]
        tr = imp.get("trait")
        if adt not in types or tr not in ITER_METHODS:
            continue
        n += 1
        fns = {i["name"] for i in imp.get("items", []) if i.get("kind", "").startswith("Fn")}
        extra = fns - ITER_METHODS[tr]
        missing = ITER_METHODS[tr] - fns if tr != "core::iter::traits::iterator::Iterator" or adt else set()
        ctx.check(not extra, rule, adt, "%s methods" % tr.split("::")[-1], imp["loc"],
                  "`%s` overrides the provided iterator method(s) %s: a second implementation of the iteration protocol next to "
                  "next/next_back (skipped elements, order, exhaustion and ownership must all agree) that has not been reviewed"
                  % (adt, sorted(extra)), "implements exactly %s" % sorted(fns), cfg)
    ctx.floor(rule, "iterator trait impls", n, 3 * len(types), cfg)
