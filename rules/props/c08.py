"""C08 — borrowing and owning iterators obey the double-ended exact-size protocol.

  TWIN    Iter vs IterMut where the mutable form has no rule of its own: empty, new, over_range,
          advance_front_by, advance_back_by (5 pairs) and the helper pairs slice_take /
          slice_take_first / slice_take_last vs their _mut forms (3 pairs)            [twin]
  ESI1    size_hint = (len, Some(len)) of one len() call; len = right.len() + left.len() (resp.
          inner.len()); next takes from `right` then `left`, next_back from `left` then `right`
  CLONE1  Iter::clone copies right<-right, left<-left; DEFAULT1 default() = empty() with two empty
          slices
  INTO1   IntoIter::next = inner.pop_front(), next_back = inner.pop_back(), len = inner.len();
          into_iter stores the buffer as IntoIter's only field
  RANGE1  the three range entry points validate through translate_range_bounds, whose arms
          translate every Bound kind as documented
Not decided: which elements are selected and in which order (advance_*_by arithmetic), Fused
behaviour (values).
"""
from .. import drainrules, mir, shapes
from ..report import short_loc

QUICK = ["default"]
THOROUGH = ["default", "nostd", "alloc", "unstable", "eio_both", "eio_both_nostd", "eio", "eioa"]

EXPLANATION = (
    "Decides agreement between the iterator implementations where they are meant to be the same algorithm (8 TWIN "
    "pairs: the constructors, over_range, advance_*_by and the slice_take helpers), that len/size_hint are computed from both remaining slices (ESI1), that front "
    "consumption takes from `right` then `left` and back consumption from `left` then `right`, that a cloned Iter copies "
    "both fields and default iterators are empty, that IntoIter is exactly pop_front/pop_back/len of the buffer it owns, "
    "and that every RangeBounds form is translated as documented. Does NOT decide the selection arithmetic of "
    "advance_front_by/advance_back_by nor element order (values)."
)

I, M = "Iter", "IterMut"
PAIRS = [
    ("Iter::empty", "IterMut::empty"), ("Iter::new", "IterMut::new"), ("Iter::over_range", "IterMut::over_range"),
    ("Iter::advance_front_by", "IterMut::advance_front_by"), ("Iter::advance_back_by", "IterMut::advance_back_by"),
    # next / next_back / len / size_hint / default of both types are decided one by one (ESI1, DEFAULT1): a
    # sibling comparison would add nothing there except an alarm when only one of the two is re-spelled
    ("slice_take", "slice_take_mut"), ("slice_take_first", "slice_take_first_mut"), ("slice_take_last", "slice_take_last_mut"),
]


def run(ctx, progs):
    ctx.explanation = EXPLANATION
    for r, t in (("TWIN", "Iter/IterMut and helper pairs equal modulo mutability [twin]"),
                 ("ESI1", "len/size_hint/next shapes"), ("CLONE1", "Iter::clone field-for-field"), ("DEFAULT1", "default = empty"),
                 ("INTO1", "IntoIter = pop_front/pop_back/len of the owned buffer"), ("RANGE1", "bound translation"),
                 ("ITERSET1", "the iterator types implement exactly the reviewed iterator methods (no second implementation of the iteration order)")):
        ctx.rule(r, t)
    ctx.rule("ITERAGG1", "every Iter/IterMut is built from (first, second) of one view or (right, left) of one iterator")
    for cfg, prog in progs.items():
        iteragg1(ctx, prog, cfg)
        for a, b in PAIRS:
            shapes.twin(ctx, "TWIN", prog, a, b, cfg, what="the shared and the mutable form of one algorithm")
        esi1(ctx, prog, cfg)
        iterset1(ctx, prog, cfg)
        into1(ctx, prog, cfg)
        drainrules.range1(ctx, prog, cfg)


def esi1(ctx, prog, cfg):
    mm = shapes.must_match
    for ty in ("Iter<T>", "IterMut<T>"):
        sfx = "_mut" if ty.startswith("IterMut") else ""
        mm(ctx, "ESI1", prog, "<%s as ExactSizeIterator>::len" % ty,
           [r"return Add\(<\[T\]>::len\(\(\*self\)\.left\), <\[T\]>::len\(\(\*self\)\.right\)\)"], cfg, "len = right.len() + left.len()",
           "`len` of %s does not count both remaining slices: it no longer equals the number of elements not yet produced" % ty)
        size_hint_rule(ctx, prog, cfg, "ESI1", ty, "`size_hint` of %s is not `(len, Some(len))`: the exact-size contract is broken" % ty)
        for meth, take, first, second, what in (
                ("<%s as Iterator>::next" % ty, "slice_take_first" + sfx, "right", "left", "next: first of right, else first of left"),
                ("<%s as DoubleEndedIterator>::next_back" % ty, "slice_take_last" + sfx, "left", "right", "next_back: last of left, else last of right")):
            first_then_second(ctx, prog, cfg, meth, take, first, second, what)
        mm(ctx, "DEFAULT1", prog, "<%s as Default>::default" % ty, [r"return %s::%s\{right: const, left: const\}" % (ty.split("<")[0], ty.split("<")[0])], cfg, "default() = empty()",
           "`default()` of %s is not `empty()`" % ty)
    mm(ctx, "CLONE1", prog, "<Iter<T> as Clone>::clone", [r"return Iter::Iter\{right: \(\*self\)\.right, left: \(\*self\)\.left\}"], cfg,
       "clone copies right<-right, left<-left", "`Iter::clone` does not copy both slice fields into the same positions: the clone does not continue from the same point")
    for name in ("Iter::empty", "IterMut::empty"):
        f = prog.fn(name)
        if f is None:
            ctx.violate("DEFAULT1", name, "anchor-missing", "?", "not found", cfg)
            continue
        ok = True
        for rb in f.return_blocks():
            e = f.return_expr(rb)
            if not (isinstance(e, tuple) and e[0] == "agg"):
                ok = False
                continue
            for fname, fe in e[3]:
                fe0 = fe
                # an unsizing of a zero-length array: ('unsize', _, '0') or a promoted constant of type &[T; 0]
                s = str(fe0)
                if not ("'0'" in s and "unsize" in s or "[T; 0]" in s):
                    ok = False
        ctx.check(ok, "DEFAULT1", name, "both fields are empty slices", f.loc,
                  "`%s` does not build both fields from zero-length arrays" % name, "right and left are unsizings of [T; 0]", cfg)


def first_then_second(ctx, prog, cfg, meth, take, first, second, what):
    """A = take(&mut self.<first>) is evaluated exactly once, unconditionally; B = take(&mut self.<second>) at most
    once and only where the facts say A is None (directly, or as the closure of `A.or_else(..)`); every returned
    value is A or B passed on unchanged: `Some(X.0)` where X is Some, `None` where B is None, X itself, or
    `A.or_else(|| B)`. Decided from the facts at the return sites, whatever the spelling (if-let chain, match,
    combinator)."""
    from .. import common, guards

    f = ctx.need_fn(prog, meth, "ESI1")
    if f is None:
        return
    why = []

    def is_take(e, fld):
        e = mir.strip_casts(e)
        if not (isinstance(e, tuple) and e[:2] == ("call", take) and len(e[2]) == 1):
            return False
        a = mir.strip_casts(e[2][0])
        return isinstance(a, tuple) and a[0] == "ref" and isinstance(a[1], tuple) and a[1][0] == "place" and a[1][1] == ("param", 1) and tuple(a[1][2]) == (fld,)

    callsA = [b for b, t_ in f.calls_to(take, unwind=False) if is_take(f.deep_simplify(f.call_expr(b)), first)]
    callsB = [b for b, t_ in f.calls_to(take, unwind=False) if is_take(f.deep_simplify(f.call_expr(b)), second)]
    other = [mir.callee_path(t_) for b, t_ in f.calls(False) if b not in callsA and b not in callsB and mir.callee_path(t_) != "core::option::Option::or_else"]
    if other:
        why.append("also calls %s" % other[:3])
    G = guards.Guards(f)
    if len(callsA) != 1 or any(not f.dominates(callsA[0], rb, False) for rb in f.return_blocks()):
        why.append("`%s(&mut self.%s)` is not evaluated exactly once on every path" % (take, first))
    else:
        A = f.deep_simplify(f.call_expr(callsA[0]))

        def variant_known(b, X, v):
            return any(a_[0] == "is" and a_[1] == X and a_[2] == v for a_ in G.facts_at(b)) or \
                any(a_[0] == "isnot" and a_[1] == X and a_[2] == 1 - v for a_ in G.facts_at(b))

        Bx = None
        if len(callsB) > 1:
            why.append("`%s(&mut self.%s)` is called %d times" % (take, second, len(callsB)))
        elif callsB:
            Bx = f.deep_simplify(f.call_expr(callsB[0]))
            if not variant_known(callsB[0], A, 0):
                why.append("`%s` is taken from where `%s` is not known to be exhausted" % (second, first))
        seen_second = False
        for (b, i_, k, payload) in common.ret_assignments(f):
            if k == "call":
                p_ = mir.callee_path(payload)
                if b in callsB:
                    seen_second = True
                    continue
                if p_ == "core::option::Option::or_else":
                    a = [f.deep_simplify(x) for x in f.call_args(b)]
                    c = prog.fn(meth + "::{closure#0}")
                    okc = mir.strip_casts(a[0]) == A and c is not None
                    if okc:
                        cap = mir.fmt(a[1], f)
                        cc = [(cb, ct) for cb, ct in c.calls(False)]
                        okc = ("&self->%s" % second) in cap and len(cc) == 1 and mir.callee_short(cc[0][1]) == take and \
                            mir.fmt(c.deep_simplify(c.call_args(cc[0][0])[0]), c) in ("_1.0", "(*_1).0") and \
                            [mir.strip_casts(c.deep_simplify(c.return_expr(rb)))[:2] for rb in c.return_blocks()] == [("call", take)]
                    if not okc:
                        why.append("`or_else` is not `A.or_else(|| %s(&mut self.%s))`" % (take, second))
                    seen_second = True
                    continue
                why.append("returns the result of `%s`" % p_)
                continue
            v = common.variant_of_rv(payload)
            e = mir.strip_casts(f.deep_simplify(f.rvalue_expr(payload, b, i_)))
            if v is not None and v[0] == "Some":
                x = mir.strip_casts(dict(e[3]).get("0")) if isinstance(e, tuple) and e[0] == "agg" else None
                src = x[1][1] if isinstance(x, tuple) and x[0] == "field" and x[2] == "0" and isinstance(x[1], tuple) and x[1][0] == "as" and x[1][2] == "Some" else None
                if src == A and variant_known(b, A, 1):
                    continue
                if Bx is not None and src == Bx and variant_known(b, Bx, 1):
                    seen_second = True
                    continue
                why.append("returns Some(`%s`), which is not the element just taken" % mir.fmt(x, f)[:60])
            elif v is not None and v[0] == "None":
                if Bx is not None and variant_known(b, Bx, 0):
                    seen_second = True
                    continue
                why.append("returns None without `%s` being exhausted too" % second)
            elif e == A and variant_known(b, A, 1):
                continue  # A passed on whole where it is Some
            elif Bx is not None and e == Bx:
                seen_second = True  # B passed on whole (it is evaluated only where A is None)
                continue
            else:
                why.append("returns `%s`" % mir.fmt(e, f)[:60])
        if not seen_second and not why:
            why.append("never falls back to `%s`" % second)
    ctx.check(not why, "ESI1", meth, what, f.loc,
              "`%s` does not take from `%s` and only then from `%s`, returning what it took: %s" % (meth, first, second, "; ".join(why)),
              "A = %s(%s) once; %s only where A is None; returns A / B unchanged" % (take, first, second), cfg)


def size_hint_rule(ctx, prog, cfg, rule, ty, msg):
    """size_hint = (L, Some(L)) where L is this type's own exact length: a call of its ExactSizeIterator::len(self), or
    the very expression that `len` returns"""
    f = ctx.need_fn(prog, "<%s as Iterator>::size_hint" % ty, rule)
    ln = ctx.need_fn(prog, "<%s as ExactSizeIterator>::len" % ty, rule)
    if f is None or ln is None:
        return
    from .. import skeleton

    lret = [skeleton.canon(ln.deep_simplify(ln.return_expr(rb)), lambda s: s, 1) for rb in ln.return_blocks()]
    ok, why = len(f.return_blocks()) == 1 and len(lret) == 1, "return sites"
    if ok:
        e = mir.strip_casts(f.deep_simplify(f.return_expr(f.return_blocks()[0])))
        ok = isinstance(e, tuple) and e[0] == "agg" and e[1] == "tuple" and len(e[3]) == 2
        if ok:
            lo = mir.strip_casts(e[3][0][1])
            hi = mir.strip_casts(e[3][1][1])
            hi_in = mir.strip_casts(dict(hi[3]).get("0")) if isinstance(hi, tuple) and hi[0] == "agg" and hi[2] == "Some" else None

            def is_len(x):
                if isinstance(x, tuple) and x[:2] == ("call", ln.short) and mir.strip_casts(x[2][0]) == ("param", 1):
                    return True
                return skeleton.canon(x, lambda s: s, 1) == lret[0]
            ok = is_len(lo) and hi_in is not None and is_len(hi_in)
            why = "(%s, %s)" % (mir.fmt(lo, f)[:50], mir.fmt(hi, f)[:60])
    ctx.check(ok, rule, f.short, "size_hint = (len, Some(len))", f.loc, msg + " (%s)" % why, "both bounds are this iterator's exact length", cfg)


def into1(ctx, prog, cfg):
    mm = shapes.must_match
    mm(ctx, "INTO1", prog, "<IntoIter<N, T> as Iterator>::next",
       [r"call CircularBuffer::pop_front\(&self->inner\)", r"return CircularBuffer::pop_front\(&self->inner\)"], cfg, "next = inner.pop_front()",
       "IntoIter::next is not `self.inner.pop_front()`")
    mm(ctx, "INTO1", prog, "<IntoIter<N, T> as DoubleEndedIterator>::next_back",
       [r"call CircularBuffer::pop_back\(&self->inner\)", r"return CircularBuffer::pop_back\(&self->inner\)"], cfg, "next_back = inner.pop_back()",
       "IntoIter::next_back is not `self.inner.pop_back()`")
    mm(ctx, "INTO1", prog, "<IntoIter<N, T> as ExactSizeIterator>::len",
       [r"return \(\*&self->inner\)\.size"], cfg, "len = inner.len()", "IntoIter::len is not `self.inner.len()`")
    size_hint_rule(ctx, prog, cfg, "INTO1", "IntoIter<N, T>", "IntoIter::size_hint is not `(inner.len(), Some(inner.len()))`")
    mm(ctx, "INTO1", prog, "IntoIter::new", [r"return IntoIter::IntoIter\{inner: inner\}"], cfg, "stores the buffer", "IntoIter::new does not store its argument as `inner`")
    mm(ctx, "INTO1", prog, "<CircularBuffer<N, T> as IntoIterator>::into_iter", [r"return IntoIter::IntoIter\{inner: self\}"], cfg,
       "into_iter = IntoIter::new(self)", "into_iter does not move the buffer into the owning iterator")
    ii = prog.adts.get("IntoIter")
    ctx.check(ii is not None and len(ii["fields"]) == 1, "INTO1", "IntoIter", "no other state", ii["loc"] if ii else "?",
              "IntoIter has fields %s: extra state can desynchronise it from the buffer" % ([f["name"] for f in ii["fields"]] if ii else None),
              "single field `inner`", cfg)


ITER_TYPES = ("Iter", "IterMut", "IntoIter", "Drain")
ITER_METHODS = {
    "core::iter::traits::iterator::Iterator": {"next", "size_hint"},
    "core::iter::traits::double_ended::DoubleEndedIterator": {"next_back"},
    "core::iter::traits::exact_size::ExactSizeIterator": {"len"},
    "core::iter::traits::marker::FusedIterator": set(),
}


def iterset1(ctx, prog, cfg, rule="ITERSET1", types=ITER_TYPES):
    """Every provided iterator method that a type overrides (nth, fold, rfold, advance_by, last,
    count, ...) is a second implementation of the iteration order / element ownership that has to
    agree with next/next_back; the crate overrides none, and a new override is reported for review."""
    n = 0
    for imp in prog.impls:
        adt = (imp.get("self_adt") or "").split("::")[-1]
        tr = imp.get("trait")
        if adt not in types or tr not in ITER_METHODS:
            continue
        n += 1
        fns = {i["name"] for i in imp.get("items", []) if i.get("kind", "").startswith("Fn")}
        extra = fns - ITER_METHODS[tr]
        missing = ITER_METHODS[tr] - fns if tr != "core::iter::traits::iterator::Iterator" or adt else set()
        ctx.check(not extra, rule, adt, "%s methods" % tr.split("::")[-1], imp["loc"],
                  "`%s` overrides the provided iterator method(s) %s: a second implementation of the iteration protocol next to "
                  "next/next_back (skipped elements, order, exhaustion and ownership must all agree) that has not been reviewed"
                  % (adt, sorted(extra)), "implements exactly %s" % sorted(fns), cfg)
    ctx.floor(rule, "iterator trait impls", n, 3 * len(types), cfg)


def iteragg1(ctx, prog, cfg, rule="ITERAGG1"):
    """Every `Iter { right, left }` / `IterMut { right, left }` built anywhere in the crate takes its two halves, in order,
    from one source: (first, second) of one two-slice view call, (right, left) of one iterator value, or two empty
    slices. An iterator assembled from the same half twice, or from the halves swapped, shows a different sequence (or
    count) than the one it stands for — in Debug output as much as in iteration."""
    n = 0
    for f in prog.fns.values():
        if not f.has_mir:
            continue
        for b, i, st, is_term in f.positions(False):
            if is_term or st["k"] != "assign" or st["rv"]["k"] != "aggregate":
                continue
            adt = st["rv"].get("adt", "")
            if not (adt.endswith("::Iter") or adt.endswith("::IterMut")):
                continue
            n += 1
            e = f.deep_simplify(f.rvalue_expr(st["rv"], b, i))
            d = dict(e[3]) if isinstance(e, tuple) and e and e[0] == "agg" else {}
            r, l = mir.strip_casts(d.get("right")), mir.strip_casts(d.get("left"))

            def through(x):
                for _ in range(4):
                    if isinstance(x, tuple) and x and x[0] == "ref" and isinstance(x[1], tuple) and x[1][0] == "local" and len(x[1]) > 2:
                        x = mir.strip_casts(x[1][2])
                    elif isinstance(x, tuple) and x and x[0] == "call" and len(x) > 2 and len(x[2]) == 1 and str(x[1]).split("::")[-1] in ("deref", "deref_mut", "as_ref", "as_mut"):
                        x = mir.strip_casts(x[2][0])
                    else:
                        break
                return x

            r, l = through(r), through(l)

            def is_empty(x):
                return isinstance(x, tuple) and x and ((x[0] == "unsize" and str(x[2]) == "0") or x[0] == "const")

            ok, by = False, ""
            if is_empty(r) and is_empty(l):
                ok, by = True, "two empty slices"
            elif isinstance(r, tuple) and isinstance(l, tuple) and r[:1] == ("field",) and l[:1] == ("field",) and r[1] == l[1] and (r[2], l[2]) == ("0", "1") \
                    and isinstance(r[1], tuple) and r[1][:1] in (("call",), ("phi",)):
                ok, by = True, "(first, second) of one `%s`" % (r[1][1] if r[1][0] == "call" else "joined pair")
            elif isinstance(r, tuple) and isinstance(l, tuple) and r[:1] == ("load",) and l[:1] == ("load",) and r[1] == l[1] and r[3][:1] == l[3][:1] == ("entry",) \
                    and (tuple(r[2]), tuple(l[2])) == (("right",), ("left",)):
                ok, by = True, "(right, left) of one iterator"
            elif isinstance(r, tuple) and isinstance(l, tuple) and r[:1] == ("field",) and l[:1] == ("field",) and r[1] == l[1] and (r[2], l[2]) == ("right", "left"):
                ok, by = True, "(right, left) of one iterator value"
            elif isinstance(r, tuple) and isinstance(l, tuple) and r[:1] == ("param",) and l[:1] == ("param",) and r != l:
                ok, by = True, "two slice parameters (the caller is judged where it builds them)"
            ctx.check(ok, rule, f.short, "%s built from (first, second) of one source" % adt.split("::")[-1], short_loc(f, b, i),
                      "`%s` builds an `%s` whose halves are `%s` and `%s`: not the first and the second piece of one view / one "
                      "iterator, in that order — the sequence (or just its length, for zero-sized elements) it shows is not the one it "
                      "stands for" % (f.short, adt.split("::")[-1], mir.fmt(r, f)[:60], mir.fmt(l, f)[:60]), by, cfg)
    ctx.floor(rule, "Iter/IterMut constructions", n, 7, cfg)
