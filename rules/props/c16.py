"""C16 — embedded-io(-async) impls behave exactly like the std::io impls.

  BUILD    the three feature sets (and both without std) type-check
  TWIN     for each of write, flush, read, fill_buf, consume: the event skeleton (ordered in-crate
           calls with argument provenance, the &[u8] reads, the branch conditions in canonical positive
           form, returned value) of the embedded_io impl
           and of the embedded_io_async impl equals that of the std::io impl, modulo the reviewed
           renaming {std::io::Read for &[u8] <-> embedded_io(_async)::Read for &[u8]; await
           scaffolding collapsed; io::Result <-> Result<_, Infallible>}     [twin]
  NOPEND1  async write/flush/fill_buf contain no Yield; read contains exactly two, each awaiting
           the &[u8] reader whose coroutine has no suspension point (3 states)
  ERR1     ErrorType::Error = core::convert::Infallible
  MOD1     no modulus by / index into capacity zero from the embedded entry points
"""
import json
import os

from .. import facts, mir, shared, skeleton
from ..report import short_loc

QUICK = ["eio_both"]
THOROUGH = ["eio_both", "eio", "eioa", "eio_both_nostd"]

EXPLANATION = (
    "Decides agreement between sibling implementations of one interface: each embedded-io and embedded-io-async "
    "method has the same ordered in-crate effects (extend_from_slice, as_slices, truncate_front, len, drain) with the "
    "same argument provenance and the same returned-value provenance as the std::io method, so it has the same effect "
    "on the buffer and returns the same counts, given that the external &[u8] readers agree (trusted; versions pinned "
    "and checked in Cargo.lock); async bodies cannot return Pending (no Yield, or Yields awaiting a coroutine with no "
    "suspension point); the error type is uninhabited. In configurations without std the std impl is not compiled, so "
    "the siblings are compared with the reference skeletons recorded from the eio_both configuration."
)

METHODS = {
    "write": ("Write", True), "flush": ("Write", True), "read": ("Read", True), "fill_buf": ("BufRead", True), "consume": ("BufRead", False),
}
PINNED = {"embedded-io": "0.6.1", "embedded-io-async": "0.6.1"}

READS = {
    "<&[u8] as std::io::Read>::read", "<&[u8] as embedded_io::Read>::read", "<&[u8] as embedded_io_async::Read>::read",
    "<&[u8] as std::Read>::read",
}
POLLS = {"<&[u8] as embedded_io_async::Read>::read::{closure#0}"}


def rename(name):
    if name in READS:
        return "SLICE_READ"
    if name in POLLS:
        return "@skip"
    if name in ("core::future::into_future::IntoFuture::into_future", "<F as IntoFuture>::into_future", "Pin::new_unchecked", "get_context",
                "core::pin::Pin::new_unchecked", "core::future::get_context", "<F as core::future::into_future::IntoFuture>::into_future"):
        return "@skip"
    return name


def rewrite_for(upvars):
    def rw(e, depth):
        # value of `fut.await`: payload of Poll::Ready of the polled reader
        if e[0] == "field" and e[2] == "0" and isinstance(e[1], tuple) and e[1][0] == "as" and e[1][2] == "Ready":
            return "READ_RESULT"
        # the result of a slice read nested inside another expression
        if e[0] == "call" and isinstance(e[1], str) and (e[1] in READS or "Read>::read" in e[1] and e[1].startswith("<&[u8]")) and depth > 1:
            return "READ_RESULT"
        # captured variables of an async body
        if upvars and e[0] == "field" and e[1] == ("param", 1) and e[2] in upvars:
            return upvars[e[2]]
        if upvars and e[0] == "load" and e[1] == ("param", 1) and len(e[2]) == 1 and e[2][0] in upvars:
            return upvars[e[2][0]]
        return None
    return rw


def skel(f, upvars=None):
    pname = (lambda n: f.local_name(n)) if not upvars else (lambda n: "state%d" % n)
    ev = skeleton.events(f, rename, rewrite=rewrite_for(upvars), pname=pname, guards=True)
    out = []
    for k, t in ev:
        if k == "yield":
            continue
        if k == "call" and (t.startswith("@skip") or t.startswith("<core::result::Result") and "branch" in t):
            continue
        if k == "guard" and out and out[-1] == (k, t):
            continue  # the `Poll::Ready` test of an await, right before the `?` test of the value it yields
        out.append((k, t))
    return out


def built_fn(prog, short):
    raw = prog.built.get(short)
    if raw is None:
        return None, None
    rec = {"short": short, "path": raw["path"], "kind": "Closure", "mir": raw["mir"], "loc": "src/embedded_io.rs"}
    f = mir.Fn(rec, prog)
    from .. import inline, known_fns

    f = inline.inline_into(prog, f, known_fns.KNOWN_FNS)
    from .. import desugar

    f = desugar.thread_fn(prog, f)
    upv = {}
    for u in raw["mir"].get("upvars", []):
        fields = [p for p in u["place"]["proj"] if p["k"] == "field"]
        if fields:
            upv[str(fields[0]["i"])] = u["name"]
            upv[fields[0]["name"]] = u["name"]
    return f, upv


REF_FILE = os.path.join(facts.VERIF, "rules", "io_reference_skeletons.json")


def run(ctx, progs):
    ctx.explanation = EXPLANATION
    ctx.rule("BUILD", "cargo check for embedded-io, embedded-io-async, both, both without std")
    ctx.rule("TWIN", "event skeleton of each embedded(-async) method == std::io method modulo the reviewed renaming [twin]")
    ctx.rule("NOPEND1", "no Yield, or Yield only on a reader coroutine with 3 states")
    ctx.rule("ERR1", "ErrorType::Error = Infallible")
    ctx.rule("PIN", "Cargo.lock pins embedded-io / embedded-io-async to the reviewed versions")
    ctx.assumptions.append("embedded-io 0.6.1 / embedded-io-async 0.6.1 `impl Read for &[u8]` copy min(len) bytes and advance, like std's")
    res = facts.plain_checks([c for c in ("eio", "eioa", "eio_both", "eio_both_nostd")])
    for name, (ok, msg) in res.items():
        ctx.check(ok, "BUILD", "*", "cargo check " + " ".join(facts.BUILD_MATRIX[name][0]), "Cargo.toml",
                  "the crate does not build in configuration `%s`:\n%s" % (name, msg[-1500:]), "builds on stable", name)
    pinned(ctx)
    reference = {}
    for cfg, prog in progs.items():
        twin(ctx, prog, cfg, reference)
        nopend1(ctx, prog, cfg)
        err1(ctx, prog, cfg)
        eng = shared.run_mod1(prog)
        shared.report_requires(ctx, eng, "MOD1", cfg, entry_filter=lambda s: "embedded_io" in s)


def pinned(ctx):
    lock = open(os.path.join(facts.REPO, "Cargo.lock")).read()
    import re

    for name, ver in PINNED.items():
        m = re.search(r'name = "%s"\nversion = "([^"]+)"\n(?:source = "[^"]+"\n)?checksum = "([0-9a-f]+)"' % re.escape(name), lock)
        ctx.check(bool(m) and m.group(1) == ver, "PIN", "Cargo.lock", "%s %s" % (name, ver), "Cargo.lock",
                  "Cargo.lock resolves `%s` to %s, the reviewed &[u8] reader is that of %s" % (name, m.group(1) if m else "nothing", ver),
                  "%s = %s (checksum %s…)" % (name, ver, m.group(2)[:12] if m else "?"), "*")


def twin(ctx, prog, cfg, reference):
    for meth, (trait, is_async_fn) in METHODS.items():
        std = prog.fn("<CircularBuffer<N, u8> as std::%s>::%s" % (trait, meth))
        refname = "std::io"
        if std is not None:
            ref = skel(std)
        else:
            # std is not compiled in this configuration: the siblings are compared with each
            # other (the comparison with std::io is made in the configurations that have it)
            s1 = prog.fn("<CircularBuffer<N, u8> as embedded_io::%s>::%s" % (trait, meth))
            ref = skel(s1) if s1 is not None else None
            refname = "embedded_io"
        if ref is None:
            ctx.ok("TWIN", meth, "single sibling in this configuration", "nothing to compare with (compared against std::io in eio_both/eio/eioa)", cfg, nontrivial=False)
            continue
        sibs = []
        s1 = prog.fn("<CircularBuffer<N, u8> as embedded_io::%s>::%s" % (trait, meth))
        if s1 is not None:
            sibs.append(("embedded_io", s1, None))
        a_short = "<CircularBuffer<N, u8> as embedded_io_async::%s>::%s" % (trait, meth)
        if is_async_fn:
            bf, upv = built_fn(prog, a_short + "::{closure#0}")
            if bf is not None:
                sibs.append(("embedded_io_async", bf, upv))
        else:
            s2 = prog.fn(a_short)
            if s2 is not None:
                sibs.append(("embedded_io_async", s2, None))
        want = {"eio": 1, "eioa": 1}.get(cfg, 2)
        ctx.check(len(sibs) >= want, "TWIN", meth, "siblings present", "src/embedded_io.rs",
                  "expected %d embedded sibling(s) of `%s` in configuration %s, found %d" % (want, meth, cfg, len(sibs)),
                  "%d sibling(s)" % len(sibs), cfg, nontrivial=False)
        for (which, f, upv) in sibs:
            got = skel(f, upv)
            if [tuple(x) for x in got] == [tuple(x) for x in ref]:
                ctx.ok("TWIN", f.short, "%s::%s == %s::%s" % (which, meth, refname, meth), "%d events equal modulo renaming" % len(got), cfg)
            else:
                d = ""
                for i in range(max(len(got), len(ref))):
                    x = got[i] if i < len(got) else ("-", "(missing)")
                    y = ref[i] if i < len(ref) else ("-", "(missing)")
                    if tuple(x) != tuple(y):
                        d = "event %d:\n  %s:   %s %s\n  %s: %s %s" % (i, refname, y[0], y[1][:300], which, x[0], x[1][:300])
                        break
                ctx.violate("TWIN", f.short, "%s::%s differs from std::io::%s" % (which, meth, meth), f.loc,
                            "the %s implementation of `%s` does not perform the same in-crate effects with the same arguments / "
                            "return the same value as the std::io implementation" % (which, meth), cfg, detail=d)


def nopend1(ctx, prog, cfg):
    for meth, (trait, is_async_fn) in METHODS.items():
        if not is_async_fn:
            continue
        short = "<CircularBuffer<N, u8> as embedded_io_async::%s>::%s::{closure#0}" % (trait, meth)
        raw = prog.built.get(short)
        if raw is None:
            if cfg in ("eio",):
                continue
            ctx.violate("NOPEND1", short, "anchor-missing", "?", "async body not found", cfg)
            continue
        yields = [b for b in raw["mir"]["blocks"] if b["term"]["k"] == "yield"]
        polled = []
        for b in raw["mir"]["blocks"]:
            t = b["term"]
            if t["k"] == "call" and "fn" in t["func"] and "coroutine_variants" in t["func"]["fn"]:
                polled.append((t["func"]["fn"].get("rpath"), t["func"]["fn"]["coroutine_variants"]))
        f = prog.fn(short)
        if not yields:
            ctx.ok("NOPEND1", short, "no suspension point", "0 Yield terminators in the pre-transform MIR; coroutine has %s states" % (f.rec.get("coroutine_variants") if f else "?"), cfg)
            continue
        ok = len(polled) == len(yields) and all(v == 3 and p in POLLS for p, v in polled)
        ctx.check(ok, "NOPEND1", short, "%d await(s) on never-pending futures" % len(yields), "src/embedded_io.rs",
                  "the async `%s` awaits something that can suspend (polled: %s; %d Yield terminators): it can return Pending"
                  % (meth, polled, len(yields)),
                  "each of the %d awaits polls %s, a coroutine with 3 states (Unresumed/Returned/Panicked)" % (len(yields), sorted({p for p, _ in polled})), cfg)
        if meth != "read":
            ctx.violate("NOPEND1", short, "unexpected await", "src/embedded_io.rs", "only `read` is expected to await", cfg)


def err1(ctx, prog, cfg):
    found = False
    for imp in prog.impls:
        if imp.get("trait", "").endswith("::ErrorType") and "CircularBuffer" in imp.get("self_ty", ""):
            found = True
            tys = [i.get("ty") for i in imp.get("items", []) if i.get("name") == "Error"]
            ctx.check(tys == ["core::convert::Infallible"], "ERR1", "ErrorType", "Error = Infallible", imp["loc"],
                      "the embedded-io error type is `%s`, not the uninhabited Infallible: the impls can now fail" % tys,
                      "type Error = core::convert::Infallible", cfg)
    ctx.check(found, "ERR1", "ErrorType", "impl present", "src/embedded_io.rs", "no ErrorType impl found", "found", cfg, nontrivial=False)
