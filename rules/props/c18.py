"""C18 — enabling the `unstable` feature does not change behaviour.

  BUILD     cargo +nightly check --features unstable succeeds
  CFGDIFF2  between the nightly builds without and with `unstable`, the functions whose resolved
            MIR differs (or that exist in only one build) are exactly the reviewed table U; all
            other functions — the whole public API logic — are identical
  DELEG1    each arm in U is the reviewed substitution: same operands in the same positions, the
            std API standing where the hand-written code stands
Assumed (reviewed once against std's source, not decided): the substituted std APIs behave as the
stable arms re-implement them. Not decided: trace equality of the two builds.
"""
import re

from .. import facts, mir, skeleton
from ..report import short_loc

QUICK = ["default", "unstable"]
THOROUGH = ["default", "unstable", "nostd", "unstable_nostd"]

EXPLANATION = (
    "Decides that a behavioural difference between the default and the `unstable` build can only originate in the "
    "reviewed set U of cfg-forked items (everything else has identical resolved MIR in both builds), and that each "
    "arm in U is the reviewed delegation to a std API with identical operand provenance in identical positions. The "
    "ownership/panic-safety rules of C02-C06/C11 are evaluated on the unstable fact base by those checks' thorough "
    "tiers. The semantic equivalence of the std APIs to the stable arms is reviewed, trusted, not decided."
)

MU = "<[core::mem::maybe_uninit::MaybeUninit<T>]>::"
U = {
    "slice_assume_init_ref": "delegates to <[MaybeUninit<T>]>::assume_init_ref",
    "slice_assume_init_mut": "delegates to <[MaybeUninit<T>]>::assume_init_mut",
    "CircularBuffer::new": "items = [const { MaybeUninit::uninit() }; N]",
    "<CircularBuffer<N, T> as From<[T; M]>>::from": "elems = [const { MaybeUninit::uninit() }; N]",
    "CircularBuffer::extend_from_slice": "write_clone_of_slice instead of write_uninit_slice_cloned (3 sites)",
    "CircularBuffer::extend_from_slice::write_uninit_slice_cloned": "stable-only helper",
    "<CircularBuffer::extend_from_slice::write_uninit_slice_cloned::Guard<T> as Drop>::drop": "stable-only helper's guard",
    "slice_take": "delegates to <[T]>::split_off",
    "slice_take_mut": "delegates to <[T]>::split_off_mut",
    "slice_take_first": "delegates to <[T]>::split_off_first",
    "slice_take_first_mut": "delegates to <[T]>::split_off_first_mut",
    "slice_take_last": "delegates to <[T]>::split_off_last",
    "slice_take_last_mut": "delegates to <[T]>::split_off_last_mut",
    "Drain::as_slices": "assume_init_ref instead of the raw slice cast",
    "Drain::as_mut_slices": "assume_init_mut instead of the raw slice cast",
}
# inline consts created by the unstable arms
U_PREFIX = ("CircularBuffer::new::{", "<CircularBuffer<N, T> as From<[T; M]>>::from::{")

DELEGATES = {
    "slice_assume_init_ref": (MU + "assume_init_ref", 1),
    "slice_assume_init_mut": (MU + "assume_init_mut", 1),
    "slice_take": ("<[T]>::split_off", 2),
    "slice_take_mut": ("<[T]>::split_off_mut", 2),
    "slice_take_first": ("<[T]>::split_off_first", 1),
    "slice_take_first_mut": ("<[T]>::split_off_first_mut", 1),
    "slice_take_last": ("<[T]>::split_off_last", 1),
    "slice_take_last_mut": ("<[T]>::split_off_last_mut", 1),
}


MU_S = "<[MaybeUninit<T>]>::"


def rename(name):
    """reviewed substitution table (both the crate-qualified and the short spelling of a callee)"""
    if name in (MU + "assume_init_ref", MU + "assume_init_mut", MU_S + "assume_init_ref", MU_S + "assume_init_mut",
                "core::mem::maybe_uninit::MaybeUninit::assume_init", "MaybeUninit::assume_init",
                # the crate's own forked helpers: each arm is decided on its own (DELEGATES / the stable cast)
                "slice_assume_init_ref", "slice_assume_init_mut"):
        return "@skip"
    if name in (MU + "write_clone_of_slice", MU_S + "write_clone_of_slice", "CircularBuffer::extend_from_slice::write_uninit_slice_cloned"):
        return "INITS"
    if name in ("core::mem::maybe_uninit::MaybeUninit::uninit", "MaybeUninit::uninit"):
        return "UNINIT"
    return name


def norm_events(ev):
    out = []
    for k, t in ev:
        t = re.sub(r"UNINIT\(\)", "UNINIT", t)
        t = re.sub(r"\brepeat\b", "UNINIT", t)
        if k == "call" and t.startswith("UNINIT"):
            continue
        out.append((k, t))
    return out


def run(ctx, progs):
    ctx.explanation = EXPLANATION
    ctx.rule("BUILD", "cargo +nightly check --offline --lib --features unstable")
    ctx.rule("CFGDIFF2", "functions differing between default and unstable == table U")
    ctx.rule("DELEG1", "each unstable arm is the reviewed substitution with pass-through operands")
    ctx.rule("EQLEN1", "write_clone_of_slice and its stable stand-in are called with slices of provably equal length (the std API panics otherwise, the stable helper may not)")
    ctx.assumptions.append("std's assume_init_ref/mut, write_clone_of_slice, split_off* behave as the stable arms re-implement them (reviewed)")
    ok, msg = facts.plain_check("unstable")
    ctx.check(ok, "BUILD", "*", "cargo +nightly check --features unstable", "Cargo.toml",
              "the crate does not build with the `unstable` feature:\n" + msg[-1500:], "builds", "unstable")
    pairs = [("default", "unstable")]
    if "nostd" in progs and "unstable_nostd" in progs:
        pairs.append(("nostd", "unstable_nostd"))
    for a, b in pairs:
        identical = cfgdiff2(ctx, progs[a], progs[b], "%s|%s" % (a, b))
        deleg1(ctx, progs[a], progs[b], "%s|%s" % (a, b), identical)
    from .. import lenrule

    for cfg, prog in progs.items():
        lenrule.eqlen1(ctx, prog, cfg)


def in_U(short):
    # a closure inside a reviewed fork belongs to that fork
    return short in U or any(short.startswith(p) for p in U_PREFIX) or short.split("::{closure#")[0] in U


def cfgdiff2(ctx, pa, pb, cfg):
    same = 0
    differing = set()
    identical = set()  # reviewed forks whose arms compile identically on this tree: nothing to decide
    for short in sorted(set(pa.fns) | set(pb.fns)):
        fa, fb = pa.fns.get(short), pb.fns.get(short)
        if fa is None or fb is None:
            differing.add(short)
            ctx.check(in_U(short), "CFGDIFF2", short, "exists in only one build", (fa or fb).loc,
                      "`%s` exists only %s the `unstable` feature and is not a reviewed cfg fork" % (short, "without" if fb is None else "with"),
                      "reviewed: %s" % U.get(short, "inline const of an unstable arm"), cfg)
            continue
        if skeleton.exact(fa) == skeleton.exact(fb):
            same += 1
            if in_U(short):
                identical.add(short)
            continue
        differing.add(short)
        ctx.check(in_U(short), "CFGDIFF2", short, "body differs between default and unstable", fb.loc,
                  "`%s` behaves differently when the `unstable` feature is enabled and is not one of the reviewed cfg forks: an "
                  "unreviewed divergence between the two builds" % short,
                  "reviewed fork: %s" % U.get(short, ""), cfg,
                  detail=None if in_U(short) else _diff(skeleton.exact(fa), skeleton.exact(fb)))
    ctx.check(same >= 125, "CFGDIFF2", "*", "identical functions", "?",
              "only %d functions are identical in both builds" % same, "%d functions have identical resolved MIR in both builds" % same, cfg, nontrivial=False)
    ctx.extra.setdefault("cfgdiff2", {})[cfg] = {"identical": same, "differing": sorted(differing)}
    return identical


def _diff(a, b):
    la, lb = a.splitlines(), b.splitlines()
    for i, (x, y) in enumerate(zip(la, lb)):
        if x != y:
            return "first difference at skeleton line %d:\n  default:  %s\n  unstable: %s" % (i, x.strip(), y.strip())
    return "skeleton lengths differ: %d vs %d" % (len(la), len(lb))


def deleg1(ctx, pa, pb, cfg, identical=()):
    # pure delegations
    for short, (api, nargs) in DELEGATES.items():
        if short in identical:
            ctx.ok("DELEG1", short, "no longer forked", "identical resolved MIR in both builds", cfg)
            continue
        f = pb.fn(short)
        if f is None:
            ctx.violate("DELEG1", short, "anchor-missing", "?", "unstable arm not found", cfg)
            continue
        calls = [(b, t) for b, t in f.calls(False)]
        ok = len(calls) == 1 and mir.callee_path(calls[0][1]) == api
        why = "calls %s" % [mir.callee_path(t) for _, t in calls]
        if ok:
            args = [mir.strip_casts(a) for a in f.call_args(calls[0][0])]
            want = [("param", i + 1) for i in range(nargs)]
            ok = args == want
            why = "%s(%s)" % (api, ", ".join(mir.fmt(a, f) for a in args))
            rets = f.return_blocks()
            ok = ok and len(rets) == 1 and mir.strip_casts(f.return_expr(rets[0]))[:2] == ("call", mir.callee_short(calls[0][1]))
        ctx.check(ok, "DELEG1", short, "delegates to %s with pass-through arguments" % api.split("::")[-1], f.loc,
                  "the unstable arm of `%s` is not `%s(<its own parameters>)`: %s" % (short, api, why), why, cfg)
    # structural arms: same events modulo the reviewed renaming
    for short in ("Drain::as_slices", "Drain::as_mut_slices", "CircularBuffer::extend_from_slice", "CircularBuffer::new",
                  "<CircularBuffer<N, T> as From<[T; M]>>::from"):
        fa, fb = pa.fn(short), pb.fn(short)
        if fa is None or fb is None:
            ctx.violate("DELEG1", short, "anchor-missing", "?", "arm not found in one build", cfg)
            continue
        ea = norm_events(skeleton.events(fa, rename))
        eb = norm_events(skeleton.events(fb, rename))
        if ea == eb:
            ctx.ok("DELEG1", short, "same events modulo the reviewed substitution", "%d events equal" % len(ea), cfg)
        else:
            d = ""
            for i, (x, y) in enumerate(zip(ea, eb)):
                if x != y:
                    d = "event %d:\n  default:  %s %s\n  unstable: %s %s" % (i, x[0], x[1][:300], y[0], y[1][:300])
                    break
            if not d:
                d = "event counts differ: %d vs %d" % (len(ea), len(eb))
            ctx.violate("DELEG1", short, "events differ beyond the reviewed substitution", fb.loc,
                        "the `unstable` arm of `%s` does more than substitute the std API for the hand-written code "
                        "(different operands, order or positions)" % short, cfg, detail=d)
