"""C09 — drain removes exactly the requested range and keeps the rest in order.

  DRN1      the drain's protocol and bookkeeping order (a,b,c,f; d,e in Drain::drop)
  DROPPER1  both Droppers exist before the first is dropped
  DRAINIT1  next/next_back = self.iter.next()/next_back().map(|i| read(i)); len/size_hint are the
            index iterator's; `range` is never written after construction
  BACKFILL1 the back-fill loop lies on every path between the Droppers and the restore
  MOD1      nothing reachable from drain / Drain::* divides by or indexes with capacity zero
  RANGE1    every RangeBounds form is translated as documented, by the one validation function
Not decided: the back-fill arithmetic (which elements move where), order preservation, termination.
"""
from .. import common, drainrules, effects, guards, mir, shared
from ..report import short_loc
from . import c05

QUICK = ["default"]
THOROUGH = ["default", "nostd", "alloc", "unstable", "eio_both", "eio_both_nostd", "eio", "eioa", "default_dbg"]

EXPLANATION = (
    "Decides the drain's protocol: single constructor and size cleared up front (DRN1 a-c,f); in Drain::drop the "
    "un-yielded part is destroyed (both Droppers, constructed before either is dropped) before size is restored, the "
    "restore is on every normal path (modulo N == 0) and nothing can unwind after it (DRN1 d,e, DROPPER1); the "
    "back-fill loop is passed on every path to the restore; next/next_back read exactly the index produced by the "
    "std Range iterator, len/size_hint are that iterator's (DRAINIT1); no modulus/index by capacity zero is reachable "
    "from drain/Drain (MOD1); every RangeBounds form is translated as documented (RANGE1). Does NOT decide the "
    "back-fill arithmetic, order preservation or termination (values)."
)

DRAIN_ENTRIES = lambda s: s == "CircularBuffer::drain" or s.startswith("<Drain<") or s.startswith("Drain::")


def run(ctx, progs):
    ctx.explanation = EXPLANATION
    for r, t in (("DRN1", "drain typestate"), ("DROPPER1", "guards before drops"), ("DRAINIT1", "index iterator protocol"),
                 ("BACKFILL1", "back-fill on every path to the restore"), ("BACKFILL2", "back-fill geometry: hole = [range.start, range.end), moved block ends at buf_size, size = prefix + moved"), ("DRNVIEW1", "un-yielded views bounded by iter, never by range"), ("MOD1", "capacity zero"), ("RANGE1", "bound translation")):
        ctx.rule(r, t)
    ctx.rule("KIND1", "index-kind inference: physical positions and logical indices/lengths are never compared, and never stand in for each other")
    ctx.rule("SUB1", "no subtraction in the drain code underflows (Drain's index invariant range.start <= iter.start <= iter.end <= range.end <= buf_size is an axiom)")
    ctx.rule("RIDX1", "implicit range-index / split checks in the drain code")
    for cfg, prog in progs.items():
        from .. import subrule

        drain_only = lambda s: "Drain" in s or "CircularSlicePtr" in s
        subrule.report(ctx, prog, cfg, "SUB1", floor=0, only=drain_only)
        subrule.report(ctx, prog, cfg, "RIDX1", floor=0, only=drain_only)
        if cfg == "default_dbg":
            continue  # the debug build only adds the arithmetic of the debug assertions
        drainrules.drn1_abcf(ctx, prog, cfg)
        c05.drn1_de(ctx, prog, cfg)
        c05.dropper1(ctx, prog, cfg)
        drainrules.drainit1(ctx, prog, cfg)
        from . import c08

        c08.iterset1(ctx, prog, cfg, "DRAINIT1", types=("Drain",))
        drainrules.drnview1(ctx, prog, cfg)
        from .. import kinds

        kinds.run(ctx, prog, cfg, only=lambda s: "Drain" in s)
        from .. import shapes

        shapes.viewcmp1(ctx, prog, cfg, groups=[["Drain::as_slices", "Drain::as_mut_slices"]])
        from .. import lenrule as _lr

        _lr.view2(ctx, prog, cfg, only=("Drain::as_slices", "Drain::as_mut_slices"))
        backfill1(ctx, prog, cfg)
        drainrules.backfill2(ctx, prog, cfg)
        eng = shared.run_mod1(prog)
        n = shared.report_requires(ctx, eng, "MOD1", cfg, entry_filter=DRAIN_ENTRIES)
        ctx.floor("MOD1", "sites reachable from the drain entries", n, 8, cfg)
        drainrules.range1(ctx, prog, cfg)


def backfill1(ctx, prog, cfg):
    f = ctx.need_fn(prog, drainrules.DROP, "BACKFILL1")
    if f is None:
        return
    heads = sorted({h for (_, h) in f.back_edges(False)})
    stores = [b for b, i, st, is_term in f.positions(False)
              if not is_term and st["k"] == "assign" and mir.place_has_deref(st["place"]) and mir.mem_var_of(st["place"]) == ("M", "size")]
    copies = [b for b, t in f.calls(False) if mir.callee_path(t) in ("core::ptr::copy", "core::ptr::copy_nonoverlapping")]
    ok = len(heads) == 1 and len(stores) == 1 and bool(copies)
    if ok:
        ok = f.must_pass(None, heads, {stores[0]})
        body = set()
        for be in f.back_edges(False):
            from .c06 import _loop_body

            body |= _loop_body(f, be)
        ok = ok and all(c in body for c in copies)
    ctx.check(ok, "BACKFILL1", f.short, "loop between droppers and restore", f.loc,
              "Drain::drop restores `size` on a path that does not pass the back-fill loop (or the ptr::copy is outside the "
              "loop): the hole left by the drain is counted as elements",
              "loop head bb%s on every path to the restore bb%s; copy in the loop body" % (heads, stores), cfg)
