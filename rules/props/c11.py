"""C11 — operations panic exactly when documented and are otherwise total.

  PAN1  public entry -> set of feasible explicit panic sites == documented table
  PAN2  internal callers of asserting functions discharge the assertion (context projection);
        ranges built inside the crate have a reviewed non-panicking shape
  PAN3  a documented panic happens before any mutation of the buffer
  MOD1  no modulus by / element index into a zero capacity reaches a public entry
  ARITH1 no Add/Mul on caller-supplied indices/lengths outside the reviewed sites
  SUB1  no usize subtraction can underflow (debug builds: an undocumented panic; release: a
        wrapped index/length): REQUIRES(b <= a) per site, discharged or propagated to callers;
        obligations over opaque values (other calls' results, Drain/slice-pointer fields) are
        counted as undecided, never reported
  RIDX1 the implicit checks of `s[a..b]`, `s[..b]`, `s[a..]`, split_at(k), rotate(k): a <= b <= len(s) with
        symbolic lengths (s[..k] -> k, split_at pieces, [_; N] -> N), facts from guards, INV, inferred
        postconditions (translate_range_bounds: start <= end <= len); opaque obligations undecided
  TERM1 each loop terminates: exit by a std iterator's None; `while size < B` whose body increases size on
        every path under the loop's facts (callee paths projected); counter loops with an entailed step >= 1
        (Drain::drop's back-fill step is value-level: undecided, listed)
Not decided: single-element bounds checks (counted, infeasible under INV).
"""
from .. import common, effects, guards, mir, panics, shared
from ..report import short_loc

QUICK = ["default"]
THOROUGH = ["default", "nostd", "alloc", "unstable", "eio_both", "eio_both_nostd", "eio", "eioa", "default_dbg"]

EXPLANATION = (
    "Decides which public entry points can reach an explicit panic (assert!/expect/unimplemented/panic!) on a "
    "non-unwinding path, with call-site context projected into callees so that internally discharged assertions "
    "do not count, and compares the result with the documented table (range/range_mut/drain -> the four checks of "
    "translate_range_bounds; swap -> its two asserts; Index/IndexMut -> expect; everything else -> none); checks "
    "that each documented panic precedes any buffer write; and that no Rem/Div by, or element index into, a "
    "zero capacity is reachable from any public entry (MOD1); that no usize subtraction whose operands are transparent "
    "(parameters, constants, the header fields, slice-parameter lengths, positions) can underflow (SUB1). Implicit slice/array bounds checks are counted, "
    "not judged (they are infeasible under INV, which INV1 checks); termination of loops is not decided."
)

RANGE_SITES = "translate_range_bounds"
DOCUMENTED = {
    "CircularBuffer::range": {"translate_range_bounds"},
    "CircularBuffer::range_mut": {"translate_range_bounds"},
    "CircularBuffer::drain": {"translate_range_bounds"},
    "CircularBuffer::swap": {"CircularBuffer::swap"},
    "<CircularBuffer<N, T> as Index<usize>>::index": {"<CircularBuffer<N, T> as Index<usize>>::index"},
    "<CircularBuffer<N, T> as IndexMut<usize>>::index_mut": {"<CircularBuffer<N, T> as IndexMut<usize>>::index_mut"},
}
SITE_COUNT = {
    "translate_range_bounds": 4,
    "CircularBuffer::swap": 2,
    "<CircularBuffer<N, T> as Index<usize>>::index": 1,
    "<CircularBuffer<N, T> as IndexMut<usize>>::index_mut": 1,
}
# unimplemented!() in the stable arms of slice_take(_mut): unreachable by type
TYPE_EXCLUDED = {"slice_take": ("core::ops::range::RangeTo<usize>", "core::ops::range::RangeFrom<usize>"),
                 "slice_take_mut": ("core::ops::range::RangeTo<usize>", "core::ops::range::RangeFrom<usize>")}


def run(ctx, progs):
    ctx.explanation = EXPLANATION
    ctx.rule("PAN1", "feasible explicit panic sites per public entry == documented table")
    ctx.rule("PAN2", "in-crate range arguments have a reviewed non-panicking shape; slice_take instantiations")
    ctx.rule("PAN3", "no buffer write on a path from a panicking entry to its panic site")
    ctx.rule("PAN4", "every normal return of an asserting function passes each of its documented assertions")
    ctx.rule("MOD1", "REQUIRES(divisor > 0 / N > 0) discharged before reaching a public entry")
    ctx.rule("ARITH1", "Add/Mul on caller-supplied values only at reviewed sites")
    ctx.rule("SUB1", "no usize subtraction underflows (a debug-build panic / release wrap): REQUIRES(b <= a) discharged")
    ctx.rule("TERM1", "every loop has a decided progress argument (std iterator exit / size grows under the loop's facts / counter step >= 1); value-level steps undecided")
    ctx.rule("RIDX1", "implicit checks of range indexing / split_at / rotate: REQUIRES(a <= b <= len) with symbolic slice lengths, discharged or propagated")
    ctx.assumptions.append("INV (size <= N, N > 0 => start < N): preservation checked by INV1 under C04")
    ctx.assumptions.append("core's RangeBounds impls for RangeTo/RangeFull/RangeFrom behave as documented")
    ctx.rule("DBGASSERT1", "thorough tier, debug build: every debug assertion is proved unreachable from the public entries, except the "
             "reviewed value-level ones (the crate's own stated beliefs)")
    ctx.rule("FWD1", "the forwarding PartialEq impls end in the base slice impl and never recurse into themselves (through std's `&A == &B`): they terminate")
    ctx.rule("TWIN", "the shared and the mutable form of each range/iterator helper are one algorithm: range() returns / panics exactly where range_mut() does")
    for cfg, prog in progs.items():
        if cfg != "default_dbg":
            from . import c08 as _c08i, c13 as _c13
            from .. import shapes as _shapes

            _c13.fwd1(ctx, prog, cfg)
            for a_, b_ in _c08i.PAIRS:
                _shapes.twin(ctx, "TWIN", prog, a_, b_, cfg, what="the shared and the mutable form of one view")
        if cfg == "default_dbg":
            dbgassert1(ctx, prog, cfg)
            # the arithmetic inside debug assertions is code too in this build
            from .. import subrule as _sr

            _sr.report(ctx, prog, cfg)
            _sr.report(ctx, prog, cfg, "RIDX1", floor=25)
            continue
        pan(ctx, prog, cfg)
        eng = shared.run_mod1(prog)
        shared.report_requires(ctx, eng, "MOD1", cfg)
        from .. import subrule

        subrule.report(ctx, prog, cfg)
        subrule.report(ctx, prog, cfg, "RIDX1", floor=25)
        from .. import termrule

        termrule.term1(ctx, prog, cfg)
        ctx.floor("MOD1", "generator/propagation sites", eng.sites, 40, cfg)
        arith1(ctx, prog, cfg)
        implicit_counts(ctx, prog, cfg)


def pan(ctx, prog, cfg):
    R = panics.Reach(prog)
    eff = effects.get(prog)
    # PAN2: slice_take instantiations
    for helper, allowed in TYPE_EXCLUDED.items():
        g = prog.fn(helper)
        if g is None:
            continue
        has_unimpl = any(l == "unimplemented" for _, l in panics.direct_sites(g))
        if not has_unimpl:
            continue
        n = 0
        for f in prog.fns.values():
            for b, t in f.calls_to(helper, unwind=False):
                n += 1
                a = (mir.callee_of(t).get("rargs") or [])
                rty = a[-1] if a else "?"
                ctx.check(rty in allowed, "PAN2", f.short, "%s::<%s>" % (helper, rty.split("::")[-1]), short_loc(f, b),
                          "`%s` is instantiated with range type `%s`, for which its stable arm is `unimplemented!()`: "
                          "the call panics" % (helper, rty),
                          "R = %s is one of the two implemented arms" % rty, cfg)
        ctx.floor("PAN2", "call sites of " + helper, n, 4, cfg)
    entries = [f for f in prog.public_entries() if f.has_mir]
    ctx.floor("PAN1", "public entries", len(entries), 88, cfg)
    total_sites = 0
    for f in sorted(entries, key=lambda x: x.short):
        sites = R.sites(f.short)
        sites = {s for s in sites if not (s[0] in TYPE_EXCLUDED and s[2] == "unimplemented")}
        total_sites += len(sites)
        expected_fns = DOCUMENTED.get(f.short, set())
        got_fns = {s[0] for s in sites}
        extra = [s for s in sites if s[0] not in expected_fns]
        if extra:
            for s in sorted(extra):
                g = prog.fns[s[0]]
                path = eff.find_path(f.short, lambda x, tgt=s[0]: x == tgt) or []
                ctx.violate("PAN1", f.short, "reaches %s in %s" % (s[2], s[0]), short_loc(g, s[1]),
                            "public entry `%s` is documented as total but can reach an explicit panic (%s) in `%s`"
                            % (f.short, s[2], s[0]), cfg,
                            detail="call path: " + " -> ".join([f.short] + [p[3] for p in path]))
        else:
            ctx.ok("PAN1", f.short, "explicit panic sites: %s" % (sorted(got_fns) or "none"),
                   "feasible sites %s within documented set %s" % (sorted({(s[0], s[2]) for s in sites}), sorted(expected_fns)), cfg,
                   nontrivial=bool(sites) or bool(eff.callees(f.short)))
        for ef in expected_fns:
            cnt = len([s for s in sites if s[0] == ef])
            ctx.check(cnt >= SITE_COUNT.get(ef, 1), "PAN1", f.short, "documented panic present in %s" % ef, f.loc,
                      "`%s` is documented to panic through `%s` (%d site(s)) but only %d feasible site(s) remain: a "
                      "documented check was dropped" % (f.short, ef, SITE_COUNT.get(ef, 1), cnt),
                      "%d site(s) in %s" % (cnt, ef), cfg)
    # PAN2: range shape checks recorded during the traversal
    seen = set()
    for (caller, b, tgt, ok, why) in R.range_checks:
        k = (caller, b, tgt)
        if k in seen:
            continue
        seen.add(k)
        cf = prog.fns[caller]
        ctx.check(ok, "PAN2", caller, "range argument of %s" % tgt.split("::")[-1], short_loc(cf, b),
                  "an internal call of `%s` can hit the documented range panic: %s" % (tgt, why), why, cfg)
    pan4(ctx, prog, cfg)
    # PAN3: documented panics precede mutation
    for entry, fns in DOCUMENTED.items():
        f = prog.fn(entry)
        if f is None:
            ctx.violate("PAN3", entry, "anchor-missing", "?", "documented panicking entry not found", cfg)
            continue
        pan3(ctx, prog, f, list(fns)[0], cfg)


def pan3(ctx, prog, f, target_fn, cfg, depth=0):
    """no write before the panic site along the chain f -> ... -> target_fn"""
    eff = effects.get(prog)
    if f.short == target_fn:
        for b, label in panics.direct_sites(f):
            ws = []
            for x in sorted(common.blocks_on_paths_to(f, b)):
                ws.extend((x, w) for w in common.writes_at(f, x, upto=(0 if x == b else None)) if x != b)
            ctx.check(not ws, "PAN3", f.short, "%s in bb-order before writes" % label, short_loc(f, b),
                      "the buffer is modified before the documented panic (%s) can fire: %s — a caught panic leaves "
                      "the buffer changed" % (label, "; ".join("bb%d %s" % (x, w[1]) for x, w in ws)),
                      "no write on any path to the panic site bb%d" % b, cfg)
        return
    if depth > 6:
        return
    path = eff.find_path(f.short, lambda x: x == target_fn)
    if not path:
        ctx.violate("PAN3", f.short, "no path to %s" % target_fn, f.loc, "documented panic site not reachable", cfg)
        return
    caller, b, kind, nxt = path[0]
    ws = []
    for x in sorted(common.blocks_on_paths_to(f, b)):
        if x == b:
            ws.extend((x, w) for w in common.writes_at(f, x, upto=len(f.blocks[x]["stmts"])))
        else:
            ws.extend((x, w) for w in common.writes_at(f, x))
    ctx.check(not ws, "PAN3", f.short, "call %s before writes" % nxt.split("::")[-1], short_loc(f, b),
              "the buffer is modified before `%s` (which raises the documented panic) is called: %s"
              % (nxt, "; ".join("bb%d %s" % (x, w[1]) for x, w in ws)),
              "no write on any path to the call in bb%d" % b, cfg)
    pan3(ctx, prog, prog.fns[nxt], target_fn, cfg, depth + 1)


ARITH_REVIEWED = {
    ("CircularBuffer::extend_from_slice", "Add"): "size + other.len() under other.len() < N - size (INV1 assumption site)",
    ("add_mod", "Add"): "z + overflow * (usize::MAX % m + 1): add_mod's own overflow compensation (C19, not decided)",
    ("add_mod", "Mul"): "overflow * (usize::MAX % m + 1) with overflow in {0,1}",
}


def _from_param(f, e):
    """is e *directly* a caller-supplied integer: a usize parameter, the length of a slice
    parameter, or arithmetic on those (results of other calls are not caller-supplied values)"""
    e = mir.strip_casts(e)
    if not isinstance(e, tuple) or not e:
        return False
    if e[0] == "param":
        return f.local_ty(e[1]) == "usize"
    if e[0] == "pcall" and e[1] == "<[T]>::len" and len(e[2]) == 1:
        a = mir.strip_casts(e[2][0])
        return isinstance(a, tuple) and a[0] == "param"
    if e[0] == "binop":
        return _from_param(f, e[2]) or _from_param(f, e[3])
    return False


def arith1(ctx, prog, cfg):
    n = 0
    for f in prog.fns.values():
        for b, i, st, is_term in f.positions(False):
            if is_term or st["k"] != "assign" or st["rv"]["k"] != "binop":
                continue
            op = st["rv"]["op"]
            if op not in ("Add", "Mul", "Shl", "AddWithOverflow", "MulWithOverflow", "AddUnchecked", "MulUnchecked"):
                continue
            a = f.operand_expr(st["rv"]["a"], b, i)
            c = f.operand_expr(st["rv"]["b"], b, i)
            if not (_from_param(f, a) or _from_param(f, c)):
                continue
            n += 1
            base = op.replace("WithOverflow", "").replace("Unchecked", "")
            # x + 1 where x < something is entailed cannot overflow
            if base == "Add" and c == ("int", 1):
                Z = guards.Guards(f).closure(b, extra_terms=[a])
                ia = Z.idx.get(guards.norm(a))
                if ia is not None and any(Z.d[ia][j] <= -1 for j in range(len(Z.terms)) if j != ia):
                    ctx.ok("ARITH1", f.short, "Add(%s, 1)" % mir.fmt(a, f), "operand is strictly below another usize: cannot overflow", cfg)
                    continue
            why = ARITH_REVIEWED.get((f.short, base))
            ctx.check(why is not None, "ARITH1", f.short, "%s(%s, %s)" % (base, mir.fmt(a, f), mir.fmt(c, f)), short_loc(f, b, i),
                      "`%s` on a caller-supplied index/length outside the reviewed sites: overflows (panics in debug "
                      "builds, wraps in release) for arguments near usize::MAX" % base,
                      "reviewed: %s" % why, cfg)
    ctx.extra.setdefault("arith1_sites", {})[cfg] = n


def implicit_counts(ctx, prog, cfg):
    cnt = {"BoundsCheck": 0, "range-index": 0, "split_at": 0}
    for f in prog.fns.values():
        for b in f.reachable(False):
            t = f.term(b)
            if t["k"] == "assert" and t.get("msg") == "BoundsCheck":
                cnt["BoundsCheck"] += 1
            elif t["k"] == "call":
                p = mir.callee_path(t) or ""
                if "Index<I>>::index" in p or "IndexMut<I>>::index_mut" in p:
                    cnt["range-index"] += 1
                elif p in ("<[T]>::split_at", "<[T]>::split_at_mut", "<[T]>::rotate_left"):
                    cnt["split_at"] += 1
    ctx.extra.setdefault("implicit_checks_counted_not_judged", {})[cfg] = cnt


ASSERTING = {"translate_range_bounds": 2, "CircularBuffer::swap": 2}


def pan4(ctx, prog, cfg):
    """'panic if and only if': the documented assertions are evaluated on every path to a normal
    return (an early return before them turns a documented panic into a silent success)."""
    for short, want in ASSERTING.items():
        f = ctx.need_fn(prog, short, "PAN4")
        if f is None:
            continue
        guards_ = []
        preds = f.preds(False)
        for b, label in panics.direct_sites(f):
            if label not in ("assert", "assert_eq", "assert_ne"):
                continue
            # walk back from the panic site to the switch that decides it
            x = b
            seen = set()
            while x not in seen:
                seen.add(x)
                ps = preds.get(x, [])
                if len(ps) != 1:
                    break
                p = ps[0]
                if f.term(p)["k"] == "switch" and f._switch_const(f.term(p), p) is None:
                    guards_.append(p)
                    break
                x = p
        guards_ = sorted(set(guards_))
        rets = set(f.return_blocks())
        ok = len(guards_) >= want and all(f.must_pass(None, [g], rets) for g in guards_)
        if not ok and short == "translate_range_bounds":
            # the same contract read off the facts at the return, however the checks are spelled (`assert!`, `if .. { panic!() }`):
            # a normal return entails start <= end <= len
            ens = set((a[1], a[2], a[3]) for a in guards.ensures(f) if a[0] == "le")
            size0 = ("load", ("param", 1), ("size",), ("entry", ("M", "size")))
            if (("ret", "0"), ("ret", "1"), 0) in ens and any(x == ("ret", "1") and y == size0 and w <= 0 for (x, y, w) in ens):
                ok = True
                guards_ = ["postcondition ret.0 <= ret.1 <= len"]
        ctx.check(ok, "PAN4", short, "assertions on every return path", f.loc,
                  "`%s` can return normally without evaluating all of its %d documented assertions (decision blocks %s): some "
                  "arguments for which a panic is documented are silently accepted" % (short, want, guards_),
                  "every return passes the %d assertion decisions bb%s" % (len(guards_), guards_), cfg)


def dbgassert1(ctx, prog, cfg):
    """With debug assertions compiled in, a debug_assert! is an explicit panic site. 'Every other
    operation returns normally' then requires each of them to be unreachable: decided by the same
    caller-context projection as PAN1. The ones that state value-level facts are tabled."""
    from .. import tables
    from collections import Counter

    R = panics.Reach(prog)
    sites = set()
    for f in prog.public_entries():
        if f.has_mir:
            sites |= R.sites(f.short)
    total = sum(len(panics.direct_sites(f)) for f in prog.fns.values())
    documented = set()
    for v in DOCUMENTED.values():
        documented |= v
    opaque = {}
    for s_ in sorted(sites):
        if s_[0] in documented or (s_[0] in TYPE_EXCLUDED and s_[2] == "unimplemented") or (s_[0], s_[2]) in tables.DEBUG_ASSERT_UNDECIDED:
            continue
        why_ = panics.opaque_condition(prog.fns[s_[0]], s_[1])
        if why_:
            opaque[s_] = why_
            ctx.ok("DBGASSERT1", s_[0], "%s at bb%d: undecided" % (s_[2], s_[1]),
                   "the asserted condition is %s: neither proved nor refuted, not reported" % why_, cfg, nontrivial=False)
    sites = {s_ for s_ in sites if s_ not in opaque}
    cnt = Counter((s[0], s[2]) for s in sites if s[0] not in documented and not (s[0] in TYPE_EXCLUDED and s[2] == "unimplemented"))
    for (fn, label), c in sorted(cnt.items()):
        ent = tables.DEBUG_ASSERT_UNDECIDED.get((fn, label))
        f = prog.fns[fn]
        ctx.check(ent is not None and c <= ent[0], "DBGASSERT1", fn, "%s x%d reachable in the debug build" % (label, c), f.loc,
                  "`%s` contains %d `%s` site(s) that can fire for some call of a public entry in a build with debug assertions%s: an "
                  "operation documented as total panics (or a stated belief of the crate no longer follows from its callers' guards)"
                  % (fn, c, label, " (reviewed: %d)" % ent[0] if ent else ""),
                  "reviewed value-level assertion(s): %s" % (ent[1] if ent else ""), cfg)
    ctx.check(total - len(sites) >= 35, "DBGASSERT1", "*", "debug assertions proved unreachable", "?",
              "only %d of %d explicit panic sites of the debug build are proved unreachable" % (total - len(sites), total),
              "%d of %d explicit panic sites of the debug build are infeasible under every caller's guard facts" % (total - len(sites), total), cfg)
