"""C05 — a panicking element destructor never causes a second drop or a corrupt buffer.

An ordering property over unwind edges, which MIR makes explicit:
  PS1      at every call of the primitive that destroys occupied slots (`drop_range`), a store to
           `size` dominates the call (the elements have left the occupied range before the first
           destructor can run)
  PS2      no explicit drop_in_place/ptr::read into a by-value local that is still armed (its own
           Drop is reachable on that call's unwind edge)
  DROPPER1 all Dropper/Guard values of a function exist before the first of them is dropped
  DRN1d/e  Drain::drop: both Droppers are passed before `size` is restored, the restore is passed
           on every normal path (modulo N == 0), and nothing that can run a destructor is reachable
           after it
  DTOR-TABLE the set of functions that contain a direct destructor site is the reviewed table
"""
from .. import common, effects, guards, mir, tables
from ..report import short_loc

QUICK = ["default"]
THOROUGH = ["default", "nostd", "alloc", "unstable", "eio_both", "eio_both_nostd", "eio", "eioa"]

EXPLANATION = (
    "Decides the ordering obligations that make a panicking element destructor harmless, on drop-elaborated MIR "
    "with explicit unwind edges, for every N, layout, argument and choice of panicking destructor at once: the "
    "header is shrunk before drop_range runs (PS1), explicit destruction never targets an armed local (PS2), panic "
    "guards are all constructed before the first is dropped (DROPPER1), Drain::drop destroys before it restores "
    "size and nothing can unwind after the restore (DRN1 d,e), and the set of functions with a direct destructor "
    "site is the reviewed closed table. Relies on INV1 (C04) for the shape of the stored values."
)


def run(ctx, progs):
    ctx.explanation = EXPLANATION
    ctx.rule("PS1", "a store to `size` dominates every call of drop_range")
    ctx.rule("SHRINK1", "a store that may shrink size is followed by drop_range on every path (no user code in between) or the function returns a Drain")
    ctx.rule("INV1", "header stores (also those a guard's Drop performs while unwinding) have reviewed writers and value shapes")
    ctx.rule("PS2", "no Drop(L) reachable on the unwind edge of drop_in_place/ptr::read into local L")
    ctx.rule("DROPPER1", "every guard aggregate dominates every drop of a guard")
    ctx.rule("DESTROY1", "drop_range reaches a return without dropping its Droppers only over the `range.is_empty()` edge")
    ctx.rule("DRN1", "Drain::drop: droppers -> restore -> return, no destructor after the restore")
    ctx.rule("DTOR-TABLE", "functions with a direct destructor site == reviewed table")
    ctx.assumptions.append("INV1 (C04): stores to size/start have the reviewed shapes")
    for cfg, prog in progs.items():
        ps1(ctx, prog, cfg)
        shrink1(ctx, prog, cfg)
        from . import c04

        c04.inv1(ctx, prog, cfg)
        ps2(ctx, prog, cfg)
        dropper1(ctx, prog, cfg)
        destroy1(ctx, prog, cfg)
        drn1_de(ctx, prog, cfg)
        dtor_table(ctx, prog, cfg)
        # while Drain::drop runs destructors the header must claim nothing (size := 0 when the Drain was built: DRN1 a-c,f),
        # and what it hands to the destructors is the un-yielded part only (views bounded by iter, never by range): an
        # element whose destructor panics there, or one already yielded, is never destroyed again
        from .. import drainrules

        drainrules.drn1_abcf(ctx, prog, cfg)
        drainrules.drnview1(ctx, prog, cfg, "DRN1")


def shrink1(ctx, prog, cfg, rule="SHRINK1"):
    """A store that may make `size` smaller takes the elements beyond the new size out of the buffer's custody. Whoever
    does that hands them over at once: to the destroying primitive (drop_range, on every path to the return, before any
    user code can run) or to a Drain (the function returns the Drain it builds). dec_size is the single-element form,
    paired with its move-out by OCC. A store the facts entail to be >= the current size is not a shrink."""
    n = 0
    for f in prog.fns.values():
        if not f.has_mir or f.short in ("CircularBuffer::dec_size", "CircularBuffer::inc_size", "<Drain<N, T> as Drop>::drop"):
            continue
        G = None
        for (b, i, e) in common.field_stores(f, "size"):
            e = mir.strip_casts(f.deep_simplify(e))
            # current size at the store, through the same pointer
            cur = None
            for s_ in f.blocks[b]["stmts"][i:i + 1] if i < len(f.blocks[b]["stmts"]) else []:
                if s_["k"] == "assign" and mir.place_has_deref(s_["place"]):
                    cur = ("load", f.local_expr(s_["place"]["local"], b, i), ("size",), f.version_at(b, i, ("M", "size")))
            if G is None:
                G = guards.Guards(f)
            from .. import subrule

            if not subrule.transparent(f, e):
                continue  # a joined / computed value: whether it shrinks is value-level (INV1 judges its shape)
            if cur is not None:
                Z = G.closure(b, extra_terms=[e, cur])
                if Z.le(cur, e, 0):
                    continue  # grows or keeps
            n += 1
            after = {b} | f.reachable_from(b, unwind=False)
            dr = {x for x in after if f.term(x)["k"] == "call" and mir.callee_short(f.term(x)) in DESTROY_PRIMITIVES and (x != b or True)}
            returns_drain = any(isinstance(mir.strip_casts(f.deep_simplify(f.return_expr(rb))), tuple) and
                                str(mir.strip_casts(f.deep_simplify(f.return_expr(rb)))[1:2]).find("Drain") >= 0 for rb in f.return_blocks())
            ok = returns_drain
            why = "the function returns the Drain that takes custody"
            if not ok:
                from .. import effects

                user = {ub for ub, _, _ in effects.user_sites(f)}
                rets = set(f.return_blocks())
                ok, why = bool(dr), "no call of drop_range after the store"
                seen, st = set(), list(f.succs(b, False)) if b not in dr else []
                while st and ok:
                    x = st.pop()
                    if x in seen or x in dr:
                        continue
                    seen.add(x)
                    if x in rets:
                        ok, why = False, "a return is reached without drop_range"
                    elif x in user:
                        ok, why = False, "user code can run between the shrink and drop_range"
                    st.extend(f.succs(x, False))
                if ok:
                    why = "drop_range follows on every path, before any user code"
            ctx.check(ok, rule, f.short, "shrinking store `size = %s`" % mir.fmt(e, f)[:40], short_loc(f, b, i),
                      "`%s` makes `size` smaller (`size = %s`) without handing the elements beyond it to drop_range (on every path, before any "
                      "user code) or to a Drain: if anything panics they are owned by nobody and are never destroyed, or they are destroyed "
                      "later by code that does not know they left the buffer" % (f.short, mir.fmt(e, f)[:40]), why, cfg)
    return n


# ------------------------------------------------------------------------------------------------
DESTROY_PRIMITIVES = ["CircularBuffer::drop_range"]


def size_store_positions(f):
    out = []
    for b, i, st, is_term in f.positions(False):
        if not is_term and st["k"] == "assign" and mir.place_has_deref(st["place"]) and mir.mem_var_of(st["place"]) == ("M", "size"):
            out.append((b, i))
        elif is_term and st["k"] == "call":
            if ("M", "size") in effects.call_mem_defs(f, b, st) and mir.callee_short(st) not in DESTROY_PRIMITIVES:
                out.append((b, i))
    return out


def ps1(ctx, prog, cfg):
    n = 0
    for prim in DESTROY_PRIMITIVES:
        g = ctx.need_fn(prog, prim, "PS1")
        if g is None:
            continue
        # the primitive itself must not write size (otherwise the rule would have to look inside)
        for f in prog.fns.values():
            for b, t in f.calls_to(prim, unwind=False):
                n += 1
                pos = (b, len(f.blocks[b]["stmts"]))
                stores = [p for p in size_store_positions(f) if f.pos_dominates(p, pos, False) and p != pos]
                ctx.check(
                    bool(stores), "PS1", f.short, "call %s" % prim.split("::")[-1], short_loc(f, b),
                    "`%s` is called while the elements it destroys are still inside `size`: no store to "
                    "`size` dominates the call, so a panicking destructor leaves them counted and they are "
                    "destroyed again later" % prim,
                    "store to size at %s dominates the call" % (", ".join("bb%d[%d]" % p for p in stores)), cfg)
                # PS1b: the destroying call is the last header-relevant event: no store to size/start
                # is reachable after it (a panic in a destructor would skip that store)
                after = f.reachable_from(b, unwind=False)
                late = []
                for x in sorted(after):
                    for (i, w) in common.writes_at(f, x):
                        if "size" in w or "start" in w:
                            late.append("bb%d %s" % (x, w))
                ctx.check(
                    not late, "PS1", f.short, "no header write after %s" % prim.split("::")[-1], short_loc(f, b),
                    "the header is still being updated after `%s` has run destructors (%s): if a destructor panics that "
                    "update is skipped and the buffer describes slots whose elements were already destroyed" % (prim, "; ".join(late)),
                    "no store to size/start reachable from the call", cfg)
    ctx.floor("PS1", "call sites of drop_range", n, 2, cfg)


def _ptr_locals(e):
    """by-value locals whose storage the pointer expression e points into"""
    out = set()
    for s in mir.walk(e):
        if isinstance(s, tuple) and len(s) == 2 and s[0] == "ref" and isinstance(s[1], tuple):
            tgt = s[1]
            if tgt[0] == "local":
                out.add(tgt[1])
            elif tgt[0] == "place" and isinstance(tgt[1], tuple) and tgt[1][0] == "ref" and tgt[1][1][0] == "local":
                out.add(tgt[1][1][1])
    return out


def ps2(ctx, prog, cfg, only=None):
    n = 0
    for f in prog.fns.values():
        if only is not None and f.short not in only:
            continue
        for b, t in f.calls(False):
            path = mir.callee_path(t)
            if path not in ("core::ptr::drop_in_place", "core::ptr::read", "<*const T>::read", "<*mut T>::read", "<*mut T>::drop_in_place"):
                continue
            args = f.call_args(b)
            if not args:
                continue
            locs = _ptr_locals(args[0])
            for L in sorted(locs):
                if not f.locals[L]["needs_drop"]:
                    continue
                n += 1
                u = t.get("unwind")
                armed = []
                if isinstance(u, int):
                    for x in {u} | f.reachable_from(u, unwind=True):
                        tt = f.term(x)
                        if tt["k"] == "drop" and tt["place"]["local"] == L:
                            armed.append(x)
                ctx.check(
                    not armed, "PS2", f.short, "%s into local %s" % (path.split("::")[-1], f.local_name(L)), short_loc(f, b),
                    "`%s` destroys/moves out part of the by-value local `%s` while it is still armed: if the "
                    "destructor panics, unwinding drops `%s` again (bb%s) — a second drop of the same elements"
                    % (path, f.local_name(L), f.local_name(L), ",".join(map(str, armed))),
                    "no Drop(%s) reachable from the unwind edge" % f.local_name(L), cfg)
    ctx.extra.setdefault("ps2_sites", {})[cfg] = n


def guard_adts(prog):
    """local ADTs whose Drop impl destroys elements (panic guards)"""
    out = {}
    for imp in prog.impls:
        if imp.get("trait") == "core::ops::drop::Drop" and imp.get("self_adt"):
            # find the drop fn
            for f in prog.fns.values():
                if f.rec.get("impl", {}).get("self_adt") == imp["self_adt"] and f.name == "drop" and f.rec["impl"].get("trait") == "core::ops::drop::Drop":
                    if effects.destroy_sites(f):
                        out[imp["self_adt"]] = f.short
    # ... or lets a local of such a guard type go out of scope on a normal path (the same destruction spelled as a scope guard)
    for _ in range(3):
        known = set(out.values())
        for imp in prog.impls:
            if imp.get("trait") == "core::ops::drop::Drop" and imp.get("self_adt") and imp["self_adt"] not in out:
                for f in prog.fns.values():
                    if f.rec.get("impl", {}).get("self_adt") == imp["self_adt"] and f.name == "drop" and f.rec["impl"].get("trait") == "core::ops::drop::Drop" and f.has_mir:
                        if any(f.term(b)["k"] == "drop" and not f.is_cleanup(b) and any(i in known for i in f.term(b).get("drop_impls", [])) for b in f.reachable(False)):
                            out[imp["self_adt"]] = f.short
    return out


def dropper1(ctx, prog, cfg):
    gads = guard_adts(prog)
    ctx.floor("DROPPER1", "guard types with a destroying Drop impl", len(gads), 3, cfg)
    for f in prog.fns.values():
        builds = []
        drops = []
        for b, i, st, is_term in f.positions(False):
            if not is_term and st["k"] == "assign" and st["rv"]["k"] == "aggregate" and st["rv"].get("adt") in gads:
                builds.append((b, i))
            elif is_term and st["k"] == "drop" and not f.is_cleanup(b):
                if any(g in st["ty"] for g in gads) and not st["place"]["proj"]:
                    drops.append((b, i))
            elif is_term and st["k"] == "call" and mir.callee_path(st) == "core::mem::drop":
                fn = mir.callee_of(st)
                if any(g in a for a in fn.get("args", []) for g in gads):
                    drops.append((b, i))
        if len(builds) < 2:
            continue
        bad = [(p, d) for p in builds for d in drops if not f.pos_dominates(p, d, False)]
        ctx.check(
            not bad, "DROPPER1", f.short, "%d guards" % len(builds), f.loc,
            "a panic guard is constructed after another guard may already have been dropped (%s): if the "
            "first destructor panics, the elements of the later guard are never destroyed or are destroyed "
            "outside the guard" % ", ".join("build bb%d vs drop bb%d" % (p[0], d[0]) for p, d in bad),
            "%d constructions dominate %d drops" % (len(builds), len(drops)), cfg)


def drn1_de(ctx, prog, cfg):
    f = ctx.need_fn(prog, "<Drain<N, T> as Drop>::drop", "DRN1")
    if f is None:
        return
    G = guards.Guards(f)
    stores = [(b, i) for b, i, st, is_term in f.positions(False)
              if not is_term and st["k"] == "assign" and mir.place_has_deref(st["place"]) and mir.mem_var_of(st["place"]) == ("M", "size")]
    if not ctx.check(len(stores) == 1, "DRN1", f.short, "e: single restore of size", f.loc,
                     "expected exactly one store to `size` in Drain::drop, found %d" % len(stores),
                     "one store at bb%s" % (stores[0][0] if stores else "?"), cfg):
        return
    sb, si = stores[0]
    # (d) nothing that can run a destructor / user code after the restore
    after = f.reachable_from(sb, unwind=True)
    us = [(b, k, d) for (b, k, d) in effects.user_sites(f) if b in after]
    eff = effects.get(prog)
    for b, t in f.calls(True):
        if b in after and mir.is_local_callee(t):
            tgt = mir.callee_short(t)
            if effects.transitive(prog, tgt, lambda g: bool(effects.user_sites(g))):
                us.append((b, "call", tgt))
    ctx.check(not us, "DRN1", f.short, "d: no destructor after the restore", short_loc(f, sb, si),
              "code that can run a destructor is reachable after `size` has been restored: %s — if it panics the "
              "restored size covers elements that were already destroyed or moved out" % "; ".join("bb%d %s" % (b, d) for b, k, d in us),
              "no user-code site in the %d blocks reachable from bb%d" % (len(after), sb), cfg)
    # (e) both droppers are passed before the restore
    gads = guard_adts(prog)
    dblocks = []
    for b, t in f.calls(False):
        if mir.callee_path(t) == "core::mem::drop" and any(g in a for a in mir.callee_of(t).get("args", []) for g in gads):
            dblocks.append(b)
    for b in f.reachable(False):
        t = f.term(b)
        if t["k"] == "drop" and not f.is_cleanup(b) and any(g in t["ty"] for g in gads):
            dblocks.append(b)
    ctx.check(len(dblocks) >= 2, "DRN1", f.short, "e: two dropper drops", f.loc,
              "expected the two Dropper values to be dropped on the normal path, found %d" % len(dblocks),
              "dropper drops in bb%s" % dblocks, cfg, nontrivial=False)
    for d in dblocks:
        ctx.check(f.must_pass(None, [d], {sb}), "DRN1", f.short, "e: dropper bb-drop precedes restore #%d" % dblocks.index(d), short_loc(f, d),
                  "a path reaches the restore of `size` without having dropped a Dropper: un-yielded elements are still "
                  "live when the buffer starts counting their slots again",
                  "every path to bb%d passes bb%d" % (sb, d), cfg)
    # (e) every normal return passes the restore, except under N == 0
    Nn = common.N(guards.buffer_cparam(f, ("param", 1)) or "N")
    zero_blocks = [b for b in f.reachable(False) if G.closure(b, extra_terms=[Nn]).eq0(Nn)]
    rets = set(f.return_blocks())
    ok = f.must_pass(None, [sb] + zero_blocks, rets)
    ctx.check(ok, "DRN1", f.short, "e: restore on every return path", f.loc,
              "a normal path through Drain::drop returns without restoring `size` (and without the fact N == 0): "
              "the buffer is silently emptied",
              "every path to a return passes bb%d or a block where N == 0 holds (%d such blocks)" % (sb, len(zero_blocks)), cfg)


def dtor_table(ctx, prog, cfg):
    """closed table of functions with a direct destructor site on a normal path"""
    found = {}
    for f in prog.fns.values():
        ds = [(b, k, d) for (b, k, d) in effects.destroy_sites(f) if not f.is_cleanup(b)]
        if ds:
            found[f.short] = ds
    table = tables.DESTROYS_T_NORMAL
    for short, ds in sorted(found.items()):
        if short.startswith("<CircularBuffer<N, u8> as "):
            continue
        ent = table.get(short)
        ctx.check(ent is not None, "DTOR-TABLE", short, "direct destructor site", prog.fns[short].loc,
                  "`%s` runs element destructors directly (%s) but is not in the reviewed table of destroying "
                  "functions: its ordering with respect to the header has not been reviewed"
                  % (short, "; ".join(d for _, _, d in ds)),
                  "reviewed: " + (ent or ""), cfg)
        if ent is not None:
            allowed = tables.DESTROYS_T_KINDS.get(short, {"drop"})
            bad = [(b, k, d) for (b, k, d) in ds if k not in allowed]
            ctx.check(not bad, "DTOR-TABLE", short, "kind of destructor site", short_loc(prog.fns[short], bad[0][0]) if bad else prog.fns[short].loc,
                      "`%s` was reviewed for %s only, and now also %s: elements are destroyed in place by a function whose ordering with "
                      "respect to the header has not been reviewed for that"
                      % (short, "dropping a local that is already out of the buffer" if allowed == {"drop"} else "/".join(sorted(allowed)),
                         "; ".join(d for _, _, d in bad)),
                      "site kinds %s within the reviewed %s" % (sorted({k for _, k, _ in ds}), sorted(allowed)), cfg)
    def through_guard(short):
        # the same destruction spelled as a scope guard: the local of a reviewed guard type goes out of scope on a normal path
        # (a `drop` terminator resolved to that guard's Drop impl) instead of being handed to mem::drop
        g = prog.fns[short]
        return any(g.term(b)["k"] == "drop" and not g.is_cleanup(b) and any(i in table for i in g.term(b).get("drop_impls", []))
                   for b in g.reachable(False))

    missing = [s for s in tables.DESTROYS_T_REQUIRED if s not in found and table_applies(s, prog) and not through_guard(s)]
    ctx.check(not missing, "DTOR-TABLE", "*", "table entries present", "?",
              "reviewed destroying functions no longer found: %s" % missing,
              "%d table entries found" % len(table), cfg, nontrivial=False)


def table_applies(short, prog):
    return short in prog.fns


def destroy1(ctx, prog, cfg, rule="DESTROY1"):
    """The destroying primitive destroys: every normal path through drop_range to a return passes
    the drops of both Droppers, except over the edge on which `range.is_empty()` holds (an early
    return keyed on anything else — element size, needs_drop, capacity — leaks the range)."""
    for prim in DESTROY_PRIMITIVES:
        f = ctx.need_fn(prog, prim, rule)
        if f is None:
            continue
        gads = guard_adts(prog)
        dblocks = [b for b in f.reachable(False) if f.term(b)["k"] == "drop" and not f.is_cleanup(b) and any(g in f.term(b)["ty"] for g in gads)]
        empties = []
        for b in sorted(f.reachable(False)):
            t = f.term(b)
            if t["k"] != "switch" or f._switch_const(t, b) is not None:
                continue
            n = len(f.blocks[b]["stmts"])
            d = mir.strip_casts(f.operand_expr(t["discr"], b, n))
            if isinstance(d, tuple) and d[0] == "call" and d[1] == "Range::is_empty":
                # the edge on which the result is true
                for (s, kind, label) in f.succ_edges(b):
                    if kind == "normal" and label and ((label[0] == "otherwise" and label[1] == [0]) or (label[0] == "val" and label[1] == 1)):
                        empties.append(s)
        ok = len(dblocks) >= 2 and f.must_pass(None, dblocks[:1] + empties, set(f.return_blocks())) and f.must_pass(None, dblocks[1:2] + empties, set(f.return_blocks()))
        ctx.check(ok, rule, prim, "returns only after destroying (or for an empty range)", f.loc,
                  "`%s` can return without dropping its element guards on a path that does not establish `range.is_empty()`: the "
                  "elements of the range are removed from the buffer but never destroyed (leak)" % prim,
                  "every return passes both Dropper drops (bb%s) or the empty-range edge (bb%s)" % (dblocks, empties), cfg)
