"""C19 — zero-sized elements and extreme capacities behave like any other.

  POS1  no raw position arithmetic: a value derived from `start`, `CircularSlicePtr.offset` or a
        result of add_mod/sub_mod never enters an Add/Mul/Shl (other than `+ 1`) outside
        add_mod/sub_mod themselves — such arithmetic overflows for positions near N near usize::MAX
  MOD1  all position arithmetic goes through add_mod, whose modulus is guarded (N > 0)
  ZST1  the element size never influences control flow: no size_of/align_of/offset_from/byte
        arithmetic anywhere in the crate
  LEN1  `size` changes only by +-1, by assignment of a value <= size, or at the reviewed sites;
        lengths are never multiplied, shifted or divided
Not decided: the number theory of add_mod's overflow compensation; underflow of `N - ...`.
"""
import re

from .. import effects, guards, mir, shared
from ..report import short_loc
from . import c04

QUICK = ["default"]
THOROUGH = ["default", "nostd", "alloc", "unstable", "eio_both", "eio_both_nostd", "eio", "eioa"]

EXPLANATION = (
    "Decides that position arithmetic is confined to add_mod/sub_mod (no raw `start + i`, `offset + k`, `pos * k` "
    "anywhere else, for any N up to usize::MAX), that the modulus is never zero, that element size/alignment is never "
    "inspected (so zero-sized types take the same paths as any other type), and that lengths are only stepped by one "
    "or assigned bounded values. Does NOT decide the correctness of add_mod's overflow compensation nor whether "
    "`N - 1`, `N - index - 1`, `M - size` underflow (values)."
)

POSITION_FNS = {"add_mod", "sub_mod"}
SIZE_FNS = {
    "core::mem::size_of", "core::mem::size_of_val", "core::mem::align_of", "core::mem::align_of_val", "core::mem::min_align_of",
    "core::intrinsics::size_of", "core::intrinsics::align_of", "<*const T>::offset_from", "<*mut T>::offset_from",
    "<*const T>::byte_add", "<*mut T>::byte_add", "<*const T>::byte_offset", "<*mut T>::byte_offset", "<*const T>::byte_sub",
    "<*mut T>::byte_sub", "<*const T>::byte_offset_from", "<*mut T>::byte_offset_from", "core::mem::needs_drop",
    "<*const T>::offset_from_unsigned", "<*mut T>::offset_from_unsigned", "core::alloc::layout::Layout::new",
    "core::any::type_name", "core::any::TypeId::of",
}
ARITH = ("Add", "Mul", "Shl", "AddWithOverflow", "MulWithOverflow", "AddUnchecked", "MulUnchecked", "ShlUnchecked")


def is_position(e, f=None):
    if f is not None:
        from .. import kinds

        if kinds.kind(f, e) == kinds.PHYS:
            return "a physical position (%s)" % mir.fmt(e, f)[:40]
    def rec(s):
        if not isinstance(s, tuple) or not s:
            return None
        if s[0] == "pcall" and str(s[1]).split("::")[-1] == "min" and len(s) > 2 and len(s[2]) == 2:
            # the smaller of two values is at most each of them: it is position-sized only if both are (a chunk length
            # `min(slice_len - offset, left_to_move)` is bounded by the count, whatever the offset)
            rs = [rec(x) for x in s[2]]
            return rs[0] if all(rs) else None
        if s[0] == "load" and s[2] and s[2][-1] in ("start", "offset"):
            return "load of `%s`" % s[2][-1]
        if s[0] == "field" and s[2] == "offset":
            return "field `offset`"
        if s[0] == "call" and s[1] in POSITION_FNS:
            return "result of %s" % s[1]
        for x in s:
            if isinstance(x, tuple):
                r = rec(x)
                if r:
                    return r
        return None

    return rec(e)


def is_length(e):
    for s in mir.walk(e):
        if isinstance(s, tuple) and s and s[0] == "load" and s[2] and s[2][-1] in ("size", "buf_size"):
            return True
    return False


def run(ctx, progs):
    ctx.explanation = EXPLANATION
    ctx.rule("POS1", "position-derived values enter Add/Mul/Shl only as `x + 1`, outside add_mod/sub_mod")
    ctx.rule("MOD1", "REQUIRES(modulus > 0) discharged")
    ctx.rule("ZST1", "no size_of/align_of/offset_from/needs_drop/byte arithmetic")
    ctx.rule("LEN1", "size stores of reviewed shape; no Mul/Shl/Div on lengths")
    ctx.rule("ARITH1", "no Add/Mul on caller-supplied indices/lengths (usize::MAX arguments) outside reviewed sites")
    for r_, t_ in (("RIDX1", "implicit range-index/split checks discharged"), ("DRNVIEW1", "un-yielded drain views bounded by iter"), ("DRAINIT1", "drain hands out read(i) of the produced index"),
                   ("ORD1", "std lexicographic comparison"), ("HASH1", "len + one hash per element"), ("DBG1", "list formatting"), ("BASE2", "compared pieces partition both sequences"),
                   ("BASE3", "split points are differences of first-segment lengths"), ("TWIN", "shared/mutable range views are one algorithm")):
        ctx.rule(r_, t_ + " (decided for symbolic N and T)")
    ctx.rule("SUB1", "REQUIRES(b <= a) of every usize subtraction a - b discharged by guard facts / INV / callers (transparent operands)")
    # "without ... bounds panic", boundary arguments included: the feasible explicit panic sites of every public entry are
    # the documented ones. The reachability analysis is symbolic in N and T, so its verdict is the one for N = usize::MAX / ZST.
    for r_, t_ in (("PAN1", "feasible explicit panic sites per public entry == documented table"), ("PAN2", "range arguments of reviewed non-panicking shape"),
                   ("PAN3", "no buffer write on a path from a panicking entry to its panic site")):
        ctx.rule(r_, t_ + " (decided for symbolic N and T)")
    ctx.rule("ITERAGG1", "every Iter/IterMut is built from (first, second) of one view or (right, left) of one iterator")
    for cfg, prog in progs.items():
        from . import c08 as _c08i

        _c08i.iteragg1(ctx, prog, cfg)
        pos1(ctx, prog, cfg)
        from . import c11 as _c11

        _c11.pan(ctx, prog, cfg)
        eng = shared.run_mod1(prog)
        shared.report_requires(ctx, eng, "MOD1", cfg)
        zst1(ctx, prog, cfg)
        len1(ctx, prog, cfg)
        from . import c11

        c11.arith1(ctx, prog, cfg)
        from .. import subrule

        subrule.report(ctx, prog, cfg)
        subrule.report(ctx, prog, cfg, "RIDX1", floor=25)
        # "the same sequence semantics as for ordinary elements": the rules below are decided for a symbolic capacity
        # and a symbolic element type, so their verdict covers N = usize::MAX and zero-sized T as it covers N = 4: the
        # number of destructor runs of a drain (DRNVIEW1/DRAINIT1), the results of comparison (ORD1/HASH1/BASE2),
        # the lengths/elements selected by the range views (TWIN)
        from .. import drainrules, shapes
        from . import c08, c13

        drainrules.drnview1(ctx, prog, cfg)
        drainrules.drainit1(ctx, prog, cfg)
        c13.ord_hash_dbg(ctx, prog, cfg)
        c13.base2(ctx, prog, cfg)
        for a, b in c08.PAIRS:
            shapes.twin(ctx, "TWIN", prog, a, b, cfg, what="the shared and the mutable form of one view")


def pos1(ctx, prog, cfg):
    n_arith = 0
    n_pos_uses = 0
    for f in prog.fns.values():
        if f.short in POSITION_FNS:
            continue
        for b, i, st, is_term in f.positions(False):
            if is_term or st["k"] != "assign" or st["rv"]["k"] != "binop":
                continue
            op = st["rv"]["op"]
            if op not in ARITH:
                continue
            n_arith += 1
            a = f.deep_simplify(f.operand_expr(st["rv"]["a"], b, i))
            c = f.deep_simplify(f.operand_expr(st["rv"]["b"], b, i))
            pa, pc = is_position(a, f), is_position(c, f)
            if not pa and not pc:
                continue
            n_pos_uses += 1
            ok = op.startswith("Add") and ((pa and mir.strip_casts(c) == ("int", 1)) or (pc and mir.strip_casts(a) == ("int", 1)))
            ctx.check(ok, "POS1", f.short, "%s(%s, %s)" % (op, mir.fmt(a, f)[:60], mir.fmt(c, f)[:60]), short_loc(f, b, i),
                      "raw arithmetic on a buffer position (%s): `%s` exceeds the machine word when the position is close to a "
                      "capacity close to usize::MAX; positions must go through add_mod/sub_mod" % (pa or pc, op),
                      "position + 1 (cannot overflow: position < N)", cfg)
        # the same through usize's arithmetic methods: saturating/wrapping/checked/overflowing add, mul, shl, pow:
        # they do not overflow, but what they return for a position near N near usize::MAX is not the position
        for b, t in f.calls(False):
            p_ = mir.callee_path(t) or ""
            m_ = re.fullmatch(r"<usize>::((saturating|wrapping|checked|overflowing|unchecked|strict|carrying)_(add|mul|shl|pow)|pow|next_power_of_two|next_multiple_of)", p_)
            if not m_:
                continue
            n_arith += 1
            args = [f.deep_simplify(x) for x in f.call_args(b)]
            pos = [is_position(x, f) for x in args]
            if not any(pos):
                continue
            n_pos_uses += 1
            ctx.violate("POS1", f.short, "%s(%s)" % (p_, ", ".join(mir.fmt(x, f)[:40] for x in args)), short_loc(f, b),
                        "`%s` is applied to a buffer position (%s): for a position close to a capacity close to usize::MAX the result "
                        "saturates/wraps to something that is no longer `position + offset`; positions must go through add_mod/sub_mod"
                        % (p_, next(x for x in pos if x)), cfg)
    # how many position computations go through the sanctioned functions
    calls = sum(len(f.calls_to("add_mod", False)) + len(f.calls_to("sub_mod", False)) for f in prog.fns.values())
    ctx.floor("POS1", "add_mod/sub_mod call sites", calls, 20, cfg)
    ctx.check(True, "POS1", "*", "scan", "?", "", "%d Add/Mul/Shl statements scanned, %d with a position operand, all of the form position + 1" % (n_arith, n_pos_uses), cfg, nontrivial=False)


def zst1(ctx, prog, cfg):
    n = 0
    for f in prog.fns.values():
        for b, t in f.calls(True):
            n += 1
            p = mir.callee_path(t)
            if p in SIZE_FNS:
                ctx.violate("ZST1", f.short, "calls %s" % p.split("::")[-1], short_loc(f, b),
                            "`%s` inspects the size/alignment/drop-need of the element type (`%s`): zero-sized or otherwise "
                            "special element types take a different path than ordinary ones" % (f.short, p), cfg)
        for b, i, st, is_term in f.positions(True):
            if is_term or st["k"] != "assign":
                continue
            rv = st["rv"]
            txt = rv.get("dbg", "") if rv["k"] in ("other",) else ""
            op = rv.get("op", {}) if rv["k"] == "use" else {}
            une = op.get("uneval", "") if isinstance(op, dict) else ""
            disp = op.get("disp", "") if isinstance(op, dict) else ""
            if "SizeOf" in txt or "AlignOf" in txt or "size_of" in une or "align_of" in une or "size_of" in disp or "align_of" in disp or "SIZE" in disp and "mem::SizedTypeProperties" in disp:
                ctx.violate("ZST1", f.short, "size/align constant", short_loc(f, b, i),
                            "`%s` uses the size/alignment of a type as a value (%s)" % (f.short, txt or une or disp), cfg)
    # address arithmetic used as a loop bound / test: `p != end`, `p < end` between raw pointers collapses for zero-sized T
    for f in prog.fns.values():
        for b, i, st, is_term in f.positions(False):
            if is_term or st["k"] != "assign" or st["rv"]["k"] != "binop" or st["rv"]["op"] not in ("Eq", "Ne", "Lt", "Le", "Gt", "Ge"):
                continue
            tys = []
            for o in (st["rv"]["a"], st["rv"]["b"]):
                if isinstance(o, dict) and o.get("k") in ("copy", "move"):
                    tys.append(o["place"].get("ty", ""))
            if any(ty_.startswith("*const ") or ty_.startswith("*mut ") for ty_ in tys) and not getattr(f, "rec", {}).get("exp_only"):
                if any(x.split("::")[-1] in ("debug_assert", "assert", "assert_unsafe_precondition") for x in st.get("exp", []) or []):
                    continue
                ctx.violate("ZST1", f.short, "raw pointer comparison", short_loc(f, b, i),
                            "`%s` decides something by comparing two raw pointers (%s): for a zero-sized element type all element addresses "
                            "coincide (`p.add(n) == p`), so an address-bounded loop or test behaves differently than for ordinary elements"
                            % (f.short, st["rv"]["op"]), cfg)
    ctx.check(n > 300, "ZST1", "*", "calls scanned", "?", "only %d call sites scanned" % n, "%d call sites scanned, none inspects element size/alignment" % n, cfg, nontrivial=False)


def len1(ctx, prog, cfg):
    c04.inv1(ctx, prog, cfg)
    for f in prog.fns.values():
        if f.short in POSITION_FNS:
            continue
        for b, i, st, is_term in f.positions(False):
            if is_term or st["k"] != "assign" or st["rv"]["k"] != "binop":
                continue
            op = st["rv"]["op"]
            if op.replace("Unchecked", "").replace("WithOverflow", "") not in ("Mul", "Shl", "Shr", "Div", "Rem"):
                continue
            a = f.operand_expr(st["rv"]["a"], b, i)
            c = f.operand_expr(st["rv"]["b"], b, i)
            if is_length(a) or is_length(c):
                ctx.violate("LEN1", f.short, "%s on a length" % op, short_loc(f, b, i),
                            "a buffer length is scaled (`%s(%s, %s)`): lengths up to usize::MAX overflow under multiplication/shift"
                            % (op, mir.fmt(a, f), mir.fmt(c, f)), cfg)
