"""C06 — a panic in user code (Clone, closure, iterator, eq) leaves a valid buffer.

  OCC(i)   every site at which user-chosen code can run is evaluated in state `balanced` of the
           occupancy typestate (size describes exactly the initialised slots), for every public
           entry, through callee summaries
  OCC(ii)  every public entry returns in state `balanced`;  OCC(iii) loop heads have one state
  OCC(iv)  a closure handed to code outside the crate keeps the typestate balanced across invocations
           whenever the driver runs user code between them (closure_balance)
  GUARD1   write_uninit_slice_cloned: the Guard is live at every clone, is forgotten only after
           the loop, and its Drop destroys dst[..initialized]
  RO1      comparison / ordering / hashing / formatting impls cannot write the buffer
  LEAK1    mem::forget / ManuallyDrop sites are the reviewed table
"""
from .. import common, effects, guards, mir, occ, tables
from ..report import short_loc

QUICK = ["default"]
THOROUGH = ["default", "nostd", "alloc", "unstable", "eio_both", "eio_both_nostd", "eio", "eioa"]

EXPLANATION = (
    "Decides, for every public entry and through callee summaries, that each call site at which user-chosen code "
    "can run (T::clone, the fill_with closure, the extend/from_iter iterator, PartialEq/PartialOrd/Ord/Hash/Debug "
    "of elements, element destructors) is reached only in the `balanced` state of the occupancy typestate, i.e. "
    "when `size` describes exactly the initialised slots — so an unwind from that site leaves a valid buffer and "
    "leaks nothing; plus the Guard protocol of write_uninit_slice_cloned, read-only-ness of the observer impls, "
    "and the closed table of mem::forget/ManuallyDrop sites. Independent of N, layout, argument length and of "
    "which invocation panics."
)

GUARD_FN = "CircularBuffer::extend_from_slice::write_uninit_slice_cloned"
GUARD_DROP = "<CircularBuffer::extend_from_slice::write_uninit_slice_cloned::Guard<T> as Drop>::drop"

OBSERVERS = ["eq", "ne", "partial_cmp", "cmp", "hash", "fmt", "lt", "le", "gt", "ge"]


def run(ctx, progs):
    ctx.explanation = EXPLANATION
    ctx.rule("OCC", "typestate over (items,size) and (Guard.dst,Guard.initialized): user code only in state balanced; "
                    "public entries return balanced; one state per loop head")
    ctx.rule("GUARD1", "Guard dominates every clone; forget after the loop only; Guard::drop destroys dst[..initialized]")
    ctx.rule("RO1", "observer impls take &self, contain no unsafe, have no WRITES effect")
    ctx.rule("SHRINK1", "a store that may shrink size is followed by drop_range on every path (no user code in between) or the function returns a Drain")
    ctx.rule("LEAK1", "mem::forget / ManuallyDrop::new sites == reviewed table")
    for cfg, prog in progs.items():
        run_occ(ctx, prog, cfg, "OCC")
        guard1(ctx, prog, cfg)
        ro1(ctx, prog, cfg)
        leak1(ctx, prog, cfg)
        user_site_floor(ctx, prog, cfg)
        # elements taken out of the buffer's custody by a shrinking store are handed to drop_range / a Drain before any
        # user code can run (otherwise a panic in that code leaks them)
        from . import c05

        c05.shrink1(ctx, prog, cfg)


def occ_scope(prog):
    """public entries that can reach an occupancy event or user code while holding the buffer"""
    out = []
    for f in prog.public_entries():
        if not f.has_mir:
            continue
        if f.short.startswith("<Drain<") or f.short.startswith("Drain::"):
            continue  # governed by DRN1
        if f.short == "<CircularBuffer<N, T> as From<[T; M]>>::from":
            continue  # builds a buffer rather than operating on one: FROMARR1 + PS2
        out.append(f)
    return out


def run_occ(ctx, prog, cfg, rule):
    O = occ.Occ(prog)
    nsites = 0
    reported = set()
    guard_fns = [f for f in prog.fns.values() if f.has_mir and occ.is_guard_fn(f)]
    for f in sorted(occ_scope(prog) + guard_fns, key=lambda x: x.short):
        outs, viol = O.transfer(f.short, occ.BAL)
        for v in viol:
            via = " -> ".join("%s (%s)" % x for x in v.get("via", []))
            site = "%s:user-code@%s:%s" % (v["rule"], v["state"], _site_name(v["desc"]))
            key = (v["fn"], site)
            if key in reported:
                continue
            reported.add(key)
            if v["rule"] == "iii":
                ctx.violate(rule, v["fn"], "iii:" + v["desc"], v["loc"],
                            "a loop head is reached in more than one occupancy state: the loop body's bookkeeping is unbalanced", cfg)
                continue
            ctx.violate(rule, v["fn"], site, v["loc"],
                        "user code can run (%s) while the buffer is in state `%s` (%s): if it panics, the buffer %s"
                        % (v["desc"], v["state"], STATE_TEXT[v["state"]], CONSEQ[v["state"]]),
                        cfg, detail=("reached from %s via %s" % (f.short, via)) if via else ("entry: %s" % f.short))
        if f in guard_fns:
            # a guard function returns with its slots initialised and its guard forgotten: the
            # commit is the caller's (it sees an A event); only user code inside matters here
            continue
        bad_out = [s for s in outs if s != occ.BAL]
        if f.rec.get("sig", {}).get("output", "").find("CircularBuffer") >= 0 and False:
            pass
        ctx.check(not bad_out, rule, f.short, "ii:returns balanced", f.loc,
                  "public entry returns with the buffer in state %s: %s" % (bad_out, "; ".join(STATE_TEXT[s] for s in bad_out)),
                  "all normal returns in state balanced", cfg,
                  nontrivial=bool(effects.get(prog).callees(f.short)))
    closure_balance(ctx, prog, cfg, rule, O)
    # count evaluated user sites (each evaluated in every state reaching it)
    for (short, st), (outs, viol) in O.memo.items():
        f = prog.fns[short]
        for (b, k, d) in effects.user_sites(f):
            nsites += 1
            if not any(v["fn"] == short and v["b"] == b for v in viol):
                ctx.ok(rule, short, "i:%s@entry-state %s" % (_site_name(d), st), "site reached only in state balanced", cfg)
    ctx.floor(rule, "user-code sites evaluated", nsites, 30, cfg)
    # the private event functions: summaries are what DESIGN.md lists
    expect = {
        "CircularBuffer::inc_size": (occ.BAL, {occ.SIZE}),
        "CircularBuffer::dec_size": (occ.DEAD, {occ.BAL}),
    }
    for short, (st, want) in expect.items():
        if prog.fn(short) is None:
            ctx.violate(rule, short, "anchor-missing", "?", "bookkeeping helper not found", cfg)
            continue
        outs, _ = O.transfer(short, st)
        ctx.check(outs == want, rule, short, "summary from %s" % st, prog.fn(short).loc,
                  "bookkeeping helper `%s` entered in state %s leaves states %s, expected %s" % (short, st, sorted(outs), sorted(want)),
                  "summary %s -> %s" % (st, sorted(outs)), cfg)



_USER_DRIVER = None


def _driver_runs_user_code(tyargs):
    """do the type arguments of a foreign call (closure names removed) name something whose code the crate's user
    chose: an associated-type projection (`<I as IntoIterator>::IntoIter`), a type parameter other than the element
    type / the capacities, or a cloning adapter over the element type"""
    import re

    txt = " ".join(re.sub(r"\{closure:[^{}]*(\{closure#\d+\})+\}", "", a) for a in tyargs)
    if re.search(r"<[A-Z][A-Za-z0-9_]* as ", txt) or "::Cloned<" in txt or "::cloned::" in txt:
        return True
    txt = txt.replace("MaybeUninit", "").replace("CircularBuffer", "")
    params = set(re.findall(r"(?<![A-Za-z0-9_:])([A-Z][A-Za-z0-9_]*)(?![A-Za-z0-9_:<])", txt))
    return bool(params - {"T", "N", "M", "U"})


def closure_balance(ctx, prog, cfg, rule, O):
    """OCC(iv): a closure of the crate that is handed to code outside the crate (an iterator adapter, a std
    combinator that was not desugared) is invoked at points and as often as that code decides. Every such closure
    is evaluated from `balanced` and from every state its own invocations can leave behind; user code inside it
    must only run in `balanced`, and when the driver itself runs user code between invocations (a user iterator's
    `next`, `T::clone` of a cloning adapter) each invocation must return in `balanced`."""
    closures = {f.rec.get("path"): f for f in prog.fns.values() if f.has_mir and "{closure#" in f.short and f.rec.get("path")}
    if not closures:
        return
    handed = {}  # closure short -> [(holder, block, callee short, driver-is-user)]
    for h in prog.fns.values():
        if not h.has_mir:
            continue
        # captures that are references to a counter field (`&mut buf.size`, `&mut guard.initialized`): a store through
        # them inside the closure is a bookkeeping event there
        for b, i, st, is_term in h.positions(True):
            if is_term or st["k"] != "assign" or st["rv"].get("k") != "aggregate" or st["rv"].get("agg") != "closure":
                continue
            g = closures.get(st["rv"].get("closure"))
            if g is None:
                continue
            for fl in st["rv"].get("fields", []):
                op = fl.get("op", {})
                if "place" not in op or op["place"].get("proj") or not op["place"].get("ty", "").startswith("&mut usize"):
                    continue
                e = mir.strip_casts(h.deep_simplify(h.local_expr(op["place"]["local"], b, i)))
                if isinstance(e, tuple) and e[:1] == ("ref",) and isinstance(e[1], tuple) and e[1][:1] == ("place",) and len(e[1]) == 3 and e[1][2]:
                    last = [x for x in e[1][2] if isinstance(x, str)][-1:]
                    if last and last[0] in ("size", "initialized"):
                        O.capture_counters.setdefault(g.short, {})[fl["name"]] = last[0]
        for b, t in h.calls(True):
            if mir.is_local_callee(t):
                continue
            fn = mir.callee_of(t)
            if fn is None:
                continue
            tyargs = list(fn.get("args") or [])
            for path, g in closures.items():
                tag = "{closure:%s}" % path
                if any(tag in a for a in tyargs):
                    handed.setdefault(g.short, []).append((h, b, fn.get("rshort") or fn["short"], _driver_runs_user_code(tyargs)))
    for short in sorted(handed):
        g = prog.fns[short]
        states, todo, viols = {occ.BAL}, [occ.BAL], []
        while todo:
            s = todo.pop()
            outs, v = O.transfer(short, s)
            viols += v
            for o in outs:
                if o not in states:
                    states.add(o)
                    todo.append(o)
        for v in viols:
            ctx.violate(rule, v["fn"], "iv:%s:user-code@%s:%s" % (short.split("::")[-1], v["state"], _site_name(v["desc"])), v["loc"],
                        "user code can run (%s) inside a closure handed to %s while the buffer is in state `%s` (%s): if it panics, the buffer %s"
                        % (v["desc"], handed[short][0][2], v["state"], STATE_TEXT[v["state"]], CONSEQ[v["state"]]), cfg)
        user_drivers = sorted({(h.short, c) for (h, b, c, u) in handed[short] if u})
        bad = sorted(states - {occ.BAL})
        if user_drivers and bad:
            h, c = user_drivers[0]
            ctx.violate(rule, short, "iv:closure-unbalanced:%s" % ",".join(bad), g.loc,
                        "this closure is driven by %s (in %s), which runs user-chosen code between invocations, and an invocation "
                        "leaves the buffer in state %s: %s. If the driver's user code panics, the buffer %s"
                        % (c, h, bad, "; ".join(STATE_TEXT[s] for s in bad), "; ".join(CONSEQ[s] for s in bad)), cfg)
        elif not viols:
            ctx.ok(rule, short, "iv:closure handed to %s" % ", ".join(sorted({c for (_, _, c, _) in handed[short]})),
                   "every invocation from states %s: user code only in balanced%s" % (sorted(states), "; returns balanced" if user_drivers else "; driver runs no user code"), cfg)


STATE_TEXT = {
    occ.INIT: "slots have been initialised that `size` does not cover yet",
    occ.SIZE: "`size` already covers a slot that has not been written",
    occ.DEAD: "an element has been moved out but is still inside `size`",
    occ.BAL: "size describes exactly the initialised slots",
}
CONSEQ = {
    occ.INIT: "forgets the already created elements (leak)",
    occ.SIZE: "exposes an uninitialised slot as an element",
    occ.DEAD: "still owns the moved-out element: it is destroyed twice",
    occ.BAL: "is valid",
}


def _site_name(desc):
    import re

    d = re.sub(r"\s*\(.*$", "", desc)
    d = re.sub(r"@bb\d+", "", d)
    return d[:80]


def guard1(ctx, prog, cfg):
    f = prog.fn(GUARD_FN)
    if f is None:
        if cfg == "unstable":
            ctx.ok("GUARD1", GUARD_FN, "absent under `unstable` (std's write_clone_of_slice is used)", "cfg", cfg, nontrivial=False)
        else:
            ctx.violate("GUARD1", GUARD_FN, "anchor-missing", "?", "guard function not found", cfg)
        return
    builds = [(b, i) for b, i, st, is_term in f.positions(False)
              if not is_term and st["k"] == "assign" and st["rv"]["k"] == "aggregate" and st["rv"].get("adt", "").endswith("::Guard")]
    users = [(b, d) for (b, k, d) in effects.user_sites(f) if not f.is_cleanup(b) and k in ("call-generic", "call-bound")]
    forgets = [b for b, t in f.calls(False) if mir.callee_path(t) == common.MEM_FORGET]
    ctx.check(len(builds) == 1 and len(forgets) == 1 and users, "GUARD1", f.short, "one guard, one forget, clone sites", f.loc,
              "expected one Guard construction, one mem::forget and at least one clone site; found %d/%d/%d" % (len(builds), len(forgets), len(users)),
              "guard at bb%s, forget at bb%s, %d clone site(s)" % (builds and builds[0][0], forgets, len(users)), cfg, nontrivial=False)
    if not (builds and forgets and users):
        return
    gb = builds[0]
    for (b, d) in users:
        ctx.check(f.pos_dominates(gb, (b, len(f.blocks[b]["stmts"])), False), "GUARD1", f.short, "guard live at clone", short_loc(f, b),
                  "a clone can run before the Guard exists: clones made so far are leaked if it panics",
                  "Guard construction bb%d dominates clone bb%d" % (gb[0], b), cfg)
        after_forget = f.reachable_from(forgets[0], unwind=True)
        ctx.check(b not in after_forget and b != forgets[0] or False, "GUARD1", f.short, "no clone after forget", short_loc(f, b),
                  "a clone is reachable after mem::forget(guard): the guard no longer protects the clones made so far",
                  "clone bb%d not reachable from forget bb%d" % (b, forgets[0]), cfg)
    loops = {x for be in f.back_edges(False) for x in _loop_body(f, be)}
    ctx.check(forgets[0] not in loops, "GUARD1", f.short, "forget outside the loop", short_loc(f, forgets[0]),
              "mem::forget(guard) is inside the cloning loop", "forget block bb%d is not in a loop body" % forgets[0], cfg)
    # Guard::drop destroys dst[..initialized]
    g = prog.fn(GUARD_DROP)
    if g is None:
        ctx.violate("GUARD1", GUARD_DROP, "anchor-missing", "?", "Guard::drop not found", cfg)
        return
    ok = False
    why = "no drop_in_place found"
    for b, t in g.calls(False):
        if mir.callee_path(t) == common.DROP_IN_PLACE:
            e = g.call_args(b)[0]
            found = [s for s in mir.walk(e) if isinstance(s, tuple) and s and s[0] == "call" and "index_mut" in str(s[1])]
            for s in found:
                a = s[2]
                def _fld(x, name):   # `self.name` read directly, or through the destructuring `let Self { name, .. } = self`
                    return isinstance(x, tuple) and len(x) >= 3 and x[0] in ("load", "place") and tuple(x[2]) == (name,)
                base_ok = any(_fld(x, "dst") for x in mir.walk(a[0]))
                rng = a[1] if len(a) > 1 else None
                rng_ok = (isinstance(rng, tuple) and rng[0] == "agg" and rng[1].endswith("RangeTo")
                          and any(_fld(x, "initialized") for x in mir.walk(rng)))
                if base_ok and rng_ok:
                    ok = True
            why = "drop_in_place argument is `%s`" % mir.fmt(e, g)
    dips = [b for b, t in g.calls(False) if mir.callee_path(t) == common.DROP_IN_PLACE]
    ctx.check(bool(dips) and g.must_pass(None, dips, set(g.return_blocks())), "GUARD1", g.short, "destroys on every path", g.loc,
              "Guard::drop can return without reaching its drop_in_place (an early return keyed on the element type, its size or anything "
              "else): the clones made before a panicking clone are leaked", "drop_in_place bb%s on every path to the return" % dips, cfg)
    ctx.check(ok, "GUARD1", g.short, "destroys dst[..initialized]", g.loc,
              "Guard::drop does not destroy exactly `dst[..initialized]`: %s" % why,
              "drop_in_place(&mut dst[..initialized] as *mut [T])", cfg)


def _loop_body(f, be):
    tail, head = be
    body = {head, tail}
    st = [tail]
    preds = f.preds(False)
    while st:
        x = st.pop()
        if x == head:
            continue
        for p in preds.get(x, []):
            if p not in body:
                body.add(p)
                st.append(p)
    return body


def ro1(ctx, prog, cfg):
    eff = effects.get(prog)
    n = 0
    for f in prog.fns.values():
        imp = f.impl()
        if not imp or not imp.get("of_trait") or f.is_closure():
            continue
        tr = imp.get("trait", "")
        if not (tr.startswith("core::cmp::") or tr.startswith("core::hash::Hash") or tr.startswith("core::fmt::")):
            continue
        if f.name not in OBSERVERS:
            continue
        n += 1
        recv = f.local_ty(1) if f.arg_count >= 1 else ""
        w = {x for x in eff.writes(f.short) if isinstance(x, str) and x in ("size", "start", "items", effects.ALL)}
        unsafe_n = sum(prog.fns[x].rec.get("unsafe_blocks", 0) for x in [f.short] + [c.short for c in prog.closures_of(f.short)])
        ok = recv.startswith("&") and not recv.startswith("&mut") and not w and unsafe_n == 0
        ctx.check(ok, "RO1", f.short, "read-only observer", f.loc,
                  "observer impl can modify the buffer: receiver `%s`, writes %s, %d unsafe block(s) — a panic in the "
                  "element's comparison/hash/fmt could then leave it changed" % (recv, sorted(w), unsafe_n),
                  "&self receiver, no WRITES effect, no unsafe", cfg)
    ctx.floor("RO1", "observer impls", n, 12, cfg)


def leak1(ctx, prog, cfg):
    found = {}
    for f in prog.fns.values():
        for b, t in f.calls(True):
            p = mir.callee_path(t)
            if p in (common.MEM_FORGET, "core::mem::manually_drop::ManuallyDrop::new"):
                found.setdefault(f.short, []).append((b, p.split("::")[-2] + "::" + p.split("::")[-1]))
    for short, sites in sorted(found.items()):
        ent = tables.FORGET_SITES.get(short)
        ctx.check(ent is not None and len(sites) <= ent[0], "LEAK1", short, "forget/ManuallyDrop x%d" % len(sites), prog.fns[short].loc,
                  "`%s` disarms a destructor (%s) outside the reviewed table: elements can be leaked silently"
                  % (short, ", ".join(s for _, s in sites)),
                  "reviewed: %s" % (ent[1] if ent else ""), cfg)


def user_site_floor(ctx, prog, cfg):
    kinds = {"clone": 0, "call_mut": 0, "for_each": 0, "eq": 0}
    for f in prog.fns.values():
        for (b, k, d) in effects.user_sites(f):
            if f.is_cleanup(b):
                continue
            if "Clone::clone" in d or "cloned" in d or "write_clone_of_slice" in d:
                kinds["clone"] += 1
            if "call_mut" in d:
                kinds["call_mut"] += 1
            if "for_each" in d:
                kinds["for_each"] += 1
            if "PartialEq" in d:
                kinds["eq"] += 1
    ctx.extra.setdefault("user_site_kinds", {})[cfg] = kinds
    ctx.floor("OCC", "direct clone sites", kinds["clone"], 4, cfg)
    ctx.floor("OCC", "FnMut::call_mut sites", kinds["call_mut"], 1, cfg)
    ctx.floor("OCC", "for_each sites", kinds["for_each"], 2, cfg)
    ctx.floor("OCC", "element comparison sites", kinds["eq"], 10, cfg)
