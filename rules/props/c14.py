"""C14 — byte-stream I/O: write keeps the newest N bytes, read consumes from the front.

  IO1  never an error: every return of write/flush/read/fill_buf is an `Ok` aggregate, except the
       `?` propagation in read whose source is the allow-listed infallible <&[u8] as Read>::read
  IO2  write = extend_from_slice(self, src) once with src unmodified, returns Ok(src.len());
       flush touches nothing
  IO3  read: both reads are on the two results of one as_slices() call, in order (front into dst,
       back into dst[count..]); the only mutation is truncate_front(len - (r1 + r2)) after both;
       returns Ok(r1 + r2); fill_buf returns front unless it is empty, else back, of one as_slices()
  IO4  consume = drain(..min(amt, len)); the clamp makes the range assertion unreachable
  MOD1 no modulus by / index into capacity zero from the five entries
Not decided: that the kept bytes are the newest N (inherits extend_from_slice, C01); that
`len - count` cannot underflow; that fill_buf is non-empty whenever the buffer is (needs C07(5)).
"""
import re

from .. import common, effects, guards, mir, shapes, shared
from ..report import short_loc

QUICK = ["default"]
THOROUGH = ["default", "unstable", "eio_both"]

EXPLANATION = (
    "Decides the shape of the five std::io methods: they cannot return Err (IO1), write forwards the unmodified input "
    "to extend_from_slice exactly once and reports its full length (IO2), read copies from the front slice then the back "
    "slice of one as_slices() call into dst resp. dst[count..], removes exactly r1 + r2 bytes from the front afterwards "
    "and returns that count, fill_buf prefers the front slice (IO3), consume drains ..min(amt, len) (IO4), and none of "
    "them can divide by or index with a zero capacity (MOD1). The embedded-io siblings inherit through C16. Does NOT "
    "decide which bytes extend_from_slice keeps, nor the value-level facts about the &[u8] reader."
)

W = "<CircularBuffer<N, u8> as std::Write>::"
RD = "<CircularBuffer<N, u8> as std::Read>::"
BR = "<CircularBuffer<N, u8> as std::BufRead>::"
SR = r"<&\[u8\] as std::(io::)?Read>::read"


def run(ctx, progs):
    ctx.explanation = EXPLANATION
    for r, t in (("IO1", "never Err"), ("IO2", "write/flush shapes"), ("IO3", "read/fill_buf shapes"), ("IO4", "consume = drain(..min(amt, len))"), ("MOD1", "capacity zero"), ("DRN1", "consume relies on Drain::drop: droppers -> restore -> return on every path")):
        ctx.rule(r, t)
    ctx.assumptions.append("<&[u8] as std::io::Read>::read is infallible and copies min(len) bytes (std source)")
    if "default" in progs and "unstable" in progs:
        # the io impls under the `unstable` feature: everything above is decided on each configuration's own MIR; that the nightly arms of the helpers
        # are the reviewed substitution of a std API for the hand-written code (same operands, same end of the slice) is C18's
        # DELEG1, evaluated here too because the statement quantifies over configurations
        from . import c18 as _c18

        ctx.rule("DELEG1", "each unstable arm is the reviewed substitution with pass-through operands")
        _c18.deleg1(ctx, progs["default"], progs["unstable"], "default|unstable", _c18.cfgdiff2(ctx, progs["default"], progs["unstable"], "default|unstable") if False else ())

    for cfg, prog in progs.items():
        io1(ctx, prog, cfg)
        io2(ctx, prog, cfg)
        io3(ctx, prog, cfg)
        io4(ctx, prog, cfg)
        eng = shared.run_mod1(prog)
        n = shared.report_requires(ctx, eng, "MOD1", cfg, entry_filter=lambda s: s.startswith("<CircularBuffer<N, u8> as std::"))
        ctx.floor("MOD1", "sites reachable from the io entries", n, 8, cfg)
        # consume(amt) is `drain(..amt)` dropped at once: what stays in the buffer is decided by Drain::drop
        # (droppers -> back-fill -> restore of size on every path)
        from . import c05

        c05.drn1_de(ctx, prog, cfg)


def io1(ctx, prog, cfg):
    for short in (W + "write", W + "flush", RD + "read", BR + "fill_buf"):
        f = ctx.need_fn(prog, short, "IO1")
        if f is None:
            continue
        n = 0
        for (b, i, k, payload) in common.ret_assignments(f):
            n += 1
            if k == "stmt":
                v = common.variant_of_rv(payload)
                ctx.check(v is not None and v[0] == "Ok", "IO1", short, "returns Ok", short_loc(f, b, i),
                          "`%s` can return something other than Ok(..) (%s): the byte-stream impls must never fail" % (short, v[0] if v else "non-aggregate"),
                          "Ok aggregate", cfg)
            else:
                p = mir.callee_path(payload) or ""
                ok = "FromResidual" in p and short == RD + "read"
                src_ok = False
                if ok:
                    a = f.call_args(b)[0]
                    def from_reader(e_):
                        return any(isinstance(s, tuple) and s and s[0] == "call" and re.fullmatch(SR, s[1] if isinstance(s[1], str) else "") for s in mir.walk(e_))
                    src_ok = from_reader(a)
                    if not src_ok:
                        # the residual is a joined value: every `Err(..)` the function builds must carry an error of the slice reader
                        # (directly, or one that was itself joined from such)
                        errs = [f.deep_simplify(f.rvalue_expr(st_["rv"], b_, i_)) for b_, i_, st_, it_ in f.positions(False)
                                if not it_ and st_["k"] == "assign" and st_["rv"]["k"] == "aggregate" and st_["rv"].get("adt") == "core::result::Result" and st_["rv"].get("variant") == "Err"]
                        src_ok = bool(errs) and all(from_reader(e_) or any(isinstance(s, tuple) and s and s[0] == "phi" for s in mir.walk(e_)) for e_ in errs) \
                            and any(from_reader(e_) for e_ in errs)
                ctx.check(ok and src_ok, "IO1", short, "error propagation only from the infallible slice reader", short_loc(f, b),
                          "`%s` returns the result of `%s`: an error can be produced or propagated from a fallible source" % (short, p),
                          "`?` on <&[u8] as Read>::read (infallible)", cfg)
        ctx.check(n >= 1, "IO1", short, "return sites", f.loc, "no return assignment found", "%d return sites" % n, cfg, nontrivial=False)
    f = prog.fn(BR + "consume")
    if f is not None:
        ctx.check(f.rec.get("sig", {}).get("output") == "()", "IO1", f.short, "returns ()", f.loc, "consume returns a value", "unit return", cfg, nontrivial=False)


def io2(ctx, prog, cfg):
    shapes.must_match(ctx, "IO2", prog, W + "write",
                      [r"call CircularBuffer::extend_from_slice\(self, src\)", r"return Result::Ok\{0: <\[T\]>::len\(src\)\}"], cfg,
                      "extend_from_slice(self, src); Ok(src.len())",
                      "`write` does not hand the whole, unmodified input to extend_from_slice exactly once and report `src.len()`")
    shapes.must_match(ctx, "IO2", prog, W + "flush", [r"return Result::Ok\{0: tuple::\{\}\}"], cfg, "Ok(())", "`flush` does something other than returning Ok(())")


def io3(ctx, prog, cfg):
    front = r"CircularBuffer::as_slices\(self\)\.0"
    back = r"CircularBuffer::as_slices\(self\)\.1"
    r1 = r"%s\(&\{%s\}, dst\) as Ok\.0" % (SR, front)
    dst2 = r"<\[T\] as IndexMut<I>>::index_mut\(dst, RangeFrom::RangeFrom\{start: %s\}\)" % r1
    r2 = r"%s\(&\{%s\}, %s\) as Ok\.0" % (SR, back, dst2)
    shapes.must_match(ctx, "IO3", prog, RD + "read",
                      [r"call CircularBuffer::as_slices\(self\)",
                       r"call %s\(&\{%s\}, dst\)" % (SR, front),
                       r"call <\[T\] as core::ops::index::IndexMut<I>>::index_mut\(dst, RangeFrom::RangeFrom\{start: %s\}\)" % r1,
                       r"call %s\(&\{%s\}, %s\)" % (SR, back, dst2),
                       r"call CircularBuffer::truncate_front\(self, Sub\(\(\*self\)\.size, Add\(%s, %s\)\)\)" % (r1, r2),
                       r"return Result::Ok\{0: Add\(%s, %s\)\}" % (r1, r2)], cfg,
                      "front -> dst, back -> dst[r1..], truncate_front(len - (r1 + r2))",
                      "`read` does not copy from the front slice and then the back slice of one as_slices() call into dst and "
                      "dst[r1..], and/or does not remove exactly r1 + r2 bytes from the front after both copies")
    f = prog.fn(RD + "read")
    if f is not None:
        # returned count is Ok(r1 + r2)
        ok = False
        for (b, i, k, payload) in common.ret_assignments(f):
            if k == "stmt":
                v = common.variant_of_rv(payload)
                if v and v[0] == "Ok":
                    e = f.deep_simplify(f.operand_expr(v[1][0]["op"], b, i))
                    from .. import skeleton

                    s = skeleton.canon(e, lambda x: x, 1, None, lambda n: f.local_name(n))
                    ok = re.fullmatch(r"Add\(%s, %s\)" % (r1, r2), s) is not None
        ctx.check(ok, "IO3", f.short, "returns Ok(r1 + r2)", f.loc, "`read` does not return the sum of the two copy counts", "Ok(r1 + r2)", cfg)
        # the only buffer mutation is the truncate_front
        ws = []
        for b in sorted(f.reachable(False)):
            ws.extend((b, w) for w in common.writes_at(f, b))
        ws = [(b, w) for (b, w) in ws if re.search(r"\b(size|start|items)\b", w[1].split("(writes")[-1]) or "store to" in w[1]]
        ctx.check(len(ws) == 1 and "truncate_front" in ws[0][1][1], "IO3", f.short, "single mutation", f.loc,
                  "`read` mutates the buffer other than by one truncate_front: %s" % [w[1] for _, w in ws], "one mutation: truncate_front", cfg)
    f = ctx.need_fn(prog, BR + "fill_buf", "IO3")
    if f is not None:
        # fact-based: one as_slices(self); every value that can become the payload of the returned Ok is `front` where
        # the facts say front is non-empty, or `back` where they say front is empty — however the choice is spelled
        # (two `Ok(..)` returns, or one `Ok(if .. { front } else { back })`)
        asl = f.calls_to("CircularBuffer::as_slices", unwind=False)
        others = [mir.callee_path(t_) for b_, t_ in f.calls(False) if mir.callee_short(t_) not in ("CircularBuffer::as_slices",) and mir.callee_path(t_) not in ("<[T]>::is_empty", "<[T]>::len")]
        ctx.check(len(asl) == 1 and not others, "IO3", f.short, "one as_slices(); nothing else", f.loc,
                  "`fill_buf` does not work on the two results of exactly one as_slices() call (%d calls; other calls: %s)" % (len(asl), others[:3]),
                  "one as_slices(self)", cfg)
        G = guards.Guards(f)
        seen = set()
        for (b, i, k, payload) in common.ret_assignments(f):
            if k != "stmt":
                ctx.violate("IO3", f.short, "returns Ok(front|back)", short_loc(f, b), "`fill_buf` returns the result of another call", cfg)
                continue
            v = common.variant_of_rv(payload)
            if not v or v[0] != "Ok":
                ctx.violate("IO3", f.short, "returns Ok(front|back)", short_loc(f, b, i), "`fill_buf` can return something other than Ok(..)", cfg)
                continue
            op = v[1][0]["op"]
            sites = [(b, mir.strip_casts(f.deep_simplify(f.operand_expr(op, b, i))))]
            if isinstance(sites[0][1], tuple) and sites[0][1][:1] == ("phi",) and op.get("k") in ("move", "copy") and not op["place"]["proj"]:
                # the payload is chosen earlier: judge each definition of that local where it is made
                n_ = op["place"]["local"]
                sites = [(db, mir.strip_casts(f.deep_simplify(f.rvalue_expr(st_["rv"], db, di))))
                         for db, di, st_, it_ in f.positions(False) if not it_ and st_["k"] == "assign" and st_["place"]["local"] == n_ and not st_["place"]["proj"]]
            for (sb, e) in sites:
                which = e[2] if isinstance(e, tuple) and e[0] == "field" and isinstance(e[1], tuple) and e[1][:2] == ("call", "CircularBuffer::as_slices") else None
                flen = ("pcall", "<[T]>::len", (("field", ("call", "CircularBuffer::as_slices", (("param", 1),), asl[0][0] if asl else 0), "0"),))
                Zf = G.closure(sb, extra_terms=[flen])
                empty_front, nonempty_front = Zf.eq0(flen), Zf.gt0(flen)
                ok = (which == "0" and nonempty_front) or (which == "1" and empty_front)
                seen.add(which)
                ctx.check(ok, "IO3", f.short, "Ok(%s) under front %s" % ("front" if which == "0" else "back", "non-empty" if which == "0" else "empty"), short_loc(f, sb),
                          "`fill_buf` returns %s although front is %s: a non-empty buffer can yield an empty slice, which BufRead readers "
                          "take for end of stream" % ("front" if which == "0" else ("back" if which == "1" else "`%s`" % mir.fmt(e, f)[:40]), "empty" if which == "0" else "not known to be empty"),
                          "returns front iff front is non-empty", cfg)
        ctx.check({"0", "1"} <= seen, "IO3", f.short, "both pieces can be returned", f.loc, "`fill_buf` never returns %s" % ("back" if "1" not in seen else "front"),
                  "front and back are both returned", cfg, nontrivial=False)


def io4(ctx, prog, cfg, short=None, rule="IO4"):
    """consume(amt) removes exactly min(amt, len) bytes from the front: its one mutation is one `drain(..E)` whose result
    is dropped at once, and E is min(amt, size) — spelled with a `min`, or chosen by a branch: then each value that can
    flow into E is `amt` on an edge whose facts entail amt <= size, or the size on an edge whose facts entail size <= amt"""
    short = short or BR + "consume"
    f = ctx.need_fn(prog, short, rule)
    if f is None:
        return
    dr = f.calls_to("CircularBuffer::drain", unwind=False)
    muts = [(b, mir.callee_short(t)) for b, t in f.calls(False) if mir.is_local_callee(t) and mir.callee_short(t) in prog.fns
            and effects.get(prog).writes(mir.callee_short(t)) and mir.callee_short(t) != "CircularBuffer::drain"
            and not (mir.callee_short(t) or "").startswith("<Drain<N, T> as Drop>")]
    stores = [w for b in f.reachable(False) for w in common.writes_at(f, b) if "store to" in w[1]]
    ctx.check(len(dr) == 1 and not muts and not stores, rule, f.short, "one drain(..), nothing else mutates", f.loc,
              "`consume` does not mutate the buffer by exactly one drain(..) (drain calls: %d; other mutating calls: %s; stores: %d)" % (len(dr), [m for _, m in muts][:3], len(stores)),
              "one call of drain", cfg)
    if len(dr) != 1:
        return
    b = dr[0][0]
    a = [mir.strip_casts(f.deep_simplify(x)) for x in f.call_args(b)]
    E = None
    if len(a) == 2 and isinstance(a[1], tuple) and a[1][0] == "agg" and a[1][2] == "RangeTo":
        E = mir.strip_casts(dict(a[1][3]).get("end"))
    size0 = common.entry_size(f)
    amt = ("param", 2)

    def is_size(e):
        e = mir.strip_casts(e)
        return e == size0 or (isinstance(e, tuple) and e[:2] in (("call", "CircularBuffer::len"), ("pcall", "CircularBuffer::len")) and len(e[2]) == 1)

    ok, why = False, "the range given to drain is not `..E`"
    if E is not None:
        if isinstance(E, tuple) and E[0] == "pcall" and str(E[1]).split("::")[-1] == "min" and len(E[2]) == 2:
            x, y = mir.strip_casts(E[2][0]), mir.strip_casts(E[2][1])
            ok = (x == amt and is_size(y)) or (y == amt and is_size(x))
            why = "E = min(%s, %s)" % (mir.fmt(x, f)[:30], mir.fmt(y, f)[:30])
        elif isinstance(E, tuple) and E[0] == "phi" and len(E) == 3:
            G = guards.Guards(f)
            ok, parts = True, []
            for p in f.preds(False).get(E[1], []):
                n = len(f.blocks[p]["stmts"]) + 1
                v = mir.strip_casts(f.deep_simplify(f.version_expr(f.version_at(p, n, E[2]))))
                atoms = set(G.facts_at(p))
                for (s_, kind, label) in f.succ_edges(p):
                    if s_ == E[1] and kind == "normal":
                        atoms |= set(G.edge_atoms(p, label))
                        break
                Z = guards.Zone(f, atoms, [amt, size0])
                if Z.contradiction:
                    continue
                if v == amt and Z.le(amt, size0, 0):
                    parts.append("amt where amt <= len")
                elif is_size(v) and Z.le(size0, amt, 0):
                    parts.append("len where len <= amt")
                else:
                    ok = False
                    parts.append("`%s` without the matching order of amt and len" % mir.fmt(v, f)[:40])
            why = "E is " + " / ".join(parts)
        else:
            why = "E = `%s`" % mir.fmt(E, f)[:60]
    ctx.check(ok, rule, f.short, "drain(..min(amt, len))", short_loc(f, b),
              "`consume` is not `self.drain(..min(amt, self.len()))` (%s): it removes a different number of bytes or can hit the range panic" % why,
              why, cfg)
