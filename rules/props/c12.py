"""C12 — constructors and conversions give the specified contents, independently owned.

  CTOR1      new/default/boxed produce size = 0, start = 0 and never read the storage
  SAFE1      clone, clone_from, to_vec, from_iter, both extends, IntoIter::new, into_iter (x2),
             default contain no unsafe, no bit-copy, no forget: for safe code the type system gives
             'share no element', 'leave the source untouched', 'returns the original elements'
  CLONEPATH1 clone / clone_from / to_vec obtain elements only through iter().cloned() (one T::clone
             per element in iteration order); clone_from clears before it extends; from_iter and
             extend feed every item to push_back
  FROMARR1   From<[T; M]>: every normal path performs the bit-copy out, the destruction of the rest
             and the disarming of the array; header start = 0, size = join of {M, N} each <= N
  PS2        no armed local under an explicit destroy (unwinding path of From)
Not decided: that the kept part is the *last* min(N, M) elements; order (inherits push_back, C01).
"""
from .. import effects, mir, shapes, tables
from ..report import short_loc
from . import c02, c03, c04, c05, c07, c08

QUICK = ["default"]
THOROUGH = ["default", "nostd", "alloc", "unstable", "eio_both", "eio_both_nostd"]

EXPLANATION = (
    "Decides that the constructors establish the empty header without reading storage, that the cloning/collecting/"
    "owning conversions are safe code over T (so the type system guarantees independence of source and result), that "
    "they obtain elements only through iter().cloned() resp. feed every item to push_back, that clone_from clears "
    "first, and that From<[T; M]> copies out, destroys the remainder and disarms the source on every path with a header "
    "bounded by N. Does NOT decide which part of the array is kept nor element order (values; C01)."
)

# `new()` is a pure single-path function in the `unstable` arm and is then rendered by value
NEWV = r"(CircularBuffer::new\(\)|CircularBuffer::CircularBuffer\{size: 0, start: 0, items: [^}]*\})"

CTORS = {"CircularBuffer::new", "CircularBuffer::boxed", "<CircularBuffer<N, T> as From<[T; M]>>::from"}

SAFE_FNS = [
    "<CircularBuffer<N, T> as Clone>::clone", "<CircularBuffer<N, T> as Clone>::clone_from", "CircularBuffer::to_vec",
    "<CircularBuffer<N, T> as FromIterator<T>>::from_iter", "<CircularBuffer<N, T> as FromIterator<T>>::from_iter::{closure#0}",
    "<CircularBuffer<N, T> as Extend<T>>::extend", "<CircularBuffer<N, T> as Extend<T>>::extend::{closure#0}",
    "<CircularBuffer<N, T> as Extend<&T>>::extend", "<CircularBuffer<N, T> as Extend<&T>>::extend::{closure#0}",
    "IntoIter::new", "<CircularBuffer<N, T> as IntoIterator>::into_iter", "<&CircularBuffer<N, T> as IntoIterator>::into_iter",
    "<CircularBuffer<N, T> as Default>::default", "<IntoIter<N, T> as Clone>::clone",
]


def run(ctx, progs):
    ctx.explanation = EXPLANATION
    for r, t in (("CTOR1", "constructors: empty header, storage never read"), ("SAFE1", "conversions are safe code over T"),
                 ("CLONEPATH1", "elements only through iter().cloned() / push_back; clear before extend"),
                 ("FROMARR1", "From<[T;M]>: copy + destroy + disarm on every path; header bounded"), ("PS2", "no armed local under explicit destroy")):
        ctx.rule(r, t)
    for r, t in (("OWN1", "push_back: the item is never destroyed on a normal path"), ("UNCH1", "push_back: no buffer write on a path to an Err return"),
                 ("STORE1", "push_back: every path to None passes MaybeUninit::write(_, item) and a size increase"),
                 ("FULL1", "push_back: None under size < N; Some (the displaced element) only under size >= N or N == 0"),
                 ("NONE1", "pop_front / pop_back (the owning iterator): None only over edges establishing N == 0 / size == 0")):
        ctx.rule(r, t)
    for cfg, prog in progs.items():
        c04.ctor1(ctx, prog, cfg)
        shapes.must_match(ctx, "CTOR1", prog, "<CircularBuffer<N, T> as Default>::default", [r"?call CircularBuffer::new\(\)", r"return " + NEWV], cfg,
                          "default() = new()", "Default::default is not CircularBuffer::new()")
        f = prog.fn("CircularBuffer::new")
        if f is not None:
            ok = False
            for rb in f.return_blocks():
                e = f.return_expr(rb)
                if isinstance(e, tuple) and e[0] == "agg":
                    d = dict(e[3])
                    ok = mir.strip_casts(d.get("size")) == ("int", 0) and mir.strip_casts(d.get("start")) == ("int", 0)
            ctx.check(ok, "CTOR1", f.short, "size = 0, start = 0", f.loc, "new() does not construct the empty header", "aggregate {size: 0, start: 0, items}", cfg)
        safe1(ctx, prog, cfg)
        clonepath1(ctx, prog, cfg)
        fromarr1(ctx, prog, cfg)
        c05.ps2(ctx, prog, cfg, only=CTORS)
        c08.into1(ctx, prog, cfg)
        # what the conversions are built from: from_iter / extend / clone feed push_back, which must store every item it
        # is given (and displace only when full); the owning iterator is pop_front / pop_back, which must answer None
        # only when nothing is left. Both are decided for symbolic N, so capacity 1 is covered as capacity 4 is.
        pb = ctx.need_fn(prog, "CircularBuffer::push_back", "STORE1")
        if pb is not None:
            c02.check_fn(ctx, prog, pb, "push", cfg)
        c07.none1(ctx, prog, cfg)


def safe1(ctx, prog, cfg):
    n = 0
    for short in SAFE_FNS:
        f = prog.fn(short)
        if f is None:
            if short == "CircularBuffer::to_vec" and cfg in ("nostd", "eio_both_nostd"):
                continue
            if "::{closure#" in short and prog.fn(short.split("::{closure#")[0]) is not None:
                continue  # a closure is an implementation detail of its function: SAFE1 judges whichever closures exist
            ctx.violate("SAFE1", short, "anchor-missing", "?", "conversion function not found", cfg)
            continue
        n += 1
        ub = f.rec.get("unsafe_blocks", 0)
        bc = c03.bitcopy_sites(f)
        fg = [b for b, t in f.calls(True) if mir.callee_path(t) in ("core::mem::forget", "core::mem::manually_drop::ManuallyDrop::new")]
        ctx.check(not ub and not bc and not fg, "SAFE1", short, "safe code over T", f.loc,
                  "`%s` contains %d unsafe block(s), bit-copy sites %s, destructor-disarming sites %s: independence of source and "
                  "result is no longer guaranteed by the type system" % (short, ub, [x for _, x in bc], fg),
                  "no unsafe, no bit-copy, no forget", cfg)
    listed = set(SAFE_FNS)
    for short in sorted(prog.fns):
        base = short.split("::{closure#")[0]
        if "::{closure#" in short and base in listed and short not in listed:
            f = prog.fns[short]
            ub = f.rec.get("unsafe_blocks", 0)
            bc = c03.bitcopy_sites(f)
            ctx.check(not ub and not bc, "SAFE1", short, "safe code over T", f.loc,
                      "`%s` contains %d unsafe block(s), bit-copy sites %s" % (short, ub, [x for _, x in bc]), "no unsafe, no bit-copy", cfg)
    ctx.floor("SAFE1", "conversion functions", n, 12, cfg)
    for short in ("<CircularBuffer<N, T> as Clone>::clone", "CircularBuffer::to_vec", "<CircularBuffer<N, T> as Clone>::clone_from"):
        f = prog.fn(short)
        if f is None:
            continue
        src_param = 2 if short.endswith("clone_from") else 1
        ty = f.local_ty(src_param)
        ctx.check(ty.startswith("&") and not ty.startswith("&mut"), "SAFE1", short, "source borrowed immutably", f.loc,
                  "the source of `%s` has type `%s`" % (short, ty), "source is `&CircularBuffer`", cfg, nontrivial=False)


def clonepath1(ctx, prog, cfg):
    mm = shapes.must_match
    src = r"Iterator::cloned\(CircularBuffer::iter\(self\)\)"
    shapes.must_match_any(ctx, "CLONEPATH1", prog, "<CircularBuffer<N, T> as Clone>::clone", [
        [r"call CircularBuffer::iter\(self\)", r"call core::iter::traits::iterator::Iterator::cloned\(CircularBuffer::iter\(self\)\)",
         r"call <CircularBuffer<N, T> as FromIterator<T>>::from_iter\(%s\)" % src, r"return <CircularBuffer<N, T> as FromIterator<T>>::from_iter\(%s\)" % src],
        # `.collect()` into Self is FromIterator::from_iter
        [r"call CircularBuffer::iter\(self\)", r"call core::iter::traits::iterator::Iterator::cloned\(CircularBuffer::iter\(self\)\)",
         r"call core::iter::traits::iterator::Iterator::collect\(%s\)" % src, r"return Iterator::collect\(%s\)" % src]], cfg,
        "from_iter(self.iter().cloned())", "`clone` does not build the copy from self.iter().cloned(): elements may be bit-copied or reordered")
    mm(ctx, "CLONEPATH1", prog, "<CircularBuffer<N, T> as Clone>::clone_from",
       [r"call CircularBuffer::clear\(self\)", r"call CircularBuffer::iter\(other\)",
        r"call core::iter::traits::iterator::Iterator::cloned\(CircularBuffer::iter\(other\)\)",
        r"call <CircularBuffer<N, T> as Extend<T>>::extend\(self, Iterator::cloned\(CircularBuffer::iter\(other\)\)\)", r"return const"], cfg,
       "clear(); extend(other.iter().cloned())", "`clone_from` is not `self.clear(); self.extend(other.iter().cloned())`: old elements survive or the copy is not element-wise")
    via_extend = shapes.events(prog.fn("<CircularBuffer<N, T> as FromIterator<T>>::from_iter")) if prog.fn("<CircularBuffer<N, T> as FromIterator<T>>::from_iter") else []
    via_extend = any("Extend<T>>::extend" in e for e in via_extend)
    shapes.must_match_any(ctx, "CLONEPATH1", prog, "<CircularBuffer<N, T> as FromIterator<T>>::from_iter", [
        [r"?call CircularBuffer::new\(\)", r"call core::iter::traits::collect::IntoIterator::into_iter\(iter\)",
         r"call core::iter::traits::iterator::Iterator::for_each\(IntoIterator::into_iter\(iter\), \{closure#0\}::\{0: &\{" + NEWV + r"\}\}\)",
         r"return (" + NEWV + r"|memdef|phi)"],
        # ... or through the crate's own Extend impl, which is decided below to be exactly that loop
        [r"?call CircularBuffer::new\(\)", r"call <CircularBuffer<N, T> as Extend<T>>::extend\(&\{" + NEWV + r"\}, iter\)", r"return (" + NEWV + r"|memdef|phi)"]], cfg,
        "new(); iter.for_each(push_back)", "`from_iter` does not start from an empty buffer and feed every item to it")
    for short, arg in (("<CircularBuffer<N, T> as FromIterator<T>>::from_iter::{closure#0}", "item"), ("<CircularBuffer<N, T> as Extend<T>>::extend::{closure#0}", "item"),
                       ("<CircularBuffer<N, T> as Extend<&T>>::extend::{closure#0}", r"\(\*item\)\.")):
        if via_extend and short.startswith("<CircularBuffer<N, T> as FromIterator<T>>") and prog.fn(short) is None:
            continue  # from_iter forwards to extend: it has no per-item closure of its own
        mm(ctx, "CLONEPATH1", prog, short, [r"call CircularBuffer::push_back\(\(\*_1\)\.0, %s\)" % arg, r"return const"], cfg, "push_back(item)",
           "the per-item closure is not exactly `push_back(item)`: items are dropped, duplicated or inserted elsewhere")
    for short in ("<CircularBuffer<N, T> as Extend<T>>::extend", "<CircularBuffer<N, T> as Extend<&T>>::extend"):
        mm(ctx, "CLONEPATH1", prog, short, [r"call core::iter::traits::collect::IntoIterator::into_iter\(iter\)",
                                            r"call core::iter::traits::iterator::Iterator::for_each\(IntoIterator::into_iter\(iter\), \{closure#0\}::\{0: self\}\)", r"return const"], cfg,
           "iter.for_each(push_back)", "`extend` does not feed every item of the iterator to push_back")


def fromarr1(ctx, prog, cfg):
    c03.owner1_from(ctx, prog, cfg, "FROMARR1")
    # header of the constructed buffers: start = 0, size = 0 resp. join of {M, N} each <= N
    c04.inv1(ctx, prog, cfg, only=CTORS)
