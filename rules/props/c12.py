"""C12 — constructors and conversions give the specified contents, independently owned.

  CTOR1      new/default/boxed produce size = 0, start = 0 and never read the storage
  SAFE1      clone, clone_from, to_vec, from_iter, both extends, IntoIter::new, into_iter (x2),
             default contain no unsafe, no bit-copy, no forget: for safe code the type system gives
             'share no element', 'leave the source untouched', 'returns the original elements'
  CLONEPATH1 clone / clone_from / to_vec obtain elements only through iter().cloned() (one T::clone
             per element in iteration order); clone_from clears before it extends; from_iter and
             extend feed every item to push_back
  FROMARR1   From<[T; M]>: every normal path performs the bit-copy out, the destruction of the rest
             and the disarming of the array; header start = 0, size = join of {M, N} each <= N
  PS2        no armed local under an explicit destroy (unwinding path of From)
  FROMARR2   From<[T; M]> geometry: copied block = [M - size, M) lands at slot 0, destroyed block = [0, M - size),
             header size = copy count (equalities of linear forms)
  OWN1/STORE1/FULL1 on push_back, NONE1 on pop_front/pop_back: what the conversions are built from
Not decided: order inside the copied block beyond "one contiguous bit-copy" (inherits push_back, C01).
"""
from .. import effects, mir, shapes, tables
from ..report import short_loc
from . import c02, c03, c04, c05, c07, c08

QUICK = ["default"]
THOROUGH = ["default", "nostd", "alloc", "unstable", "eio_both", "eio_both_nostd"]

EXPLANATION = (
    "Decides that the constructors establish the empty header without reading storage, that the cloning/collecting/"
    "owning conversions are safe code over T (so the type system guarantees independence of source and result), that "
    "they obtain elements only through iter().cloned() resp. feed every item to push_back, that clone_from clears "
    "first, and that From<[T; M]> copies out, destroys the remainder and disarms the source on every path with a header "
    "bounded by N; that the block it keeps is [M - size, M) — the last elements — written at slot 0, the block it destroys is "
    "[0, M - size) and the header counts exactly the copied elements (linear-form equalities on the operands of the copy, "
    "the destroyed range and the returned aggregate); and that push_back / pop_front / pop_back, from which the other "
    "conversions are built, store every item resp. answer None only when empty. Does NOT decide element order produced by "
    "the push_back loop (values; C01)."
)

# `new()` is a pure single-path function in the `unstable` arm and is then rendered by value
NEWV = r"(CircularBuffer::new\(\)|CircularBuffer::CircularBuffer\{size: 0, start: 0, items: [^}]*\})"

CTORS = {"CircularBuffer::new", "CircularBuffer::boxed", "<CircularBuffer<N, T> as From<[T; M]>>::from"}

SAFE_FNS = [
    "<CircularBuffer<N, T> as Clone>::clone", "<CircularBuffer<N, T> as Clone>::clone_from", "CircularBuffer::to_vec",
    "<CircularBuffer<N, T> as FromIterator<T>>::from_iter", "<CircularBuffer<N, T> as FromIterator<T>>::from_iter::{closure#0}",
    "<CircularBuffer<N, T> as Extend<T>>::extend", "<CircularBuffer<N, T> as Extend<T>>::extend::{closure#0}",
    "<CircularBuffer<N, T> as Extend<&T>>::extend", "<CircularBuffer<N, T> as Extend<&T>>::extend::{closure#0}",
    "IntoIter::new", "<CircularBuffer<N, T> as IntoIterator>::into_iter", "<&CircularBuffer<N, T> as IntoIterator>::into_iter",
    "<CircularBuffer<N, T> as Default>::default", "<IntoIter<N, T> as Clone>::clone",
]


def run(ctx, progs):
    ctx.explanation = EXPLANATION
    for r, t in (("CTOR1", "constructors: empty header, storage never read"), ("SAFE1", "conversions are safe code over T"),
                 ("CLONEPATH1", "elements only through iter().cloned() / push_back; clear before extend"),
                 ("FROMARR1", "From<[T;M]>: copy + destroy + disarm on every path; header bounded"), ("PS2", "no armed local under explicit destroy")):
        ctx.rule(r, t)
    for r, t in (("OWN1", "push_back: the item is never destroyed on a normal path"), ("UNCH1", "push_back: no buffer write on a path to an Err return"),
                 ("STORE1", "push_back: every path to None passes MaybeUninit::write(_, item) and a size increase"),
                 ("FULL1", "push_back: None under size < N; Some (the displaced element) only under size >= N or N == 0"),
                 ("NONE1", "pop_front / pop_back (the owning iterator): None only over edges establishing N == 0 / size == 0")):
        ctx.rule(r, t)
    if "default" in progs and "unstable" in progs:
        # the conversions under the `unstable` feature: everything above is decided on each configuration's own MIR; that the nightly arms of the helpers
        # are the reviewed substitution of a std API for the hand-written code (same operands, same end of the slice) is C18's
        # DELEG1, evaluated here too because the statement quantifies over configurations
        from . import c18 as _c18

        ctx.rule("DELEG1", "each unstable arm is the reviewed substitution with pass-through operands")
        _c18.deleg1(ctx, progs["default"], progs["unstable"], "default|unstable", _c18.cfgdiff2(ctx, progs["default"], progs["unstable"], "default|unstable") if False else ())

    for cfg, prog in progs.items():
        c04.ctor1(ctx, prog, cfg)
        shapes.must_match(ctx, "CTOR1", prog, "<CircularBuffer<N, T> as Default>::default", [r"?call CircularBuffer::new\(\)", r"return " + NEWV], cfg,
                          "default() = new()", "Default::default is not CircularBuffer::new()")
        f = prog.fn("CircularBuffer::new")
        if f is not None:
            ok = False
            for rb in f.return_blocks():
                e = f.return_expr(rb)
                if isinstance(e, tuple) and e[0] == "agg":
                    d = dict(e[3])
                    ok = mir.strip_casts(d.get("size")) == ("int", 0) and mir.strip_casts(d.get("start")) == ("int", 0)
            ctx.check(ok, "CTOR1", f.short, "size = 0, start = 0", f.loc, "new() does not construct the empty header", "aggregate {size: 0, start: 0, items}", cfg)
        safe1(ctx, prog, cfg)
        clonepath1(ctx, prog, cfg)
        fromarr1(ctx, prog, cfg)
        c05.ps2(ctx, prog, cfg, only=CTORS)
        c08.into1(ctx, prog, cfg)
        # what the conversions are built from: from_iter / extend / clone feed push_back, which must store every item it
        # is given (and displace only when full); the owning iterator is pop_front / pop_back, which must answer None
        # only when nothing is left. Both are decided for symbolic N, so capacity 1 is covered as capacity 4 is.
        pb = ctx.need_fn(prog, "CircularBuffer::push_back", "STORE1")
        if pb is not None:
            c02.check_fn(ctx, prog, pb, "push", cfg)
        c07.none1(ctx, prog, cfg)


def safe1(ctx, prog, cfg):
    n = 0
    for short in SAFE_FNS:
        f = prog.fn(short)
        if f is None:
            if short == "CircularBuffer::to_vec" and cfg in ("nostd", "eio_both_nostd"):
                continue
            if "::{closure#" in short and prog.fn(short.split("::{closure#")[0]) is not None:
                continue  # a closure is an implementation detail of its function: SAFE1 judges whichever closures exist
            ctx.violate("SAFE1", short, "anchor-missing", "?", "conversion function not found", cfg)
            continue
        n += 1
        ub = f.rec.get("unsafe_blocks", 0)
        bc = c03.bitcopy_sites(f)
        fg = [b for b, t in f.calls(True) if mir.callee_path(t) in ("core::mem::forget", "core::mem::manually_drop::ManuallyDrop::new")]
        ctx.check(not ub and not bc and not fg, "SAFE1", short, "safe code over T", f.loc,
                  "`%s` contains %d unsafe block(s), bit-copy sites %s, destructor-disarming sites %s: independence of source and "
                  "result is no longer guaranteed by the type system" % (short, ub, [x for _, x in bc], fg),
                  "no unsafe, no bit-copy, no forget", cfg)
    listed = set(SAFE_FNS)
    for short in sorted(prog.fns):
        base = short.split("::{closure#")[0]
        if "::{closure#" in short and base in listed and short not in listed:
            f = prog.fns[short]
            ub = f.rec.get("unsafe_blocks", 0)
            bc = c03.bitcopy_sites(f)
            ctx.check(not ub and not bc, "SAFE1", short, "safe code over T", f.loc,
                      "`%s` contains %d unsafe block(s), bit-copy sites %s" % (short, ub, [x for _, x in bc]), "no unsafe, no bit-copy", cfg)
    ctx.floor("SAFE1", "conversion functions", n, 12, cfg)
    for short in ("<CircularBuffer<N, T> as Clone>::clone", "CircularBuffer::to_vec", "<CircularBuffer<N, T> as Clone>::clone_from"):
        f = prog.fn(short)
        if f is None:
            continue
        src_param = 2 if short.endswith("clone_from") else 1
        ty = f.local_ty(src_param)
        ctx.check(ty.startswith("&") and not ty.startswith("&mut"), "SAFE1", short, "source borrowed immutably", f.loc,
                  "the source of `%s` has type `%s`" % (short, ty), "source is `&CircularBuffer`", cfg, nontrivial=False)


def clonepath1(ctx, prog, cfg):
    mm = shapes.must_match
    src = r"Iterator::cloned\(CircularBuffer::iter\(self\)\)"
    shapes.must_match_any(ctx, "CLONEPATH1", prog, "<CircularBuffer<N, T> as Clone>::clone", [
        [r"call CircularBuffer::iter\(self\)", r"call core::iter::traits::iterator::Iterator::cloned\(CircularBuffer::iter\(self\)\)",
         r"call <CircularBuffer<N, T> as FromIterator<T>>::from_iter\(%s\)" % src, r"return <CircularBuffer<N, T> as FromIterator<T>>::from_iter\(%s\)" % src],
        # `.collect()` into Self is FromIterator::from_iter
        [r"call CircularBuffer::iter\(self\)", r"call core::iter::traits::iterator::Iterator::cloned\(CircularBuffer::iter\(self\)\)",
         r"call core::iter::traits::iterator::Iterator::collect\(%s\)" % src, r"return Iterator::collect\(%s\)" % src]], cfg,
        "from_iter(self.iter().cloned())", "`clone` does not build the copy from self.iter().cloned(): elements may be bit-copied or reordered")
    mm(ctx, "CLONEPATH1", prog, "<CircularBuffer<N, T> as Clone>::clone_from",
       [r"call CircularBuffer::clear\(self\)", r"call CircularBuffer::iter\(other\)",
        r"call core::iter::traits::iterator::Iterator::cloned\(CircularBuffer::iter\(other\)\)",
        r"call <CircularBuffer<N, T> as Extend<T>>::extend\(self, Iterator::cloned\(CircularBuffer::iter\(other\)\)\)", r"return const"], cfg,
       "clear(); extend(other.iter().cloned())", "`clone_from` is not `self.clear(); self.extend(other.iter().cloned())`: old elements survive or the copy is not element-wise")
    via_extend = shapes.events(prog.fn("<CircularBuffer<N, T> as FromIterator<T>>::from_iter")) if prog.fn("<CircularBuffer<N, T> as FromIterator<T>>::from_iter") else []
    via_extend = any("Extend<T>>::extend" in e for e in via_extend)
    shapes.must_match_any(ctx, "CLONEPATH1", prog, "<CircularBuffer<N, T> as FromIterator<T>>::from_iter", [
        [r"?call CircularBuffer::new\(\)", r"call core::iter::traits::collect::IntoIterator::into_iter\(iter\)",
         r"call core::iter::traits::iterator::Iterator::for_each\(IntoIterator::into_iter\(iter\), \{closure#0\}::\{0: &\{" + NEWV + r"\}\}\)",
         r"return (" + NEWV + r"|memdef|phi)"],
        # ... or through the crate's own Extend impl, which is decided below to be exactly that loop
        [r"?call CircularBuffer::new\(\)", r"call <CircularBuffer<N, T> as Extend<T>>::extend\(&\{" + NEWV + r"\}, iter\)", r"return (" + NEWV + r"|memdef|phi)"]], cfg,
        "new(); iter.for_each(push_back)", "`from_iter` does not start from an empty buffer and feed every item to it")
    for short, arg in (("<CircularBuffer<N, T> as FromIterator<T>>::from_iter::{closure#0}", "item"), ("<CircularBuffer<N, T> as Extend<T>>::extend::{closure#0}", "item"),
                       ("<CircularBuffer<N, T> as Extend<&T>>::extend::{closure#0}", r"\(\*item\)\.")):
        if via_extend and short.startswith("<CircularBuffer<N, T> as FromIterator<T>>") and prog.fn(short) is None:
            continue  # from_iter forwards to extend: it has no per-item closure of its own
        mm(ctx, "CLONEPATH1", prog, short, [r"call CircularBuffer::push_back\(\(\*_1\)\.0, %s\)" % arg, r"return const"], cfg, "push_back(item)",
           "the per-item closure is not exactly `push_back(item)`: items are dropped, duplicated or inserted elsewhere")
    for short in ("<CircularBuffer<N, T> as Extend<T>>::extend", "<CircularBuffer<N, T> as Extend<&T>>::extend"):
        mm(ctx, "CLONEPATH1", prog, short, [r"call core::iter::traits::collect::IntoIterator::into_iter\(iter\)",
                                            r"call core::iter::traits::iterator::Iterator::for_each\(IntoIterator::into_iter\(iter\), \{closure#0\}::\{0: self\}\)", r"return const"], cfg,
           "iter.for_each(push_back)", "`extend` does not feed every item of the iterator to push_back")


def fromarr1(ctx, prog, cfg):
    c03.owner1_from(ctx, prog, cfg, "FROMARR1")
    # header of the constructed buffers: start = 0, size = 0 resp. join of {M, N} each <= N
    c04.inv1(ctx, prog, cfg, only=CTORS)
    fromarr2(ctx, prog, cfg, "FROMARR1")


# ---------------------------------------------------------------------------------------------------------------
# FROMARR2 — which part of the array From<[T; M]> keeps, as geometry
#
# The source array [0, M) is split into a destroyed block and a bit-copied block. "Keeps the last min(N, M) elements, in
# order, each owned once" needs: the copied block ends at M; the destroyed block starts at 0 and ends where the copied
# block starts; the copy lands at offset 0 of the new storage (start = 0 is FROMARR1's); the header counts exactly the
# copied elements. All are equalities of linear forms over M, N and the (joined) length local, read from the operands of
# the copy, the range handed to drop_in_place and the aggregate returned.
FROM = "<CircularBuffer<N, T> as From<[T; M]>>::from"


def _flin(f, e, sign=1, acc=None):
    if acc is None:
        acc = {}
    e = mir.strip_casts(f.deep_simplify(e))
    if isinstance(e, tuple) and e:
        if e[0] == "int":
            acc[1] = acc.get(1, 0) + sign * e[1]
            return acc
        cs_ = mir.checked_sub_payload(e)
        if cs_ is not None:
            _flin(f, cs_[0], sign, acc)
            _flin(f, cs_[1], -sign, acc)
            return acc
        if e[0] == "binop" and e[1] in ("Add", "Sub", "AddUnchecked", "SubUnchecked"):
            _flin(f, e[2], sign, acc)
            _flin(f, e[3], sign if e[1].startswith("Add") else -sign, acc)
            return acc
    acc[e] = acc.get(e, 0) + sign
    return acc


def _fk(a):
    return tuple(sorted((repr(k), v) for k, v in a.items() if v != 0))


def _fshow(f, a):
    out = []
    for k, v in sorted(a.items(), key=lambda kv: repr(kv[0])):
        if v:
            t = "" if k == 1 else (mir.fmt(k, f) if isinstance(k, tuple) else str(k))
            out.append(("+" if v > 0 else "-") + (str(abs(v)) if (abs(v) != 1 or k == 1) else "") + t[:40])
    return " ".join(out) or "0"


def _ptr_offset(f, e):
    """(root, linear offset) of a raw pointer built with `.add()` / `.offset()` from some base"""
    acc = {}
    e = mir.strip_casts(f.deep_simplify(e))
    while isinstance(e, tuple) and e and e[0] in ("call", "pcall") and str(e[1]).split("::")[-1] in ("add", "offset") and len(e[2]) == 2 and str(e[1]).startswith("<*"):
        _flin(f, e[2][1], 1, acc)
        e = mir.strip_casts(f.deep_simplify(e[2][0]))
    return e, acc


def _from_array(e):
    return any(s == ("param", 1) for s in mir.walk(e))


def fromarr2(ctx, prog, cfg, rule="FROMARR2"):
    from .. import geom, guards

    f = ctx.need_fn(prog, FROM, rule)
    if f is None:
        return
    M = {("cparam", "M"): 1}
    copy_blocks = {}
    for b, t in f.calls(False):
        if mir.callee_path(t) in ("core::ptr::copy_nonoverlapping", "core::ptr::copy"):
            copy_blocks[b] = [f.deep_simplify(a) for a in f.call_args(b)]
    for b, i, st, is_term in f.positions(False):
        if not is_term and st["k"] == "copy_nonoverlapping":
            copy_blocks[b] = [f.deep_simplify(f.operand_expr(st[k], b, i)) for k in ("src", "dst", "count")]
    drop_blocks = {}
    for b, t in f.calls(False):
        if mir.callee_path(t) == "core::ptr::drop_in_place":
            drop_blocks[b] = f.deep_simplify(f.call_args(b)[0])
    if not copy_blocks:
        ctx.violate(rule, FROM, "bit-copy of the kept block", f.loc, "From<[T; M]> has no ptr::copy of the kept block: the geometry cannot be decided", cfg)
        return
    # every feasible path entry -> return is judged with the operands as they are on that path (a length / offset pair chosen
    # by an earlier branch is that branch's pair there)
    paths = geom._paths(f) if not f.has_loop() else []
    G = guards.Guards(f)
    cases = {}
    for path in paths:
        atoms = set()
        for x, y in zip(path, path[1:]):
            for (s_, kind, label) in f.succ_edges(x):
                if s_ == y and kind == "normal":
                    atoms |= set(G.edge_atoms(x, label))
                    break
        if guards.Zone(f, atoms).contradiction:
            continue
        cps = tuple((b, tuple(geom.on_path(f, a, path) for a in copy_blocks[b])) for b in path if b in copy_blocks)
        dps = tuple((b, geom.on_path(f, drop_blocks[b], path)) for b in path if b in drop_blocks)
        r = geom.on_path(f, f.deep_simplify(f.return_expr(path[-1])), path)
        cases.setdefault((cps, dps, r), path)
    if not cases:
        cases = {(tuple((b, tuple(v)) for b, v in copy_blocks.items()), tuple(drop_blocks.items()), None): None}
    n_starts = 0
    for (cps, dps, r), path in cases.items():
        starts = []
        ccount = None
        for (b, (src, dst, cnt)) in cps:
            sroot, O = _ptr_offset(f, src)
            droot, DO = _ptr_offset(f, dst)
            C = _flin(f, cnt)
            if not _from_array(sroot):
                continue  # not a copy out of the argument
            starts.append(_fk(O))
            n_starts += 1
            ccount = C if len(cps) == 1 else None
            end = dict(O)
            for k, v in C.items():
                end[k] = end.get(k, 0) + v
            ctx.check(_fk(end) == _fk(M), rule, FROM, "copied block ends at M (the last elements are kept)", short_loc(f, b),
                      "the block bit-copied out of the array is [%s, %s), which does not end at M: the buffer does not keep the *last* "
                      "elements of the array" % (_fshow(f, O), _fshow(f, end)), "source offset + count = M", cfg)
            ctx.check(_fk(DO) == (), rule, FROM, "copy lands at slot 0", short_loc(f, b),
                      "the kept block is written at offset `%s` of the new storage while the header says start = 0" % _fshow(f, DO),
                      "destination offset 0", cfg)
        if ccount is not None and isinstance(r, tuple) and r and r[0] == "agg":
            sz = dict(r[3]).get("size")
            ctx.check(sz is not None and _fk(_flin(f, sz)) == _fk(ccount), rule, FROM, "header counts exactly the copied elements", f.loc,
                      "size = `%s` but `%s` elements were copied in: uninitialised slots are counted, or owned elements are not" %
                      (_fshow(f, _flin(f, sz)) if sz is not None else "?", _fshow(f, ccount)), "size = copy count", cfg)
        for (b, a) in dps:
            a = mir.strip_casts(a)
            rng = None
            for s_ in mir.walk(a):
                if isinstance(s_, tuple) and s_ and s_[0] == "agg" and str(s_[1]).startswith("core::ops::range::"):
                    rng = s_
            if rng is None:
                ctx.ok(rule, FROM, "destroyed block", "drop_in_place target is not a range of the array (judged by FROMARR1)", cfg, nontrivial=False)
                continue
            d = dict(rng[3])
            lo = _flin(f, d["start"]) if "start" in d else {}
            hi = _flin(f, d["end"]) if "end" in d else dict(M)
            if rng[2] in ("RangeInclusive", "RangeToInclusive"):
                hi = _flin(f, ("int", 1), 1, hi)
            ctx.check(_fk(lo) == () and _fk(hi) in starts, rule, FROM, "destroyed block = [0, start of the copied block)", short_loc(f, b),
                      "the destroyed block is [%s, %s) but the copied block starts at %s: an element is both destroyed and owned by the "
                      "buffer, or neither" % (_fshow(f, lo), _fshow(f, hi), sorted(starts)), "destroyed [0, M - size), copied [M - size, M)", cfg)
    ctx.floor(rule, "copies out of the array", n_starts, 1, cfg)
