"""C13 — equality, ordering, hashing and Debug depend only on the logical contents.

  FWD1  the five forwarding PartialEq impls ([U; M], &[U], &mut [U], &[U; M], &mut [U; M]) consist of
        one comparison whose resolution (through core's `&A == &B`) ends in the base PartialEq<[U]>
        impl, never in themselves; operands are `self` and the parameter, dereferenced/unsized
  OBS1  eq (x7), partial_cmp, cmp, hash, fmt are safe code over &self and read buffer state only
        through len()/size, as_slices(), iter(): never `start`, `items`, or the capacity
  ORD1  partial_cmp / cmp are Iterator::partial_cmp / Iterator::cmp of the two iter()s, self left
  HASH1 the hasher is fed `size` once, then one <T as Hash>::hash per element of iter(); no
        slice-level Hash (per-segment length prefixes would make the hash layout-dependent)
  DBG1  Debug::fmt = f.debug_list().entries(self).finish(), as core's impl Debug for [T]
  BASE1 in the two base eq impls both length tests precede every comparison, and every compared
        operand is a sub-slice of an as_slices() result or of `other`
Not decided: the three-way segment alignment arithmetic of PartialEq<CircularBuffer> (values).
"""
from .. import effects, mir, shapes
from ..report import short_loc

QUICK = ["default"]
THOROUGH = ["default", "nostd", "alloc", "unstable", "eio_both", "eio_both_nostd"]

EXPLANATION = (
    "Decides that the observer impls can depend on the internal layout only through the split point of as_slices "
    "(they never read start, items or the capacity; OBS1), that ordering/hash/Debug are the std algorithms over iter() "
    "(ORD1, HASH1, DBG1) and therefore layout-independent given C08, that the forwarding equality impls end in the base "
    "slice comparison and never recurse into themselves (FWD1), and that the base equality impls compare only "
    "sub-slices of the contents after testing the lengths (BASE1). Does NOT decide the segment-alignment arithmetic "
    "(offsets x, y) of buffer-vs-buffer equality — the historically buggy part — which is value-level."
)

BASE_SLICE = "<CircularBuffer<N, T> as PartialEq<[U]>>::eq"
BASE_BUF = "<CircularBuffer<N, T> as PartialEq<CircularBuffer<M, U>>>::eq"
FORWARDERS = {
    "<CircularBuffer<N, T> as PartialEq<[U; M]>>::eq": r"&\{self\}, &\{<\[T; N\] as Index<I>>::index\(other, RangeFull::RangeFull\{\}\)\}",
    "<CircularBuffer<N, T> as PartialEq<&[U]>>::eq": r"&\{self\}, other",
    "<CircularBuffer<N, T> as PartialEq<&mut [U]>>::eq": r"&\{self\}, other",
    "<CircularBuffer<N, T> as PartialEq<&[U; M]>>::eq": r"&\{self\}, other",
    "<CircularBuffer<N, T> as PartialEq<&mut [U; M]>>::eq": r"&\{self\}, other",
}
OBSERVERS = list(FORWARDERS) + [BASE_SLICE, BASE_BUF,
                                "<CircularBuffer<N, T> as PartialOrd<CircularBuffer<M, U>>>::partial_cmp", "<CircularBuffer<N, T> as Ord>::cmp",
                                "<CircularBuffer<N, T> as Hash>::hash",
                                "<CircularBuffer<N, T> as Debug>::fmt"]


def run(ctx, progs):
    ctx.explanation = EXPLANATION
    for r, t in (("FWD1", "forwarders end in the base slice impl"), ("OBS1", "observers never read start/items/capacity"),
                 ("ORD1", "std lexicographic comparison of iter()s"), ("HASH1", "len once + one element hash per iter() item"),
                 ("DBG1", "debug_list().entries(self).finish()"), ("BASE1", "length tests first; operands are sub-slices of the contents"),
                 ("BASE2", "each arm's pieces partition both sequences: whole segments or complementary [..k],[k..] pairs, in order"),
                 ("BASE3", "split points are differences of first-segment lengths only")):
        ctx.rule(r, t)
    for cfg, prog in progs.items():
        fwd1(ctx, prog, cfg)
        obs1(ctx, prog, cfg)
        ord_hash_dbg(ctx, prog, cfg)
        base1(ctx, prog, cfg)
        base2(ctx, prog, cfg)


def fwd1(ctx, prog, cfg):
    for short, argpat in FORWARDERS.items():
        f = ctx.need_fn(prog, short, "FWD1")
        if f is None:
            continue
        calls = [(b, t) for b, t in f.calls(False) if "PartialEq" in (mir.callee_path(t) or "")]
        ok = len(calls) == 1
        why = "%d comparison calls" % len(calls)
        if ok:
            # follow the chain of forwarders: it must reach the base impl without revisiting a link
            chain = [short]
            cur = f
            tgt = None
            while True:
                cs = [(b, t) for b, t in cur.calls(False) if "PartialEq" in (mir.callee_path(t) or "")]
                if len(cs) != 1:
                    break
                fn = mir.callee_of(cs[0][1])
                tgt = fn.get("peeled_rshort") or fn.get("rshort")
                if tgt in chain or tgt == BASE_SLICE or tgt not in FORWARDERS:
                    break
                chain.append(tgt)
                cur = prog.fn(tgt)
            ok = tgt == BASE_SLICE
            why = "comparison resolves through %s to `%s`" % (" -> ".join(chain), tgt)
        ctx.check(ok, "FWD1", short, "resolves to the base PartialEq<[U]> impl", f.loc,
                  "the forwarding equality impl does not end in the base slice comparison (%s): %s" %
                  (why, "the chain returns to an impl already on it — unconditional recursion" if "tgt" in dir() and tgt in (chain if "chain" in dir() else []) else "comparison with slices/arrays/references no longer agrees with buffer equality"),
                  why, cfg)
        # the one comparison is `self` against the parameter: both operands are the function's own parameters,
        # reached through reference/dereference/unsizing/full-range indexing only, and its result is returned as is
        okp, whyp = len(calls) == 1, "%d comparison calls" % len(calls)
        if okp:
            b0 = calls[0][0]
            a = [_passthrough_root(f.deep_simplify(x)) for x in f.call_args(b0)]
            okp = a == [("param", 1), ("param", 2)]
            whyp = "operands are %s" % ", ".join(mir.fmt(x, f) for x in a)
            if okp:
                rets = f.return_blocks()
                r = [mir.strip_casts(f.deep_simplify(f.return_expr(rb))) for rb in rets]
                okp = len(r) == 1 and isinstance(r[0], tuple) and r[0][0] == "call" and r[0][3] == b0
                whyp = "returns the comparison of self with other" if okp else "the comparison's result is not what is returned"
        ctx.check(okp, "FWD1", short, "self == (*)other", f.loc,
                  "the forwarder compares something other than `self` with its parameter, or does not return that comparison (%s)" % whyp, whyp, cfg)


def _passthrough_root(e):
    """strip what only re-addresses a value: &, *, unsizing, `[..]`"""
    while True:
        e = mir.strip_casts(e)
        if not isinstance(e, tuple) or not e:
            return e
        if e[0] == "ref" and isinstance(e[1], tuple) and e[1][0] == "local" and len(e[1]) > 2:
            e = e[1][2]
        elif e[0] == "ref" and isinstance(e[1], tuple) and e[1][0] == "place" and not e[1][2]:
            e = e[1][1]
        elif e[0] == "load" and not e[2]:
            e = e[1]
        elif e[0] == "unsize":
            e = e[1]
        elif e[0] == "call" and isinstance(e[1], str) and "Index<I>>::index" in e[1] and len(e[2]) == 2 and isinstance(e[2][1], tuple) and e[2][1][:1] == ("agg",) and e[2][1][2] == "RangeFull":
            e = e[2][0]
        else:
            return e


def obs1(ctx, prog, cfg):
    eff = effects.get(prog)
    # the observers and whatever closures they contain on this tree
    names = list(OBSERVERS) + sorted(s for s, g in prog.fns.items() if g.has_mir and any(s.startswith(o + "::{closure#") for o in OBSERVERS))
    for short in names:
        f = ctx.need_fn(prog, short, "OBS1")
        if f is None:
            continue
        bad = []
        for b, i, st, is_term in f.positions(True):
            for pl in mir._places_read(st):
                names = mir.place_fields(pl)
                if "start" in names or "items" in names:
                    bad.append("reads `%s` (%s)" % (".".join(names), short_loc(f, b, i)))
            # capacity used as a value
            ops = []
            if not is_term and st["k"] == "assign":
                rv = st["rv"]
                ops = [rv.get("a"), rv.get("b"), rv.get("op")] + [x["op"] for x in rv.get("fields", [])]
            elif is_term and st["k"] == "call":
                ops = list(st["args"])
            elif is_term and st["k"] == "switch":
                ops = [st["discr"]]
            for o in ops:
                if isinstance(o, dict) and o.get("k") == "const" and "param" in o:
                    bad.append("uses the capacity `%s` as a value (%s)" % (o["param"], short_loc(f, b, i)))
        for b, t in f.calls(True):
            cs = mir.callee_short(t) or ""
            if mir.is_local_callee(t) and cs.startswith("CircularBuffer::") and cs.split("::")[1] not in ("len", "as_slices", "iter", "is_empty"):
                bad.append("calls %s" % cs)
        ub = f.rec.get("unsafe_blocks", 0)
        ctx.check(not bad and not ub, "OBS1", short, "reads only len / as_slices / iter", f.loc,
                  "the observer depends on the internal representation: %s%s — equal contents in different layouts/capacities can "
                  "compare, hash or print differently" % ("; ".join(bad[:4]), "; contains unsafe" if ub else ""),
                  "no read of start/items/capacity, only len()/as_slices()/iter()", cfg)


def ord_hash_dbg(ctx, prog, cfg):
    mm = shapes.must_match
    ord1(ctx, prog, cfg)
    hash1(ctx, prog, cfg)
    dbg1(ctx, prog, cfg)


def ord1(ctx, prog, cfg, rule="ORD1"):
    """ordering is std's lexicographic comparison of the two element sequences, self on the left: the returned
    value is the one call of Iterator::partial_cmp / cmp on (elements of self, elements of other); nothing else"""
    for name, callee in (("<CircularBuffer<N, T> as PartialOrd<CircularBuffer<M, U>>>::partial_cmp", "partial_cmp"), ("<CircularBuffer<N, T> as Ord>::cmp", "cmp")):
        f = ctx.need_fn(prog, name, rule)
        if f is None:
            continue
        why = []
        cmps = [b for b, t in f.calls(False) if mir.callee_path(t) == "core::iter::traits::iterator::Iterator::" + callee]
        for b, t in f.calls(False):
            p = mir.callee_path(t) or ""
            if b not in cmps and mir.callee_short(t) not in ("CircularBuffer::iter", REF_INTO_ITER, "<I as IntoIterator>::into_iter"):
                why.append("calls `%s`" % p)
        if len(cmps) != 1:
            why.append("%d calls of Iterator::%s" % (len(cmps), callee))
        else:
            a = [f.deep_simplify(x) for x in f.call_args(cmps[0])]
            if not (elems_source(a[0], 1) and elems_source(a[1], 2, allow_bare=True)):
                why.append("compares `%s` with `%s`, not the elements of self with the elements of other" % (mir.fmt(a[0], f)[:60], mir.fmt(a[1], f)[:60]))
            rets = f.return_blocks()
            r = [mir.strip_casts(f.deep_simplify(f.return_expr(rb))) for rb in rets]
            if not (len(r) == 1 and isinstance(r[0], tuple) and r[0][0] == "call" and r[0][3] == cmps[0]):
                why.append("does not return that comparison unchanged")
        ctx.check(not why, rule, name, "self.iter().%s(other.iter())" % callee, f.loc,
                  "`%s` is not std's lexicographic comparison of the two element sequences (self on the left): %s" % (name, "; ".join(why)),
                  "returns Iterator::%s(elements of self, elements of other)" % callee, cfg)


DBG_FN = "<CircularBuffer<N, T> as Debug>::fmt"


def dbg1(ctx, prog, cfg, rule="DBG1"):
    """Debug::fmt is core's list formatting over the elements in order: the returned value is
    `finish()` of a chain of `entries(..)` on the one `f.debug_list()`, fed with the whole sequence — `self`,
    `self.iter()`, or the two `as_slices()` pieces first-then-second — and the formatter is used for nothing else."""
    f = ctx.need_fn(prog, DBG_FN, rule)
    if f is None:
        return
    why = []
    allowed = ("core::fmt::Formatter::debug_list", "core::fmt::builders::DebugList::entries", "core::fmt::builders::DebugList::finish",
               "circular_buffer::CircularBuffer::as_slices", "circular_buffer::CircularBuffer::iter")
    for b, t in f.calls(False):
        p = mir.callee_path(t)
        if p not in allowed and not (p or "").endswith("IntoIterator>::into_iter"):
            why.append("calls `%s`" % p)
    rets = f.return_blocks()
    fed = []
    if len(rets) != 1:
        why.append("%d return sites" % len(rets))
    else:
        e = mir.strip_casts(f.deep_simplify(f.return_expr(rets[0])))
        if not (isinstance(e, tuple) and e[:2] == ("call", "DebugList::finish")):
            why.append("does not return DebugList::finish(..)")
        else:
            x = mir.strip_casts(e[2][0])
            while isinstance(x, tuple) and x[:2] == ("call", "DebugList::entries"):
                fed.insert(0, mir.strip_casts(x[2][1]))
                x = mir.strip_casts(x[2][0])
            root = _passthrough_root(x)
            if not (isinstance(root, tuple) and root[:2] == ("call", "Formatter::debug_list") and mir.strip_casts(root[2][0]) == ("param", 2)):
                why.append("the entries are not added to `f.debug_list()`")
    sl = ("call", "CircularBuffer::as_slices", (("param", 1),))
    def is_piece(x, k):
        return isinstance(x, tuple) and x[0] == "field" and x[2] == k and isinstance(x[1], tuple) and x[1][:3] == sl
    whole = len(fed) == 1 and (_passthrough_root(fed[0]) == ("param", 1) or (isinstance(fed[0], tuple) and fed[0][:3] == ("call", "CircularBuffer::iter", (("param", 1),))))
    pieces = len(fed) == 2 and is_piece(fed[0], "0") and is_piece(fed[1], "1")
    if not why and not (whole or pieces):
        why.append("entries are fed %s, not the whole sequence in order" % [mir.fmt(x, f)[:60] for x in fed])
    ctx.check(not why, rule, DBG_FN, "debug_list().entries(<all elements in order>).finish()", f.loc,
              "Debug::fmt is not core's list formatting of the elements in order (%s): output, flags such as `{:#?}` or the element order "
              "can differ from the equivalent slice's" % "; ".join(why),
              "finish(entries(debug_list(f), %s))" % ("self" if whole else "as_slices().0 then .1"), cfg)


def base1(ctx, prog, cfg):
    for short, first_guard in ((BASE_SLICE, r"guard Eq\((\(\*self\)\.size, <\[T\]>::len\(other\)|<\[T\]>::len\(other\), \(\*self\)\.size)\)"), (BASE_BUF, r"guard Eq\(\(\*other\)\.size, \(\*self\)\.size\)")):
        f = ctx.need_fn(prog, short, "BASE1")
        if f is None:
            continue
        ev = shapes.events(f, guards=True)
        guards_ = [e for e in ev if e.startswith("guard ")]
        import re

        ctx.check(bool(guards_) and re.fullmatch(first_guard, guards_[0]) is not None, "BASE1", short, "length test first", f.loc,
                  "the first decision of `%s` is `%s`, not the comparison of the two lengths" % (short, guards_[0] if guards_ else "none"),
                  "first guard: len(self) != len(other)", cfg)
        # ... and when the lengths differ the answer is `false`, with no element comparison
        from .. import skeleton as _sk

        order, _ = _sk.canonical_order(f)
        first = next((b for b in order if _sk.positive_branches(f, b) is not None), None)
        okf, whyf = first is not None, "no two-way test"
        if okf:
            pd, tb, fb_ = _sk.positive_branches(f, first)
            region = {fb_} | f.reachable_from(fb_, False)
            cmp_there = [b for b in region if f.term(b)["k"] == "call" and "PartialEq" in (mir.callee_path(f.term(b)) or "")]
            cmp_true = [b for b in ({tb} | f.reachable_from(tb, False)) if f.term(b)["k"] == "call" and "PartialEq" in (mir.callee_path(f.term(b)) or "")]
            rets = [mir.strip_casts(f.rvalue_expr(st["rv"], b, i)) for b in region - ({tb} | f.reachable_from(tb, False)) for i, st in enumerate(f.blocks[b]["stmts"])
                    if st["k"] == "assign" and st["place"]["local"] == 0 and not st["place"]["proj"]]
            okf = pd[1] == "Eq" and not [b for b in cmp_there if b not in cmp_true] and rets and all(r == ("int", 0) for r in rets) and bool(cmp_true)
            whyf = "unequal lengths -> false without comparing; equal lengths -> element comparison" if okf else \
                "on the unequal-lengths branch the function %s" % ("compares elements" if [b for b in cmp_there if b not in cmp_true] else "does not return `false` (%s)" % [mir.fmt(r, f) for r in rets])
        ctx.check(okf, "BASE1", short, "unequal lengths answer false", f.loc,
                  "`%s`: %s" % (short, whyf), whyf, cfg)
        n = 0
        for b, t in f.calls(False):
            p = mir.callee_path(t) or ""
            if "PartialEq" not in p:
                continue
            n += 1
            for a in f.call_args(b):
                a = f.deep_simplify(a)
                roots_ok = any(isinstance(s, tuple) and s and ((s[0] == "call" and s[1] == "CircularBuffer::as_slices") or s == ("param", 2)) for s in mir.walk(a))
                reads_repr = any(isinstance(s, tuple) and s and s[0] == "load" and s[2] and s[2][0] in ("items", "start") for s in mir.walk(a))
                ctx.check(roots_ok and not reads_repr, "BASE1", short, "compared operand derives from as_slices()/other", short_loc(f, b),
                          "a compared operand (`%s`) is not a sub-slice of as_slices() or of `other`" % mir.fmt(a, f)[:120],
                          "operand is a sub-slice of the contents", cfg)
        ctx.floor("BASE1", "slice comparisons in " + short, n, 2, cfg)


def _piece(e):
    """(which, side_index, kind, bound) for an operand of a slice comparison:
    which in {'self','other'}, side_index in {'0','1'}, kind in full|to|from"""
    e = mir.strip_casts(e)
    # &{as_slices(X).k}  (whole slice, compared through core's &A == &B)
    if isinstance(e, tuple) and e[0] == "ref" and isinstance(e[1], tuple) and e[1][0] == "local" and len(e[1]) > 2:
        e = mir.strip_casts(e[1][2])
    bound = None
    kind = "full"
    if isinstance(e, tuple) and e[0] == "call" and "Index<I>>::index" in str(e[1]) and len(e[2]) == 2:
        rng = e[2][1]
        base = mir.strip_casts(e[2][0])
        if isinstance(rng, tuple) and rng[0] == "agg":
            nm = rng[1].split("::")[-1]
            flds = dict(rng[3])
            if nm == "RangeFull":
                kind = "full"
            elif nm == "RangeTo":
                kind, bound = "to", flds.get("end")
            elif nm == "RangeFrom":
                kind, bound = "from", flds.get("start")
            else:
                return None
        else:
            return None
        e = base
    elif isinstance(e, tuple) and e[0] == "field" and e[2] in ("0", "1") and isinstance(e[1], tuple) and e[1][0] == "call" and e[1][1] in ("<[T]>::split_at", "<[T]>::split_at_mut") and len(e[1][2]) == 2:
        # split_at(s, k) = (s[..k], s[k..])
        kind, bound = ("to" if e[2] == "0" else "from"), e[1][2][1]
        e = mir.strip_casts(e[1][2][0])
    if isinstance(e, tuple) and e[0] == "field" and e[2] in ("0", "1") and isinstance(e[1], tuple) and e[1][0] == "call" and e[1][1] == "CircularBuffer::as_slices":
        arg = mir.strip_casts(e[1][2][0])
        which = "self" if arg == ("param", 1) else ("other" if arg == ("param", 2) else None)
        if which:
            return (which, e[2], kind, bound)
    return None


def base2(ctx, prog, cfg):
    """In buffer == buffer every arm compares pieces that *partition* both sequences: each of the
    four segments (self.0, self.1, other.0, other.1) is used either whole or as the complementary
    pair [..k], [k..] with one and the same k, in sequence order (BASE2); and every split point is
    built from the lengths of first segments only (BASE3)."""
    f = ctx.need_fn(prog, BASE_BUF, "BASE2")
    if f is None:
        return
    from .. import guards as _g

    G = _g.Guards(f)
    arms = {}
    la = lb = None
    for b, t in f.calls(False):
        if mir.callee_short(t) in ("CircularBuffer::as_slices", "CircularBuffer::as_mut_slices"):
            a0 = mir.strip_casts(f.deep_simplify(f.call_args(b)[0]))
            ln = ("pcall", "<[T]>::len", (("field", f.call_expr(b), "0"),))
            if a0 == ("param", 1):
                la = ln
            elif a0 == ("param", 2):
                lb = ln
    for b, t in f.calls(False):
        p = mir.callee_path(t) or ""
        if "PartialEq" not in p or "Ord" in p:
            continue
        # the arm a comparison belongs to: how the lengths of the two first segments are ordered there — whether that was
        # decided by `match a.len().cmp(&b.len())` or by an if / else-if chain
        key = None
        if la is not None and lb is not None:
            Z = G.closure(b, extra_terms=[la, lb])
            key = ("Less",) if Z.lt(la, lb) else ("Greater",) if Z.lt(lb, la) else ("Equal",) if Z.eq(la, lb) else None
        if key is None:
            key = tuple(sorted((a[2] for a in G.facts_at(b) if a[0] == "is" and isinstance(a[1], tuple) and a[1][0] == "call" and "Ord>::cmp" in str(a[1][1]))))
        if not key:
            nots = sorted(a[2] for a in G.facts_at(b) if a[0] == "isnot" and isinstance(a[1], tuple) and a[1][0] == "call" and "Ord>::cmp" in str(a[1][1]))
            key = ("not",) + tuple(nots)
        args = [f.deep_simplify(a) for a in f.call_args(b)]
        arms.setdefault(key, []).append((b, [_piece(a) for a in args]))
    ctx.check(len(arms) == 3, "BASE2", f.short, "three arms", f.loc, "expected the three arms Less/Equal/Greater, found %d groups of comparisons" % len(arms),
              "3 arms with %s comparisons" % [len(v) for v in arms.values()], cfg, nontrivial=False)
    for key, comps in sorted(arms.items(), key=str):
        comps.sort(key=lambda x: f.rpo(False).index(x[0]) if x[0] in f.rpo(False) else 0)
        for side, pos in (("self", 0), ("other", 1)):
            pieces = [c[1][pos] for c in comps]
            site = "arm %s: %s pieces partition the sequence" % (key, side)
            if any(p is None or p[0] != side for p in pieces):
                ctx.violate("BASE2", f.short, site, short_loc(f, comps[0][0]),
                            "an operand of a slice comparison is not a piece of `%s.as_slices()`" % side, cfg)
                continue
            want = []
            ok = True
            seq = [(p[1], p[2], p[3]) for p in pieces]
            by = {"0": [x for x in seq if x[0] == "0"], "1": [x for x in seq if x[0] == "1"]}
            order_ok = seq == by["0"] + by["1"]
            for k in ("0", "1"):
                ps = by[k]
                if len(ps) == 1 and ps[0][1] == "full":
                    continue
                if len(ps) == 2 and ps[0][1] == "to" and ps[1][1] == "from" and ps[0][2] == ps[1][2] and ps[0][2] is not None:
                    continue
                ok = False
            ctx.check(ok and order_ok, "BASE2", f.short, site, short_loc(f, comps[0][0]),
                      "in one arm of buffer == buffer the compared pieces of `%s` are %s: they do not cover each segment exactly once "
                      "(whole, or [..k] followed by [k..] with the same k) in sequence order — some elements are compared twice, "
                      "never, or against the wrong partner" % (side, [(s, kd, mir.fmt(bd, f)[:40] if bd else None) for s, kd, bd in seq]),
                      "pieces %s" % [(s, kd) for s, kd, _ in seq], cfg)
            for (_, kd, bd) in seq:
                if bd is None:
                    continue
                leaves_ok = True
                from .. import lenrule as _lr

                bd = _lr.norm_len(mir.strip_casts(bd))  # len(split_at(s, k).1) is len(s) - k, etc.
                for s in mir.walk(bd):
                    if isinstance(s, tuple) and s and s[0] == "load":
                        leaves_ok = False
                    if isinstance(s, tuple) and s and s[0] == "pcall" and s[1] == "<[T]>::len":
                        a = mir.strip_casts(s[2][0])
                        if not (isinstance(a, tuple) and a[0] == "field" and a[2] == "0"):
                            leaves_ok = False
                    if isinstance(s, tuple) and s and s[0] == "binop" and s[1] not in ("Sub",):
                        leaves_ok = False
                ctx.check(leaves_ok, "BASE3", f.short, "arm %s: split point `%s`" % (key, mir.fmt(bd, f)[:60]), short_loc(f, comps[0][0]),
                          "a split point of the segment alignment is computed from something other than the lengths of the two first "
                          "segments (`%s`): where the segments meet does not depend on the total length or on anything else" % mir.fmt(bd, f),
                          "built from len(a_left), len(b_left) by subtraction only", cfg)


REF_INTO_ITER = "<&CircularBuffer<N, T> as IntoIterator>::into_iter"


def elems_source(e, param, allow_bare=False):
    """is e the in-order element iterator of parameter `param`: `p.iter()`, `(&p).into_iter()`, an identity
    `into_iter()` of one of those — or (allow_bare) the buffer reference itself where a std adaptor takes an
    IntoIterator (C07's DERIV1 decides that <&CircularBuffer as IntoIterator>::into_iter is iter())"""
    e = mir.strip_casts(e)
    for _ in range(4):
        if isinstance(e, tuple) and e and e[0] == "ref" and isinstance(e[1], tuple) and e[1][0] == "local" and len(e[1]) > 2:
            e = mir.strip_casts(e[1][2])
            continue
        if isinstance(e, tuple) and e[:2] == ("call", "<I as IntoIterator>::into_iter") and len(e[2]) == 1:
            e = mir.strip_casts(e[2][0])
            continue
        break
    if isinstance(e, tuple) and e[:1] == ("call",) and e[1] in ("CircularBuffer::iter", REF_INTO_ITER) and len(e[2]) == 1:
        return _passthrough_root(e[2][0]) == ("param", param)
    if _chain_of_slices(e, param):
        return True
    return allow_bare and _passthrough_root(e) == ("param", param)


def _chain_of_slices(e, param):
    """`a.iter().chain(b)` (or `.chain(b.iter())`) over the two pieces (a, b) of one `p.as_slices()`, in that order: the
    in-order element sequence, spelled with slices (it is what `iter()` is made of)"""
    e = mir.strip_casts(e)
    if not (isinstance(e, tuple) and e[:1] == ("call",) and str(e[1]).endswith("Iterator::chain") and len(e[2]) == 2):
        return False

    def piece_of(x):
        x = mir.strip_casts(x)
        for _ in range(4):
            if isinstance(x, tuple) and x[:1] == ("call",) and (x[1] in ("<[T]>::iter", "<I as IntoIterator>::into_iter") or str(x[1]).endswith("IntoIterator>::into_iter")) and len(x[2]) == 1:
                x = mir.strip_casts(x[2][0])
                continue
            if isinstance(x, tuple) and x and x[0] == "ref" and isinstance(x[1], tuple) and x[1][0] == "local" and len(x[1]) > 2:
                x = mir.strip_casts(x[1][2])
                continue
            break
        if isinstance(x, tuple) and x[:1] == ("field",) and x[2] in ("0", "1") and isinstance(x[1], tuple) and x[1][:2] == ("call", "CircularBuffer::as_slices") and len(x[1][2]) == 1 \
                and _passthrough_root(x[1][2][0]) == ("param", param):
            return x[2], x[1]
        return None

    a, b = piece_of(e[2][0]), piece_of(e[2][1])
    return a is not None and b is not None and a[0] == "0" and b[0] == "1" and a[1] == b[1]


HASH_FN = "<CircularBuffer<N, T> as Hash>::hash"
_HASH_PLUMBING = ("CircularBuffer::len", "CircularBuffer::iter", "<I as IntoIterator>::into_iter", REF_INTO_ITER, "<Iter<T> as Iterator>::next",
                  "Iterator::for_each", "CircularBuffer::as_slices", "<[T]>::iter", "Iterator::chain", "<Chain<A, B> as Iterator>::next")


def hash1(ctx, prog, cfg):
    """the hasher is fed the length exactly once (on every path, before any element), then exactly one
    generic `<T as Hash>::hash(item, state)` per item of `self.iter()`, by closure or by loop; nothing else"""
    f = ctx.need_fn(prog, HASH_FN, "HASH1")
    if f is None:
        return
    fns = [f] + [g for s, g in sorted(prog.fns.items()) if s.startswith(HASH_FN + "::{closure#") and g.has_mir]
    size = ("load", ("param", 1), ("size",), ("entry", ("M", "size")))
    lens, elems, others = [], [], []
    for g in fns:
        for b, t in g.calls(False):
            p, s = mir.callee_path(t), mir.callee_short(t)
            if p in ("<usize as core::hash::Hash>::hash", "core::hash::Hasher::write_usize"):
                lens.append((g, b, p))
            elif p == "core::hash::Hash::hash":
                elems.append((g, b))
            elif s not in _HASH_PLUMBING:
                others.append("%s in %s" % (p, g.short))
    why = []
    if others:
        why.append("feeds or reads something else: " + "; ".join(others[:3]))
    if len(lens) != 1 or lens[0][0] is not f:
        why.append("%d length writes (expected exactly one, in `hash` itself)" % len(lens))
    else:
        g, b, p = lens[0]
        a = [g.deep_simplify(x) for x in g.call_args(b)]
        if p.endswith("write_usize"):
            a = [("ref", ("local", 0, mir.strip_casts(a[1]))), a[0]]
        v = a[0]
        val = v[1][2] if isinstance(v, tuple) and v[0] == "ref" and v[1][0] == "local" else (("load",) + tuple(v[1][1:]) if isinstance(v, tuple) and v[0] == "ref" and v[1][0] == "place" else None)
        is_size = val == size or (isinstance(val, tuple) and val[:3] == ("load", ("param", 1), ("size",)))
        if not is_size:
            why.append("the length fed to the hasher is `%s`, not the number of elements" % mir.fmt(v, g))
        if a[1] != ("param", 2):
            why.append("the length is not fed to `state`")
        dom = f.dominators()
        for rb in f.return_blocks():
            if not f.dominates(b, rb):
                why.append("the length is not written on every path")
                break
    if len(elems) != 1:
        why.append("%d element hash calls (expected exactly one `item.hash(state)`)" % len(elems))
    else:
        g, b = elems[0]
        a = [g.deep_simplify(x) for x in g.call_args(b)]
        iters = f.calls_to("CircularBuffer::iter", unwind=False) + f.calls_to(REF_INTO_ITER, unwind=False)
        chains = [cb for cb, ct in f.calls(False) if (mir.callee_path(ct) or "").endswith("Iterator::chain")]
        one_iter = len(iters) == 1 and not chains and [_passthrough_root(f.deep_simplify(x)) for x in f.call_args(iters[0][0])] == [("param", 1)]
        one_chain = not iters and len(chains) == 1 and _chain_of_slices(f.deep_simplify(f.call_expr(chains[0])), 1) \
            and len(f.calls_to("CircularBuffer::as_slices", unwind=False)) == 1
        if not (one_iter or one_chain):
            why.append("the elements do not come from exactly one `self.iter()` (or one `a.iter().chain(b)` over one `self.as_slices()`)")
        if g is f:
            it = ("call", "CircularBuffer::iter", (("param", 1),))
            x = a[0]
            okx = (isinstance(x, tuple) and x[0] == "field" and x[2] == "0" and x[1][0] == "as" and x[1][2] == "Some"
                   and x[1][1][0] == "call" and x[1][1][1] in ("<Iter<T> as Iterator>::next", "<Chain<A, B> as Iterator>::next"))
            if okx:
                src_ = mir.strip_casts(x[1][1][2][0])
                if isinstance(src_, tuple) and src_[0] == "ref" and isinstance(src_[1], tuple) and src_[1][0] == "local" and len(src_[1]) == 3 \
                        and isinstance(src_[1][2], tuple) and src_[1][2][:1] == ("phi",) and len(src_[1][2]) == 3:
                    # the loop's iterator variable: what it is when the loop is entered
                    h_, var_ = src_[1][2][1], src_[1][2][2]
                    ins_ = []
                    for p_ in g.preds(False).get(h_, []):
                        if g.dominates(h_, p_, False):
                            continue  # a back edge
                        ins_.append(g.deep_simplify(g.version_expr(g.version_at(p_, len(g.blocks[p_]["stmts"]) + 1, var_))))
                    okx = len(ins_) == 1 and elems_source(ins_[0], 1)
                else:
                    okx = elems_source(src_, 1)
            if not okx:
                why.append("the hashed item `%s` is not the item produced by `self.iter()`" % mir.fmt(x, g))
            if a[1] != ("param", 2):
                why.append("the element is not fed to `state`")
            if lens and lens[0][0] is f and not f.dominates(lens[0][1], b):
                why.append("an element can be hashed before the length")
        else:
            fe = f.calls_to("Iterator::for_each", unwind=False)
            if len(fe) != 1:
                why.append("%d for_each calls" % len(fe))
            else:
                fa = [mir.fmt(f.deep_simplify(x), f) for x in f.call_args(fe[0][0])]
                import re as _re
                if not (elems_source(f.deep_simplify(f.call_args(fe[0][0])[0]), 1) and _re.fullmatch(r"\{closure#0\}::\{0: state\}", fa[1])):
                    why.append("for_each(%s) is not self.iter().for_each(|item| ..state..)" % ", ".join(fa))
                if lens and lens[0][0] is f and not f.dominates(lens[0][1], fe[0][0]):
                    why.append("an element can be hashed before the length")
            if a[0] != ("param", 2) or mir.fmt(a[1], g) != "(*_1).0":
                why.append("the closure hashes `%s` into `%s`, not its item into the captured state" % (mir.fmt(a[0], g), mir.fmt(a[1], g)))
    ctx.check(not why, "HASH1", HASH_FN, "len once, then one element hash per item of iter()", f.loc,
              "`hash` does not feed the length once and then each element of iter() exactly once: %s — hashing slices segment-wise "
              "(or the capacity/start) makes equal buffers hash differently" % "; ".join(why),
              "one length write of `size` dominating the exits, one `<T as Hash>::hash(item, state)` per item of self.iter()", cfg)
