"""C15 — public types keep their borrow, variance, const and auto-trait contracts.

Every contract is a fact of the type definitions, so the compiler deciding one witness decides it
for all client programs. Two independent deciders:
  (a) type-level queries read from the type-checked crate by the driver: variances_of every
      public ADT, is_const_fn(new), the signatures of the borrowing methods (every region of the
      return type is the receiver's), Clone for Iter has no predicate on T, no Clone/Copy for
      Drain/IterMut;
  (b) witness programs compiled against the library as an external user would: must-fail
      witnesses (expected error code on the marked line + compiling twin), must-compile
      witnesses, and 32 const-evaluated auto-trait assertions `impls!(X: Tr) == impls!(Ref(X): Tr)`.
"""
import re

from .. import witness
from ..report import short_loc

QUICK = ["default"]
THOROUGH = ["default", "nostd", "unstable", "eio_both"]
LEVEL = "proof"

EXPLANATION = (
    "Each obligation is decided by rustc's type and borrow checker (witness programs, const-evaluated trait "
    "assertions) or read from its type-checked crate (variances, const-ness, signatures, impl table). A contract is "
    "a fact of the type definitions, so one witness decides it for every client program."
)

VARIANCES = {
    # name: {generic: expected variance}  ('+' covariant, 'o' invariant)
    "CircularBuffer": {"T": "+"},
    "Iter": {"'a": "+", "T": "+"},
    "IterMut": {"'a": "+", "T": "o"},
    "Drain": {"'a": "+", "T": "+"},
    "IntoIter": {"T": "+"},
}

BORROWING = {
    # method short name: receiver must be &mut?
    "CircularBuffer::iter": False, "CircularBuffer::iter_mut": True, "CircularBuffer::range": False,
    "CircularBuffer::range_mut": True, "CircularBuffer::drain": True, "CircularBuffer::make_contiguous": True,
    "CircularBuffer::as_slices": False, "CircularBuffer::as_mut_slices": True, "CircularBuffer::front": False,
    "CircularBuffer::front_mut": True, "CircularBuffer::back": False, "CircularBuffer::back_mut": True,
    "CircularBuffer::get": False, "CircularBuffer::get_mut": True, "CircularBuffer::nth_front": False,
    "CircularBuffer::nth_front_mut": True, "CircularBuffer::nth_back": False, "CircularBuffer::nth_back_mut": True,
    "<CircularBuffer<N, T> as Index<usize>>::index": False, "<CircularBuffer<N, T> as IndexMut<usize>>::index_mut": True,
    "<&CircularBuffer<N, T> as IntoIterator>::into_iter": False,
}
BORROWING_STD = {"<CircularBuffer<N, u8> as std::BufRead>::fill_buf": True}


def run(ctx, progs):
    ctx.explanation = EXPLANATION
    ctx.level = "proof"
    ctx.rule("VARIANCE", "variances_of(ADT) equals the contract table")
    ctx.rule("SIG", "every region in a borrowing method's return type is the receiver's region")
    ctx.rule("CONST", "CircularBuffer::new is a const fn")
    ctx.rule("IMPLS", "Clone for Iter has no T predicate; no Clone/Copy for Drain, IterMut")
    ctx.rule("WITNESS", "must-fail: expected error on the marked line + compiling twin; must-compile: accepted")
    ctx.rule("AUTO", "const assertions impls!(X: Send/Sync) == impls!(std counterpart: Send/Sync)")
    for cfg, prog in progs.items():
        type_queries(ctx, prog, cfg)
    res = witness.run_all()
    cmd = ""
    nfail = 0
    for r in res:
        cmd = cmd or r["cmd"]
        rule = "AUTO" if r["kind"] == "auto-trait" else "WITNESS"
        if r["kind"] in ("must-fail",):
            nfail += 1
        ctx.check(r["ok"], rule, r["name"].split(":")[0] if rule == "WITNESS" else "auto_traits", "%s %s" % (r["kind"], r["name"]),
                  "%s:%s" % (r["file"].replace(witness.VERIF + "/", ""), r["line"]),
                  "witness `%s` (%s): %s" % (r["name"], r["kind"], r["detail"]), r["detail"], "default")
    ctx.floor("WITNESS", "must-fail witnesses", nfail, 28, "default", slack=0)
    ctx.floor("AUTO", "auto-trait assertions", len([r for r in res if r["kind"] == "auto-trait"]), 32, "default", slack=0)
    ctx.notes["checker_cmd"] = cmd + " <witness>.rs   (one run per witness, plus one per compiling twin); type queries: mirdump driver under cargo +nightly check"
    ctx.notes["trusted_base"] = ["rustc 1.97.0-nightly type checker, borrow checker, variance inference and const evaluator",
                                 "the mirdump driver's serialisation of variances_of / fn_sig / is_const_fn / impl table",
                                 "the impls! inherent-const-vs-trait-const idiom (guarded by the must-fail sanity witness auto_traits_sanity)"]


def type_queries(ctx, prog, cfg):
    for name, want in VARIANCES.items():
        adt = prog.adts.get(name)
        if adt is None:
            ctx.violate("VARIANCE", name, "anchor-missing", "?", "public type %s not found" % name, cfg)
            continue
        got = dict(zip(adt["generics"], adt["variances"]))
        for g, v in want.items():
            ctx.check(got.get(g) == v, "VARIANCE", name, "variance of %s" % g, adt["loc"],
                      "`%s` is %s in `%s`, the contract requires %s: %s" % (
                          name, {"+": "covariant", "o": "invariant", "-": "contravariant", "*": "bivariant"}.get(got.get(g), got.get(g)), g,
                          {"+": "covariant", "o": "invariant"}[v],
                          "programs relying on lifetime shortening stop compiling" if v == "+" else "an unsound lifetime coercion through a mutable iterator is accepted"),
                      "variances_of(%s)[%s] = %s" % (name, g, got.get(g)), cfg)
    borrowing = dict(BORROWING)
    if cfg in ("default", "unstable", "eio_both", "eio", "eioa"):
        borrowing.update(BORROWING_STD)
    for short, want_mut in borrowing.items():
        f = ctx.need_fn(prog, short, "SIG")
        if f is None:
            continue
        sig = f.rec.get("sig", {})
        recv = sig.get("inputs", [""])[0]
        out = sig.get("output", "")
        m = re.match(r"^&('r\d+) (mut )?", recv)
        ok = bool(m)
        why = "receiver `%s`" % recv
        if ok:
            r0 = m.group(1)
            ok = bool(m.group(2)) == want_mut
            regions = set(re.findall(r"'(?:r\d+|static)", out))
            ok = ok and regions == {r0}
            why = "receiver `%s`, return type `%s` mentions regions %s" % (recv, out, sorted(regions))
        ctx.check(ok, "SIG", short, "return borrows from the receiver", f.loc,
                  "the return type of `%s` is not tied to the %s borrow of the receiver (%s): the view can outlive or alias "
                  "the buffer" % (short, "&mut" if want_mut else "&", why), why, cfg)
    f = ctx.need_fn(prog, "CircularBuffer::new", "CONST")
    if f is not None:
        ctx.check(f.rec.get("const") is True, "CONST", f.short, "const fn", f.loc,
                  "CircularBuffer::new is no longer a const fn: static/const buffers stop compiling", "is_const_fn = true", cfg)
    clone_iter = [i for i in prog.impls if i.get("trait") == "core::clone::Clone" and i.get("self_adt", "").endswith("::Iter")]
    ok = len(clone_iter) == 1 and not [p for p in clone_iter[0]["preds"] if p.get("self") == "T" and not p.get("trait", "").endswith("Sized")]
    ctx.check(ok, "IMPLS", "Iter", "Clone without T: Clone", clone_iter[0]["loc"] if clone_iter else "?",
              "`Clone for Iter` is missing or requires a bound on T (%s)" % (clone_iter[0]["preds"] if clone_iter else "no impl"),
              "impl<T> Clone for Iter<'_, T> with predicates %s" % (clone_iter[0]["preds"] if clone_iter else ""), cfg)
    for ty in ("Drain", "IterMut"):
        bad = [i["trait"] for i in prog.impls if i.get("self_adt", "").endswith("::" + ty) and i.get("trait") in ("core::clone::Clone", "core::marker::Copy")]
        ctx.check(not bad, "IMPLS", ty, "neither Clone nor Copy", "?",
                  "`%s` implements %s: a second handle to the same mutable elements can be created" % (ty, bad), "no Clone/Copy impl", cfg)
    # unsafe impl Send/Sync must not exist (auto traits are derived structurally)
    ui = [i for i in prog.impls if i.get("trait") in ("core::marker::Send", "core::marker::Sync")]
    ctx.check(not ui, "IMPLS", "*", "no manual Send/Sync impls", "?",
              "manual auto-trait impls %s: Send/Sync no longer follow the element type structurally" % [(i["self_ty"], i["trait"]) for i in ui],
              "no impl of Send/Sync in the crate", cfg)
