"""Guard-fact dataflow: a forward *must* analysis over ordering atoms between SSA value
expressions, decided with a small difference-constraint closure.

An atom is ('le', a, b, w): a - b <= w over unbounded integers restricted to usize values (every
term >= 0), or ('is', e, variant) / ('isnot', e, variant) for enum discriminants. Atoms are
generated only on the exact edge of a `SwitchInt` (or the success edge of an `Assert`) whose
discriminant is a recognised comparison. Because expressions name immutable SSA values, nothing
is ever killed; joins intersect.
"""
from . import mir

ZERO = ("int", 0)
INF = float("inf")

CMP = {"Eq", "Ne", "Lt", "Le", "Gt", "Ge"}


def norm(e):
    """strip value-preserving casts"""
    return mir.strip_casts(e)


def atoms_of_cond(e, truth):
    """atoms implied by boolean expression e having the given truth value"""
    e = norm(e)
    if not isinstance(e, tuple):
        return []
    if e[0] == "unop" and e[1] == "Not":
        return atoms_of_cond(e[2], not truth)
    if e[0] == "binop" and e[1] in CMP:
        op, a, b = e[1], norm(e[2]), norm(e[3])
        if not truth:
            op = {"Eq": "Ne", "Ne": "Eq", "Lt": "Ge", "Ge": "Lt", "Le": "Gt", "Gt": "Le"}[op]
        if op == "Eq":
            return [("le", a, b, 0), ("le", b, a, 0)]
        if op == "Ne":
            return [("ne", a, b)]
        if op == "Lt":
            return [("le", a, b, -1)]
        if op == "Le":
            return [("le", a, b, 0)]
        if op == "Gt":
            return [("le", b, a, -1)]
        if op == "Ge":
            return [("le", b, a, 0)]
    if e[0] == "pcall" and e[1] == "<[T]>::is_empty":
        ln = ("pcall", "<[T]>::len", e[2])
        if truth:
            return [("le", ln, ZERO, 0)]
        return [("le", ZERO, ln, -1)]
    if e[0] == "int":
        return []
    return [("bool", e, truth)]


class Guards:
    def __init__(self, fn):
        self.fn = fn
        self._in = None

    # ---- edge facts ---------------------------------------------------------------------------
    def edge_atoms(self, b, label):
        f = self.fn
        t = f.term(b)
        n = len(f.blocks[b]["stmts"])
        if t["k"] == "switch" and label is not None:
            d = f.operand_expr(t["discr"], b, n)
            d = norm(d)
            dty = t["discr"].get("place", {}).get("ty") or t["discr"].get("ty", "")
            if label[0] == "const":
                return []
            if isinstance(d, tuple) and d[0] == "discr":
                if label[0] == "val":
                    # ... and it is none of the other listed variants: stated too, so that arms sharing a body
                    # (`Equal | Greater => ..`) still know, after their edges join, which variant it is not
                    others = []
                    for v, _ in t.get("targets", []):
                        try:
                            v = int(v)
                        except (TypeError, ValueError):
                            continue
                        if v != label[1]:
                            others.append(v)
                    return [("is", d[1], label[1])] + [("isnot", d[1], v) for v in others]
                return [("isnot", d[1], v) for v in label[1]]
            if dty == "bool":
                if label[0] == "val":
                    return atoms_of_cond(d, bool(label[1]))
                # otherwise-edge of a bool switch: the complement of the listed values
                vals = label[1]
                if vals == [0]:
                    return atoms_of_cond(d, True)
                if vals == [1]:
                    return atoms_of_cond(d, False)
                return []
            # integer switch
            if label[0] == "val":
                return [("le", d, ("int", label[1]), 0), ("le", ("int", label[1]), d, 0)]
            return [("ne", d, ("int", v)) for v in label[1]]
        return []

    def assert_atoms(self, b):
        f = self.fn
        t = f.term(b)
        if t["k"] != "assert":
            return []
        n = len(f.blocks[b]["stmts"])
        if t["msg"] == "BoundsCheck":
            idx = norm(f.operand_expr(t["index"], b, n))
            ln = norm(f.operand_expr(t["len"], b, n))
            return [("le", idx, ln, -1)]
        c = f.operand_expr(t["cond"], b, n)
        return atoms_of_cond(c, t["expected"])

    # ---- dataflow -----------------------------------------------------------------------------
    def solve(self):
        if self._in is not None:
            return self._in
        f = self.fn
        order = f.rpo(True)
        inn = {b: None for b in order}
        if order:
            inn[0] = frozenset()
        edge_cache = {}
        changed = True
        rounds = 0
        while changed:
            changed = False
            rounds += 1
            for b in order:
                cur = inn[b]
                if cur is None:
                    continue
                for s, kind, label in f.succ_edges(b):
                    key = (b, s, kind, str(label))
                    if key not in edge_cache:
                        add = []
                        if kind == "normal":
                            add.extend(self.edge_atoms(b, label))
                            if f.term(b)["k"] == "assert":
                                add.extend(self.assert_atoms(b))
                        edge_cache[key] = frozenset(add)
                    out = cur | edge_cache[key]
                    old = inn.get(s)
                    new = out if old is None else (old & out)
                    if new != old:
                        inn[s] = new
                        changed = True
            if rounds > 100:
                raise RuntimeError("guards did not converge for " + f.short)
        self._in = inn
        return inn

    def facts_at(self, b):
        return self.solve().get(b) or frozenset()

    # ---- entailment ---------------------------------------------------------------------------
    def closure(self, b, extra_terms=(), extra_atoms=()):
        """Difference-bound closure of the facts holding at entry of block b, extended with the
        definitional axioms of the terms involved. Returns a `Zone`."""
        atoms = set(self.facts_at(b)) | set(extra_atoms)
        return Zone(self.fn, atoms, extra_terms)


class Zone:
    def __init__(self, fn, atoms, extra_terms=()):
        self.fn = fn
        # a decided `Range<usize>::is_empty(&r)` orders the bounds of r (std: `!(start < end)`)
        more = set()
        for a in atoms:
            if a[0] == "bool" and isinstance(a[1], tuple) and a[1][:2] == ("call", "Range::is_empty") and len(a[1][2]) == 1:
                r = _deref_value(norm(a[1][2][0]))
                if r is None:
                    x = norm(a[1][2][0])
                    if isinstance(x, tuple) and x and x[0] == "ref" and isinstance(x[1], tuple) and x[1][0] == "place" and len(x[1]) == 3:
                        # a Range stored in memory: &(*p).iter
                        base, path = x[1][1], tuple(x[1][2])
                        ver = None
                        if len(a[1]) == 4 and isinstance(a[1][3], int) and a[1][3] < len(fn.blocks):
                            cb = a[1][3]
                            ver = fn.version_at(cb, len(fn.blocks[cb]["stmts"]), ("M", path[0]))
                        if ver is not None:
                            lo, hi = ("load", base, path + ("start",), ver), ("load", base, path + ("end",), ver)
                            more.add(("le", hi, lo, 0) if a[2] else ("le", lo, hi, -1))
                    continue
                lo, hi = mir.simplify(("field", r, "start")), mir.simplify(("field", r, "end"))
                more.add(("le", norm(hi), norm(lo), 0) if a[2] else ("le", norm(lo), norm(hi), -1))
        # a decided `Range<usize>::contains(&r, &x)`: true means r.start <= x < r.end; false means x < r.start or x >= r.end,
        # which is kept as a disjunction and refuted when both branches are (after the closure)
        self._either = []
        for a in atoms:
            if a[0] == "bool" and isinstance(a[1], tuple) and a[1][:1] == ("call",) and a[1][1] in ("Range::contains", "RangeInclusive::contains") and len(a[1][2]) == 2:
                cb = a[1][3] if len(a[1]) == 4 else None
                lo, hi = _range_bounds(fn, norm(a[1][2][0]), cb)
                x = _value_behind(fn, norm(a[1][2][1]), cb)
                if lo is None or x is None:
                    continue
                x = norm(x)
                incl = 0 if a[1][1] == "RangeInclusive::contains" else -1   # x <= end  /  x < end
                if a[2]:
                    more.add(("le", lo, x, 0))
                    more.add(("le", x, hi, incl))
                else:
                    self._either.append(((x, lo, -1), (hi, x, -1 - incl)))
        # an excluded outcome of a three-way comparison of two usize values (`match a.cmp(&b) { Less => .., _ => .. }`)
        for a in atoms:
            if a[0] == "isnot" and isinstance(a[1], tuple) and a[1][:2] == ("call", "<usize as Ord>::cmp") and len(a[1][2]) == 2:
                xs = [_deref_value(x) for x in a[1][2]]
                if None not in xs:
                    x, y = norm(xs[0]), norm(xs[1])
                    if a[2] in (255, -1):
                        more.add(("le", y, x, 0))      # not Less: x >= y
                    elif a[2] == 1:
                        more.add(("le", x, y, 0))      # not Greater: x <= y
                    elif a[2] == 0:
                        more.add(("ne", x, y))         # not Equal
        if more:
            atoms = set(atoms) | more
        self.atoms = atoms
        terms = {ZERO}
        for a in atoms:
            if a[0] == "le":
                terms.add(a[1])
                terms.add(a[2])
            elif a[0] == "ne":
                terms.add(a[1])
                terms.add(a[2])
        for t in extra_terms:
            terms.add(norm(t))
        for alt in self._either:
            for (x_, y_, _) in alt:
                terms.add(x_)
                terms.add(y_)
        # a decided three-way comparison of two usize values orders them
        self._cmp = []
        for a in atoms:
            if a[0] in ("is", "isnot") and isinstance(a[1], tuple) and a[1][:2] == ("call", "<usize as Ord>::cmp") and len(a[1][2]) == 2:
                xs = [_deref_value(x) for x in a[1][2]]
                if None not in xs and a[2] in (255, -1, 0, 1):
                    x, y = norm(xs[0]), norm(xs[1])
                    terms.add(x)
                    terms.add(y)
                    if a[0] == "is":
                        self._cmp.append((x, y, a[2]))
        # a decided `checked_sub` (directly, or through the `?` operator's Try::branch): Some/Continue means
        # k <= a and the payload is a - k; None/Break means a < k
        self._csub = []
        for a in atoms:
            if a[0] not in ("is", "isnot") or not isinstance(a[1], tuple):
                continue
            e, v = a[1], a[2]
            variant = v if a[0] == "is" else (1 - v if v in (0, 1) else None)
            if variant is None:
                continue
            opt, payload_of, some = None, None, None
            if e[:2] == ("call", "<Option<T> as Try>::branch") and len(e[2]) == 1:
                opt, payload_of, some = norm(e[2][0]), ("as", e, "Continue"), variant == 0
            elif e[:2] == ("pcall", "<usize>::checked_sub"):
                opt, payload_of, some = e, ("as", e, "Some"), variant == 1
            if isinstance(opt, tuple) and opt[:2] == ("pcall", "<usize>::checked_sub") and len(opt[2]) == 2:
                x, k = norm(opt[2][0]), norm(opt[2][1])
                terms.add(x)
                terms.add(k)
                self._csub.append((x, k, some, ("field", payload_of, "0")))
        # sub-terms that carry definitional axioms
        for t in list(terms):
            for s in mir.walk(t):
                if isinstance(s, tuple) and s and (s[0] in ("binop", "pcall", "load", "int", "cparam") or s[:2] in (("call", "add_mod"), ("call", "sub_mod")) or _is_call_result(s)):
                    if s[0] == "binop" and s[1] not in ("Sub", "Add"):
                        continue
                    terms.add(s)
        self.terms = list(terms)
        self.idx = {t: i for i, t in enumerate(self.terms)}
        n = len(self.terms)
        self.d = [[INF] * n for _ in range(n)]
        for i in range(n):
            self.d[i][i] = 0
        self.contradiction = False
        self._ens_done = set()
        self._build()

    def _add(self, a, b, w):
        i, j = self.idx[a], self.idx[b]
        if w < self.d[i][j]:
            self.d[i][j] = w
            return True
        return False

    def _close(self):
        n = len(self.terms)
        d = self.d
        for k in range(n):
            dk = d[k]
            for i in range(n):
                dik = d[i][k]
                if dik == INF:
                    continue
                di = d[i]
                for j in range(n):
                    v = dik + dk[j]
                    if v < di[j]:
                        di[j] = v
        for i in range(n):
            if d[i][i] < 0:
                self.contradiction = True

    def _build(self):
        z = ZERO
        for t in self.terms:
            # usize: 0 <= t
            self._add(z, t, 0)
            if t[0] == "int":
                self._add(t, z, t[1])
                self._add(z, t, -t[1])
        for a in self.atoms:
            if a[0] == "le":
                self._add(a[1], a[2], a[3])
        for x, k, some, payload in self._csub:
            if not some:
                self._add(x, k, -1)
                continue
            self._add(k, x, 0)
            if payload in self.idx:
                if k[0] == "int":
                    self._add(payload, x, -k[1])
                    self._add(x, payload, k[1])
                else:
                    self._add(payload, x, 0)
        for x, y, o in self._cmp:
            if o in (255, -1):
                self._add(x, y, -1)
            elif o == 1:
                self._add(y, x, -1)
            else:
                self._add(x, y, 0)
                self._add(y, x, 0)
        # a few rounds: conditional axioms depend on what is already entailed
        for _ in range(5):
            self._close()
            if self.contradiction:
                return
            changed = False
            for x_, k_, some_, payload_ in self._csub:
                # payload = x - k: a lower bound c on the payload separates k from x by c
                if some_ and payload_ in self.idx and x_ in self.idx and k_ in self.idx:
                    w_ = self.d[self.idx[z]][self.idx[payload_]]
                    if w_ < 0 and self._add(k_, x_, w_):
                        changed = True
            for a in self.atoms:
                if a[0] == "ne":
                    x, y = a[1], a[2]
                    # x != y and x <= y  =>  x < y   (both directions)
                    if self.le(x, y, 0) and self._add(x, y, -1):
                        changed = True
                    if self.le(y, x, 0) and self._add(y, x, -1):
                        changed = True
            for t in list(self.terms):
                if t[0] == "load" and len(t[2]) == 1 and isinstance(t[2][0], str) and t[3][0] == "def":
                    v = stored_value(self.fn, t)
                    if v is not None:
                        v = norm(v)
                        if v not in self.idx:
                            self._grow(v)
                            changed = True
                        if self._add(t, v, 0):
                            changed = True
                        if self._add(v, t, 0):
                            changed = True
                if t[0] == "load" and t[2] == ("size",):
                    cp = buffer_cparam(self.fn, t[1])
                    if cp is not None and ("cparam", cp) in self.idx:
                        # INV: size <= N
                        if self._add(t, ("cparam", cp), 0):
                            changed = True
                if t[0] == "load" and t[2] == ("start",):
                    cp = buffer_cparam(self.fn, t[1])
                    if cp is not None and ("cparam", cp) in self.idx:
                        # INV: N > 0 => start < N
                        if self.le(z, ("cparam", cp), -1) and self._add(t, ("cparam", cp), -1):
                            changed = True
                if t[0] == "binop" and t[1] == "Sub":
                    a, bb = norm(t[2]), norm(t[3])
                    if a in self.idx and bb in self.idx and bb[0] == "int":
                        k = bb[1]
                        # no underflow if a >= k
                        if self.le(bb, a, 0):
                            if self._add(t, a, -k):
                                changed = True
                            if self._add(a, t, k):
                                changed = True
                    elif a in self.idx and bb in self.idx:
                        # a - b with b <= a: result <= a
                        if self.le(bb, a, 0) and self._add(t, a, 0):
                            changed = True
                        # b <= a - k  =>  a - b >= k
                        w = self.d[self.idx[bb]][self.idx[a]]
                        if w < 0 and self._add(z, t, w):
                            changed = True
                if t[0] == "binop" and t[1] == "Add":
                    a, bb = norm(t[2]), norm(t[3])
                    if a in self.idx and bb in self.idx and bb[0] == "int" and bb[1] == 1:
                        # a + 1 does not wrap if a < something
                        bounded = any(
                            self.d[self.idx[a]][j] <= -1 for j in range(len(self.terms)) if j != self.idx[a]
                        )
                        if bounded:
                            if self._add(t, a, 1):
                                changed = True
                            if self._add(a, t, -1):
                                changed = True
                if t[0] == "load" and t[2] in _DRAIN_FIELDS:
                    # reviewed struct invariant of Drain (established by over_range from translate_range_bounds' postcondition,
                    # kept by Range::next / next_back, which only move iter inside range):
                    #   range.start <= iter.start <= iter.end <= range.end <= buf_size <= N
                    for u in self.terms:
                        if u is t or u[0] != "load" or u[2] not in _DRAIN_FIELDS or u[1] != t[1]:
                            continue
                        ra, rb = _DRAIN_FIELDS[t[2]], _DRAIN_FIELDS[u[2]]
                        if ra < rb or (ra == rb == 1 and False):
                            # iter.start vs iter.end only for the same memory version
                            if {t[2], u[2]} == {("iter", "start"), ("iter", "end")} and t[3] != u[3]:
                                continue
                            if self._add(t, u, 0):
                                changed = True
                    # ... <= buf_size <= N: every one of them is at most the capacity (also when buf_size itself is not a term here)
                    for u in self.terms:
                        if u[0] == "cparam" and self._add(t, u, 0):
                            changed = True
                if t[0] == "call" and len(t) == 4 and isinstance(t[3], int) and t[3] < len(self.fn.blocks) and t not in self._ens_done \
                        and self.fn.term(t[3])["k"] == "call" and mir.callee_path(self.fn.term(t[3])) in ("core::mem::replace", "core::mem::take") and t[2]:
                    # mem::replace(&mut place, v) / mem::take(&mut place) return what the place held
                    self._ens_done.add(t)
                    r = norm(t[2][0])
                    if isinstance(r, tuple) and r[0] == "ref" and isinstance(r[1], tuple) and r[1][0] == "place" and len(r[1]) == 3 and r[1][2] and isinstance(r[1][2][0], str):
                        cb = t[3]
                        old = ("load", r[1][1], tuple(r[1][2]), self.fn.version_at(cb, len(self.fn.blocks[cb]["stmts"]), ("M", r[1][2][0])))
                        if old not in self.idx:
                            self._grow(old)
                            changed = True
                        if self._add(t, old, 0):
                            changed = True
                        if self._add(old, t, 0):
                            changed = True
                if t[0] == "field" and isinstance(t[1], tuple) and t[1][:1] == ("phi",) and len(t[1]) == 3 and t not in self._ens_done and not getattr(self, "_nojoin", False):
                    # a component of a joined value is bounded by what bounds it on every incoming edge (bounds that mean the
                    # same everywhere: const parameters and literals). Not inductive: each incoming value is judged on the facts
                    # of its own edge, with the joined value itself left opaque — enough for `cursor.offset < N`, where the
                    # value carried round the loop is an add_mod(.., N)
                    self._ens_done.add(t)
                    for (x, y, w) in _phi_field_bounds(self.fn, t, [u for u in self.terms if u[0] in ("cparam",)] + [z]):
                        if x in self.idx and y in self.idx and self._add(x, y, w):
                            changed = True
                if t[0] == "phi" and len(t) == 3 and isinstance(t[2], tuple) and t[2][:1] == ("L",) and t not in self._ens_done and not getattr(self, "_nojoin", False) \
                        and isinstance(t[1], int) and self.fn.local_ty(t[2][1]) == "usize":
                    # a joined usize (`let n = if a <= b { a } else { b };` — a hand-written min/max/clamp) is bounded by whatever
                    # bounds it on every incoming edge, among values that mean the same on all of them (parameters, const
                    # parameters, memory at entry)
                    self._ens_done.add(t)
                    cands = [u for u in self.terms if u[0] in ("cparam", "param") or (u[0] == "load" and u[3][0] == "entry")][:8] + [z]
                    for (x, y, w) in _phi_field_bounds(self.fn, t, cands):
                        if x in self.idx and y in self.idx and self._add(x, y, w):
                            changed = True
                if t[0] == "load" and t[2] in (("iter", "start"), ("iter", "end")) and t[3][0] == "def" and t not in self._ens_done:
                    # std's Range<usize> iterator, the index source of a Drain (trusted, like RangeBounds): `next` hands out
                    # the old start and advances it by one, `next_back` retreats the end by one and hands out the new end;
                    # either does so only while start < end and otherwise leaves both alone
                    self._ens_done.add(t)
                    for (x, y, w) in _range_step_axioms(self.fn, t, self.atoms):
                        for u in (x, y):
                            if u not in self.idx:
                                self._grow(u)
                        if self._add(x, y, w):
                            changed = True
                if t[0] == "pcall" and t[1] == "<[T]>::len" and len(t[2]) == 1:
                    x = norm(t[2][0])
                    if isinstance(x, tuple) and x and x[0] == "field" and isinstance(x[1], tuple) and x[1][:2] in (("call", "CircularBuffer::as_slices"), ("call", "CircularBuffer::as_mut_slices")) and len(x[1]) == 4:
                        # each of the two pieces of the contents is at most the whole: len(piece) <= size (at the call)
                        cb = x[1][3]
                        if isinstance(cb, int) and cb < len(self.fn.blocks):
                            sz = ("load", norm(x[1][2][0]), ("size",), self.fn.version_at(cb, len(self.fn.blocks[cb]["stmts"]), ("M", "size")))
                            if sz not in self.idx:
                                self._grow(sz)
                            if self._add(t, sz, 0):
                                changed = True
                if _is_call_result(t) and t not in self._ens_done:
                    self._ens_done.add(t)
                    for a in instantiate_ensures(self.fn, t):
                        for x in (a[1], a[2]):
                            if x not in self.idx:
                                self._grow(x)
                        if self._add(a[1], a[2], a[3]):
                            changed = True
                if t[0] == "call" and t[1] in ("add_mod", "sub_mod") and len(t[2]) == 3:
                    # the modular helpers return a position: result < m when m > 0 (their contract; the
                    # arithmetic that establishes it is C19's stated assumption)
                    m = norm(t[2][2])
                    if m in self.idx and self.le(z, m, -1) and self._add(t, m, -1):
                        changed = True
                if t[0] == "pcall" and t[1] in ("core::cmp::min", "core::cmp::Ord::min", "<usize>::min"):
                    ops_ = [norm(x) for x in t[2]]
                    for x in ops_:
                        if x in self.idx and self._add(t, x, 0):
                            changed = True
                    # ... and it is one of them: whatever is below both is below it
                    if len(ops_) == 2 and all(x in self.idx for x in ops_):
                        ia, ib, it_ = self.idx[ops_[0]], self.idx[ops_[1]], self.idx[t]
                        for u in list(self.terms):
                            iu = self.idx[u]
                            w = max(self.d[iu][ia], self.d[iu][ib])
                            if w < INF and self._add(u, t, w):
                                changed = True
            if not changed:
                break
        self._close()
        for alt in getattr(self, "_either", []):
            # each alternative (x - y <= w) is impossible when y - x <= -w - 1 is entailed
            if all(x_ in self.idx and y_ in self.idx and self.d[self.idx[y_]][self.idx[x_]] <= -w_ - 1 for (x_, y_, w_) in alt):
                self.contradiction = True

    def _grow(self, v):
        """add a term (and its definitional sub-terms) after construction"""
        new = []
        for s in mir.walk(v):
            if isinstance(s, tuple) and s and (s is v or s[0] in ("binop", "pcall", "load", "int", "cparam")):
                if s[0] == "binop" and s[1] not in ("Sub", "Add") and s is not v:
                    continue
                if s not in self.idx:
                    new.append(s)
        for s in new:
            if s in self.idx:
                continue
            self.idx[s] = len(self.terms)
            self.terms.append(s)
            for row in self.d:
                row.append(INF)
            self.d.append([INF] * len(self.terms))
            self.d[-1][-1] = 0
            self._add(ZERO, s, 0)
            if s[0] == "int":
                self._add(s, ZERO, s[1])
                self._add(ZERO, s, -s[1])

    def has(self, t):
        return norm(t) in self.idx

    def le(self, a, b, w=0):
        """entailed: a - b <= w"""
        if self.contradiction:
            return True
        a, b = norm(a), norm(b)
        if a not in self.idx or b not in self.idx:
            return False
        return self.d[self.idx[a]][self.idx[b]] <= w

    def lt(self, a, b):
        return self.le(a, b, -1)

    def gt0(self, a):
        return self.le(ZERO, a, -1)

    def eq(self, a, b):
        return self.le(a, b, 0) and self.le(b, a, 0)

    def eq0(self, a):
        return self.le(a, ZERO, 0)

    def is_variant(self, e, v):
        return ("is", e, v) in self.atoms


def _phi_field_bounds(fn, t, bounds):
    if t[0] == "phi":
        phi, fname = t, None
    else:
        phi, fname = t[1], t[2]
    blk, var = phi[1], phi[2]
    if not (isinstance(blk, int) and blk < len(fn.blocks)):
        return []
    ins = []
    for p in fn.preds(False).get(blk, []):
        n = len(fn.blocks[p]["stmts"]) + 1
        v = fn.version_expr(fn.version_at(p, n, var))
        e = norm(fn.deep_simplify(("field", v, fname) if fname is not None else v))
        ins.append((p, e))
    if not ins:
        return []
    G = Guards(fn)
    out = []
    for u in bounds:
        hi, lo = [], []
        for (p, e) in ins:
            if e == t:
                continue  # the value is carried through unchanged on this edge
            atoms = set(G.facts_at(p))
            for (s_, kind, label) in fn.succ_edges(p):
                if s_ == blk and kind == "normal":
                    atoms |= set(G.edge_atoms(p, label))
                    break
            Z = Zone.__new__(Zone)
            Z._nojoin = True
            Z.__init__(fn, atoms, [e, u])
            if Z.contradiction:
                continue
            if e not in Z.idx or u not in Z.idx:
                hi.append(INF)
                lo.append(INF)
                continue
            hi.append(Z.d[Z.idx[e]][Z.idx[u]])
            lo.append(Z.d[Z.idx[u]][Z.idx[e]])
        if hi and max(hi) < INF:
            out.append((t, u, max(hi)))
        if lo and max(lo) < INF:
            out.append((u, t, max(lo)))
    return out


def _value_behind(fn, r, call_block):
    """the usize value behind a reference expression: `&local`, `&param`, `&local.field`, `&(*p).field`"""
    v = _deref_value(r)
    if v is not None:
        return v
    if isinstance(r, tuple) and r and r[0] == "ref" and isinstance(r[1], tuple):
        t = r[1]
        if t[0] == "local" and len(t) == 2 and isinstance(t[1], int) and 1 <= t[1] <= fn.arg_count:
            return ("param", t[1])
        if t[0] == "place" and len(t) == 3 and t[2] and all(isinstance(p_, str) for p_ in t[2]):
            base = t[1]
            inner = _value_behind(fn, base, call_block) if isinstance(base, tuple) and base[:1] == ("ref",) else None
            if inner is not None:
                for p_ in t[2]:
                    inner = mir.simplify(("field", inner, p_))
                return inner
            if isinstance(call_block, int) and call_block < len(fn.blocks):
                ver = fn.version_at(call_block, len(fn.blocks[call_block]["stmts"]), ("M", t[2][0]))
                return ("load", base, tuple(t[2]), ver)
    return None


def _range_bounds(fn, r, call_block):
    """(start, end) terms of the Range<usize> / RangeInclusive<usize> behind reference expression r"""
    v = _value_behind(fn, r, call_block) if not (isinstance(r, tuple) and r[:1] == ("ref",) and isinstance(r[1], tuple) and r[1][:1] == ("place",)
                                                and not (isinstance(r[1][1], tuple) and r[1][1][:1] == ("ref",))) else None
    if isinstance(v, tuple) and v[:2] == ("call", "RangeInclusive::new") and len(v[2]) == 2:
        return norm(v[2][0]), norm(v[2][1])
    if v is not None and not (isinstance(v, tuple) and v[:1] in (("const",), ("load",))):
        return norm(mir.simplify(("field", v, "start"))), norm(mir.simplify(("field", v, "end")))
    if isinstance(r, tuple) and r and r[0] == "ref" and isinstance(r[1], tuple) and r[1][0] == "place" and len(r[1]) == 3 and r[1][2]:
        base, path = r[1][1], tuple(r[1][2])
        if isinstance(call_block, int) and call_block < len(fn.blocks) and isinstance(path[0], str):
            ver = fn.version_at(call_block, len(fn.blocks[call_block]["stmts"]), ("M", path[0]))
            return ("load", base, path + ("start",), ver), ("load", base, path + ("end",), ver)
    return None, None


RANGE_NEXT = ("<Range<A> as Iterator>::next", "<Range<A> as DoubleEndedIterator>::next_back")


def _range_step_axioms(fn, t, atoms):
    """difference constraints (x - y <= w) relating a Drain's iter.start / iter.end after a call of std's
    Range::next / next_back (the call that defined the memory version of load `t`) to their values before it and to
    the index handed out"""
    ver = t[3]
    b = ver[1]
    if not (isinstance(b, int) and 0 <= b < len(fn.blocks)):
        return []
    term = fn.term(b)
    n = len(fn.blocks[b]["stmts"])
    if term["k"] != "call" or ver[2] != n:
        return []
    R = fn.call_expr(b)
    if not (isinstance(R, tuple) and R[0] == "call" and R[1] in RANGE_NEXT and len(R[2]) == 1):
        return []
    a = norm(R[2][0])
    if not (isinstance(a, tuple) and a[0] == "ref" and isinstance(a[1], tuple) and a[1][0] == "place" and a[1][1] == t[1] and tuple(a[1][2]) == ("iter",)):
        return []
    pre = fn.version_at(b, n, ("M", "iter"))
    S0, E0 = ("load", t[1], ("iter", "start"), pre), ("load", t[1], ("iter", "end"), pre)
    S1, E1 = ("load", t[1], ("iter", "start"), ver), ("load", t[1], ("iter", "end"), ver)
    some = ("is", R, 1) in atoms or ("isnot", R, 0) in atoms
    none = ("is", R, 0) in atoms or ("isnot", R, 1) in atoms
    P = ("field", ("as", R, "Some"), "0")
    out = []

    def eq(x, y, k=0):   # x == y + k
        out.append((x, y, k))
        out.append((y, x, -k))

    if R[1].endswith("::next"):
        eq(E1, E0)
        out.append((S0, S1, 0))
        out.append((S1, S0, 1))
        if some:
            eq(P, S0)
            eq(S1, S0, 1)
            out.append((S0, E0, -1))
        if none:
            eq(S1, S0)
            out.append((E0, S0, 0))
    else:
        eq(S1, S0)
        out.append((E1, E0, 0))
        out.append((E0, E1, 1))
        if some:
            eq(P, E1)
            eq(E0, E1, 1)
            out.append((S0, E1, 0))
        if none:
            eq(E1, E0)
            out.append((E0, S0, 0))
    return out


_DRAIN_FIELDS = {("range", "start"): 0, ("iter", "start"): 1, ("iter", "end"): 2, ("range", "end"): 3, ("buf_size",): 4}


def _is_call_result(s):
    """('call', local fn, args, block) or a tuple component ('field', <that>, i) of it"""
    if not isinstance(s, tuple) or not s:
        return False
    if s[0] == "field" and isinstance(s[1], tuple) and s[1][:1] == ("call",) and len(s[1]) == 4:
        return True
    return s[0] == "call" and len(s) == 4 and isinstance(s[1], str)


_ENSURES = {}


def ensures(g):
    """Postcondition of a crate function with one normal return: the difference constraints that hold at
    the return between the components of the returned value (('ret',) or ('ret', field)) and the entry
    terms (parameters, const parameters, memory at entry). E.g. translate_range_bounds: ret.0 <= ret.1,
    ret.1 <= (*buf).size, because its assertions dominate the return."""
    key = (id(g.prog), g.short)
    if key in _ENSURES:
        return _ENSURES[key]
    _ENSURES[key] = []  # recursion guard
    out = []
    rets = g.return_blocks() if g.has_mir else []
    if len(rets) == 1 and not g.is_closure():
        r = rets[0]
        e = norm(g.deep_simplify(g.return_expr(r)))
        comps = {}
        if isinstance(e, tuple) and e and e[0] == "agg" and e[1] == "tuple":
            for name, x in e[3]:
                comps[norm(x)] = ("ret", str(name))
        elif isinstance(e, tuple) and e and g.locals and g.locals[0]["ty"] == "usize":
            comps[e] = ("ret",)
        comps = {k: v for k, v in comps.items() if isinstance(k, tuple) and k and k[0] != "int"}
        if comps:
            Z = Guards(g).closure(r, extra_terms=list(comps))
            if not Z.contradiction:
                entry = [x for x in Z.terms if x not in comps and x != ZERO and x[0] != "int" and mir.entry_terms_only(x)]
                for x in comps:
                    for y in list(comps) + entry:
                        if x == y:
                            continue
                        for (p, q) in ((x, y), (y, x)):
                            w = Z.d[Z.idx[p]][Z.idx[q]]
                            if w < INF and w <= 0:
                                out.append(("le", comps.get(p, p), comps.get(q, q), w))
    _ENSURES[key] = out
    return out


def instantiate_ensures(fn, t):
    """ENSURES atoms of the callee of call-result term t, in fn's terms"""
    call = t[1] if t[0] == "field" else t
    g = fn.prog.fns.get(call[1])
    if g is None or not g.has_mir or g is fn:
        return []
    ens = ensures(g)
    if not ens:
        return []
    b = call[3]
    if not isinstance(b, int) or b >= len(fn.blocks) or fn.term(b)["k"] != "call":
        return []
    cal = mir.callee_of(fn.term(b)) or {}
    gargs = cal.get("rargs") or cal.get("args") or []
    args = tuple(call[2])
    out = []

    def inst(x):
        if x == ("ret",):
            return call
        if isinstance(x, tuple) and x[:1] == ("ret",):
            return ("field", call, x[1])
        return norm(fn.deep_simplify(mir.translate(g, x, fn, b, args, gargs)))

    for a in ens:
        try:
            out.append(("le", inst(a[1]), inst(a[2]), a[3]))
        except mir.Untranslatable:
            continue
    return out


def _deref_value(e):
    """the value behind `&local` / `&place` as the expression language records it"""
    if isinstance(e, tuple) and e and e[0] == "ref" and isinstance(e[1], tuple):
        if e[1][0] == "local" and len(e[1]) > 2:
            return e[1][2]
    return None


def buffer_cparam(fn, base):
    """Name of the const parameter that is the capacity of the buffer `base` points to."""
    import re

    base = norm(base)
    ty = None
    if isinstance(base, tuple) and base[0] == "param":
        ty = fn.local_ty(base[1])
    if ty is not None:
        m = re.search(r"CircularBuffer<([A-Za-z_0-9]+),", ty)
        if m:
            return m.group(1)
        # e.g. &mut Drain<N, T> / IntoIter<N, T>
        m = re.search(r"(?:Drain|IntoIter)<([A-Za-z_0-9]+),", ty)
        if m:
            return m.group(1)
    # fall back: unique const generic of the function
    gens = fn.rec.get("generics")
    f = fn
    while gens is None and f.rec.get("enclosing_fn"):
        f = fn.prog.fns.get(f.rec["enclosing_fn"])
        if f is None:
            break
        gens = f.rec.get("generics")
    if gens:
        cs = [g.split(":")[0] for g in gens if g.endswith(":Const")]
        if len(cs) == 1:
            return cs[0]
    return None


def store_summary(g, field):
    """If function g stores to `field` exactly once, through a pointer parameter, at a position
    that dominates every return, with a value in entry terms, and calls nothing that writes the
    field: (param_index, value_expr). Else None."""
    from . import effects

    key = ("store_summary", field)
    if key in g._cache:
        return g._cache[key]
    res = None
    stores = []
    bad = False
    for b, i, st, is_term in g.positions(False):
        if not is_term:
            if st["k"] == "assign" and mir.place_has_deref(st["place"]) and mir.mem_var_of(st["place"]) == ("M", field):
                stores.append((b, i, st))
            elif st["k"] in ("setdiscr", "copy_nonoverlapping"):
                pass
        elif st["k"] == "call":
            for d in effects.call_mem_defs(g, b, st):
                if d == ("M", field) or d == ("M", effects.ALL):
                    bad = True
        elif st["k"] == "drop":
            for imp in st.get("drop_impls", []):
                if field in effects.writes_of(g.prog, imp):
                    bad = True
    if not bad and len(stores) == 1:
        b, i, st = stores[0]
        pl = st["place"]
        proj = pl["proj"]
        if len(proj) == 2 and proj[0]["k"] == "deref" and proj[1]["k"] == "field" and 1 <= pl["local"] <= g.arg_count:
            base = g.local_expr(pl["local"], b, i)
            val = g.rvalue_expr(st["rv"], b, i)
            if base == ("param", pl["local"]) and mir.entry_terms_only(val):
                if all(g.pos_dominates((b, i), (rb, len(g.blocks[rb]['stmts'])), False) for rb in g.return_blocks()):
                    res = (pl["local"], val)
    g._cache[key] = res
    return res


def stored_value(fn, load):
    """value of ('load', base, (field,), ('def', b, i, var)) when the defining position is a
    direct store through the same base, or a call whose callee has a store summary"""
    _, base, path, ver = load
    field = path[0]
    _, b, i, var = ver
    blk = fn.blocks[b]
    if i < len(blk["stmts"]):
        st = blk["stmts"][i]
        if st["k"] == "assign" and mir.place_has_deref(st["place"]):
            pl = st["place"]
            proj = pl["proj"]
            if len(proj) == 2 and proj[0]["k"] == "deref" and proj[1]["k"] == "field" and proj[1]["name"] == field:
                sbase = fn.local_expr(pl["local"], b, i)
                if norm(sbase) == norm(base):
                    return fn.rvalue_expr(st["rv"], b, i)
        return None
    t = blk["term"]
    if t["k"] != "call":
        return None
    cal = mir.callee_of(t)
    if cal is None:
        return None
    tgt = cal.get("rshort") or cal["short"]
    g = fn.prog.fns.get(tgt)
    if g is None or not cal.get("rlocal", cal.get("local")):
        return None
    summ = store_summary(g, field)
    if summ is None:
        return None
    p, val = summ
    args = tuple(fn.call_args(b))
    if p - 1 >= len(args) or norm(args[p - 1]) != norm(base):
        return None
    try:
        return mir.translate(g, val, fn, b, args, cal.get("rargs") or cal.get("args") or [])
    except mir.Untranslatable:
        return None
