"""Explicit-panic reachability with caller-context pruning (PAN1/PAN2/PAN3 of DESIGN.md)."""
from . import common, effects, guards, mir
from .report import short_loc

PANIC_FNS = {
    "core::panicking::panic": "panic",
    "core::panicking::panic_fmt": "panic_fmt",
    "core::panicking::panic_explicit": "panic",
    "core::panicking::panic_display": "panic",
    "core::panicking::panic_nounwind": "panic",
    "core::panicking::assert_failed": "assert_failed",
    "core::panicking::unreachable_display": "unreachable",
    "core::option::Option::expect": "expect",
    "core::option::Option::unwrap": "unwrap",
    "core::result::Result::expect": "expect",
    "core::result::Result::unwrap": "unwrap",
    "core::result::Result::expect_err": "expect_err",
    "core::result::Result::unwrap_err": "unwrap_err",
    "core::option::expect_failed": "expect_failed",
    "core::option::unwrap_failed": "unwrap_failed",
    "core::result::unwrap_failed": "unwrap_failed",
    "std::rt::begin_panic": "panic",
    "std::panicking::begin_panic": "panic",
    "core::panicking::panic_const::panic_const_add_overflow": "panic",
}

RANGE_FNS = {
    "CircularBuffer::drain", "CircularBuffer::range", "CircularBuffer::range_mut",
    "Drain::over_range", "Iter::over_range", "IterMut::over_range", "translate_range_bounds",
}
SAFE_RANGE_TYPES = ("core::ops::range::RangeTo<usize>", "core::ops::range::RangeFull")


def direct_sites(f):
    """[(b, label)] explicit panic call sites on normal paths (release semantics)"""
    key = "panic_sites"
    if key in f._cache:
        return f._cache[key]
    out = []
    for b, t in f.calls(False):
        p = mir.callee_path(t)
        if p in PANIC_FNS or (p or "").startswith("core::panicking::panic_const"):
            exp = [x.split("::")[-1] for x in t.get("exp", [])]
            macro = next((x for x in exp if x in ("assert", "assert_eq", "assert_ne", "unimplemented", "unreachable", "panic", "todo", "debug_assert", "debug_assert_eq")), None)
            label = macro or PANIC_FNS.get(p, "panic")
            out.append((b, label))
    f._cache[key] = out
    return out


def _local_adt(g, ty):
    t = ty
    for pre in ("&mut ", "&", "*mut ", "*const "):
        if t.startswith(pre):
            t = t[len(pre):]
    t = t.split("<")[0].strip()
    for a in g.prog.facts.get("adts", []):
        if a.get("path") == t:
            return a
    return None


def entry_vocab(g):
    """terms of g's entry vocabulary onto which a caller's knowledge is projected"""
    terms = [guards.ZERO]
    for n in range(1, g.arg_count + 1):
        ty = g.local_ty(n)
        if ty == "usize":
            terms.append(("param", n))
        elif mir.ty_mentions_buffer(ty) and (ty.startswith("&") or ty.startswith("*")):
            terms.append(("load", ("param", n), ("size",), ("entry", ("M", "size"))))
        elif ty.replace(" ", "") in ("core::ops::range::Range<usize>", "core::ops::Range<usize>", "std::ops::Range<usize>"):
            terms.append(("field", ("param", n), "start"))
            terms.append(("field", ("param", n), "end"))
        elif _local_adt(g, ty) is not None and not mir.ty_mentions_buffer(ty) and "::Drain<" not in ty:
            # a small private struct passed around by value or by reference (CircularSlicePtr): its usize fields
            adt = _local_adt(g, ty)
            for fld in adt.get("fields", []):
                if fld.get("ty") == "usize":
                    if ty.startswith("&") or ty.startswith("*"):
                        terms.append(("load", ("param", n), (fld["name"],), ("entry", ("M", fld["name"]))))
                    else:
                        terms.append(("field", ("param", n), fld["name"]))
        elif "::Drain<" in ty and ty.startswith("&"):
            # the drain's bookkeeping as the callee finds it (the caller may just have stepped the index iterator)
            for path in guards._DRAIN_FIELDS:
                terms.append(("load", ("param", n), path, ("entry", ("M", path[0]))))
    for gen in g.rec.get("generics", []):
        if gen.endswith(":Const"):
            terms.append(("cparam", gen.split(":")[0]))
    return terms


def project(caller, b, g, extra_atoms):
    """atoms over g's entry vocabulary that hold at the call in block b of `caller`"""
    t = caller.term(b)
    if t["k"] != "call":
        return frozenset()
    fn = mir.callee_of(t)
    if fn is None or (fn.get("rshort") or fn["short"]) != g.short:
        return frozenset()
    args = tuple(caller.call_args(b))
    gargs = fn.get("rargs") or fn.get("args") or []
    vocab = entry_vocab(g)
    tr = {}
    for v in vocab:
        try:
            tr[v] = guards.norm(caller.deep_simplify(mir.translate(g, v, caller, b, args, gargs)))
        except mir.Untranslatable:
            pass
    G = guards.Guards(caller)
    Z = G.closure(b, extra_terms=list(tr.values()), extra_atoms=extra_atoms)
    if Z.contradiction:
        return None
    out = set()
    for x, cx in tr.items():
        for y, cy in tr.items():
            if x == y or cx not in Z.idx or cy not in Z.idx:
                continue
            d = Z.d[Z.idx[cx]][Z.idx[cy]]
            if d != guards.INF and not (x == guards.ZERO and d == 0):
                out.add(("le", x, y, int(d)))
    return frozenset(out)


def _some_edge_feasible(f, G, b, assumed):
    """A panic block that several failing tests share (`assert!(a && b)`) only knows, as a block, what all its incoming
    paths have in common. It is reachable only over one of its incoming edges: judge each edge on the facts of its source
    plus the edge's own condition."""
    def incoming(x):
        out = []
        for p in f.preds(False).get(x, []):
            for (s, kind, label) in f.succ_edges(p):
                if s == x and kind == "normal":
                    out.append((p, label))
        return out

    edges = incoming(b)
    for _ in range(8):  # the message is formatted in a straight line between the shared join and the panic call
        if len(edges) != 1:
            break
        b = edges[0][0]
        edges = incoming(b)
    if len(edges) < 2:
        return True
    for (p, label) in edges:
        atoms = set(G.facts_at(p)) | set(G.edge_atoms(p, label)) | set(assumed)
        if f.term(p)["k"] == "assert":
            atoms |= set(G.assert_atoms(p))
        if not guards.Zone(f, atoms).contradiction:
            return True
    return False


def opaque_condition(f, b):
    """Is the test that leads to panic block b stated over something the guard reasoning cannot read — a call it has no
    model of, or a modelled one (`Range::contains`) whose operands it cannot resolve (a promoted constant such as `&(0..N)`)?
    Such an assertion is neither proved nor refuted: it is listed as undecided, never reported."""
    G = guards.Guards(f)

    def incoming(x):
        out = []
        for p in f.preds(False).get(x, []):
            for (s, kind, label) in f.succ_edges(p):
                if s == x and kind == "normal":
                    out.append((p, label))
        return out

    edges = incoming(b)
    for _ in range(8):
        if len(edges) != 1 or f.term(edges[0][0])["k"] in ("switch", "assert"):
            break
        b = edges[0][0]
        edges = incoming(b)
    for (p, label) in edges:
        atoms = list(G.edge_atoms(p, label)) + (list(G.assert_atoms(p)) if f.term(p)["k"] == "assert" else [])
        for a in atoms:
            if a[0] != "bool" or not isinstance(a[1], tuple):
                continue
            c = a[1]
            if c[:1] != ("call",) and c[:1] != ("pcall",):
                continue  # a plain boolean value: nothing to model
            name = c[1]
            if name == "Range::is_empty":
                continue
            if name in ("Range::contains", "RangeInclusive::contains") and len(c[2]) == 2:
                cb = c[3] if len(c) == 4 else None
                lo, hi = guards._range_bounds(f, guards.norm(c[2][0]), cb)
                x = guards._value_behind(f, guards.norm(c[2][1]), cb)
                if lo is not None and x is not None:
                    continue
            return "`%s` over operands the guard reasoning cannot resolve" % name
    return None


class Reach:
    def __init__(self, prog):
        self.prog = prog
        self.eff = effects.get(prog)
        self.memo = {}
        self.pruned = []  # (caller, block, callee, site) pruned by context
        self.range_checks = []  # (caller, block, callee, ok, why)

    def sites(self, short, assumed=frozenset(), depth=0, stack=()):
        """set of (fn_short, block, label) feasible explicit panic sites reachable from `short`
        under the assumed atoms (in `short`'s entry terms)"""
        key = (short, assumed)
        if key in self.memo:
            return self.memo[key]
        if short in stack or depth > 12:
            return set()
        f = self.prog.fns[short]
        G = guards.Guards(f)
        res = set()
        for b, label in direct_sites(f):
            Z = G.closure(b, extra_atoms=assumed)
            if Z.contradiction or not _some_edge_feasible(f, G, b, assumed):
                self.pruned.append((short, b, short, label))
                continue
            res.add((short, b, label))
        for kind, b, tgt in self.eff.callees(short):
            if b not in f.reachable(False) and not f.is_cleanup(b):
                continue
            if f.is_cleanup(b):
                continue  # only normal paths: a panic while unwinding is a different property
            g = self.prog.fns[tgt]
            Zb = G.closure(b, extra_atoms=assumed)
            if Zb.contradiction:
                continue
            sub_assumed = frozenset()
            if kind == "call":
                pr = project(f, b, g, assumed)
                if pr is None:
                    continue
                sub_assumed = pr
                # PAN2 shape rule for ranges built inside the crate
                if tgt in RANGE_FNS:
                    ok = self._safe_range(f, b, g)
                    if ok is not None:
                        self.range_checks.append((short, b, tgt, ok[0], ok[1]))
                        if ok[0]:
                            sub = self.sites(tgt, sub_assumed, depth + 1, stack + (short,))
                            res |= {s for s in sub if s[0] != "translate_range_bounds"}
                            continue
            sub = self.sites(tgt, sub_assumed, depth + 1, stack + (short,))
            res |= sub
        self.memo[key] = res
        return res

    def _safe_range(self, f, b, g):
        """(ok, why) if the call passes a range value built in place whose type cannot make
        translate_range_bounds panic given the facts; None if the range is the caller's own
        generic parameter (then the panic is the documented one and propagates)"""
        t = f.term(b)
        fn = mir.callee_of(t)
        gargs = fn.get("rargs") or fn.get("args") or []
        rty = gargs[-1] if gargs else ""
        if not rty.startswith("core::ops::range::"):
            return None
        args = f.call_args(b)
        rng = next((a for a in args if isinstance(a, tuple) and a[0] == "agg" and a[1].startswith("core::ops::range::")), None)
        if rty == "core::ops::range::RangeFull":
            return (True, "RangeFull: start 0, end len — both assertions hold trivially")
        if rty == "core::ops::range::RangeTo<usize>" and rng is not None:
            end = dict(rng[3]).get("end")
            n = len(f.blocks[b]["stmts"])
            size = None
            for a in args:
                if isinstance(a, tuple) and a[0] == "param" and mir.ty_mentions_buffer(f.local_ty(a[1])):
                    size = common.cur_size(f, b, n, a)
            if end is not None and size is not None:
                Z = guards.Guards(f).closure(b, extra_terms=[end, size])
                if Z.le(end, size, 0):
                    return (True, "RangeTo{end}: facts entail end <= size (end = %s)" % mir.fmt(end, f))
                return (False, "RangeTo{end = %s}: `end <= size` is not entailed at the call" % mir.fmt(end, f))
        if rng is None and rty in SAFE_RANGE_TYPES:
            return None
        return (False, "range of type %s built inside the crate is not one of the reviewed non-panicking shapes" % rty)
