"""REQUIRES propagation: preconditions generated at a site are discharged by the must-facts at
that site, or exported to the function's callers (translated through argument provenance), until a
guard discharges them. A public entry with an undischarged REQUIRES is reported with the call
path.

An atom is ('le', a, b, w)  (a - b <= w)  in the entry terms of the function that exports it.
"""
from . import effects, guards, mir
from .report import short_loc


class Req:
    __slots__ = ("atom", "why", "chain", "tag")

    def __init__(self, atom, why, chain, tag):
        self.atom = atom
        self.why = why
        self.chain = chain  # list of (fn_short, loc) from the generating site outwards
        self.tag = tag

    def key(self):
        return (self.atom, self.tag)


def fmt_atom(a, f=None):
    x, y, w = a[1], a[2], a[3]
    if x == guards.ZERO and w == -1:
        return "%s > 0" % mir.fmt(y, f)
    rel = "<" if w == -1 else "<=" if w == 0 else "<= %d +" % w
    return "%s %s %s" % (mir.fmt(x, f), rel, mir.fmt(y, f))


class Engine:
    """generators: callable(fn) -> list of (b, i, atom, why, tag) in fn's *local* terms at (b,i);
    declared: {fn_short: [(atom_in_entry_terms, why, tag)]} preconditions by table."""

    def __init__(self, prog, generators, declared=None, exempt=None):
        self.prog = prog
        self.eff = effects.get(prog)
        self.generators = generators
        self.declared = declared or {}
        self.exempt = exempt or {}
        self.exports = {}  # fn -> {key: Req}
        self.discharged = []  # (fn, site, by)
        self.failures = []  # (fn, b, req, reason)
        self.sites = 0
        self._guards = {}

    def G(self, f):
        g = self._guards.get(f.short)
        if g is None:
            g = guards.Guards(f)
            self._guards[f.short] = g
        return g

    def entailed(self, f, b, atom):
        Z = self.G(f).closure(b, extra_terms=[atom[1], atom[2]])
        return Z.le(atom[1], atom[2], atom[3])

    def refuted(self, f, b, atom):
        """the facts at the site entail the *negation* of the atom on a feasible path"""
        Z = self.G(f).closure(b, extra_terms=[atom[1], atom[2]])
        return not Z.contradiction and Z.le(atom[2], atom[1], -atom[3] - 1)

    def run(self):
        prog = self.prog
        # 1. local generation
        work = []
        for f in prog.fns.values():
            if not f.has_mir:
                continue
            ex = {}
            for atom, why, tag in self.declared.get(f.short, []):
                r = Req(atom, why, [(f.short, f.loc)], tag)
                ex[r.key()] = r
            for gen in self.generators:
                for (b, i, atom, why, tag) in gen(f):
                    self.sites += 1
                    atom = ("le", f.deep_simplify(atom[1]), f.deep_simplify(atom[2]), atom[3])
                    if self.entailed(f, b, atom):
                        self.discharged.append((f.short, "%s: %s" % (tag, why), "guard facts at bb%d entail %s" % (b, fmt_atom(atom, f))))
                        continue
                    if f.short in self.exempt and tag in self.exempt[f.short]:
                        self.discharged.append((f.short, "%s: %s" % (tag, why), "named exception: " + self.exempt[f.short][tag]))
                        continue
                    if self.refuted(f, b, atom):
                        self.failures.append((f.short, b, Req(atom, why, [(f.short, short_loc(f, b, i))], tag),
                                              "is contradicted by the guard facts at the site itself"))
                        continue
                    if mir.entry_terms_only(atom[1]) and mir.entry_terms_only(atom[2]):
                        r = Req(atom, why, [(f.short, short_loc(f, b, i))], tag)
                        ex.setdefault(r.key(), r)
                    else:
                        self.failures.append((f.short, b, Req(atom, why, [(f.short, short_loc(f, b, i))], tag),
                                              "not established locally and not expressible as a precondition"))
            self.exports[f.short] = ex
            if ex:
                work.append(f.short)
        # 2. propagation to callers
        seen_edges = set()
        while work:
            g = work.pop()
            gfn = prog.fns[g]
            for (caller, b, kind) in self.eff.callers(g):
                cf = prog.fns[caller]
                for key, r in list(self.exports[g].items()):
                    ek = (caller, b, g, key)
                    if ek in seen_edges:
                        continue
                    seen_edges.add(ek)
                    self.sites += 1
                    try:
                        atom = self._translate(gfn, r.atom, cf, b, kind)
                    except mir.Untranslatable:
                        self.failures.append((caller, b, Req(r.atom, r.why, r.chain + [(caller, short_loc(cf, b))], r.tag),
                                              "precondition of `%s` cannot be related to the caller's state" % g))
                        continue
                    if self.entailed(cf, b, atom):
                        self.discharged.append((caller, "%s: %s (for %s)" % (r.tag, fmt_atom(r.atom, gfn), g),
                                                "guard facts at bb%d entail %s" % (b, fmt_atom(atom, cf))))
                        continue
                    if caller in self.exempt and r.tag in self.exempt[caller]:
                        self.discharged.append((caller, "%s: %s (for %s)" % (r.tag, fmt_atom(r.atom, gfn), g),
                                                "named exception: " + self.exempt[caller][r.tag]))
                        continue
                    chain = r.chain + [(caller, short_loc(cf, b))]
                    if mir.entry_terms_only(atom[1]) and mir.entry_terms_only(atom[2]):
                        nr = Req(atom, r.why, chain, r.tag)
                        if nr.key() not in self.exports[caller]:
                            self.exports[caller][nr.key()] = nr
                            work.append(caller)
                    else:
                        self.failures.append((caller, b, Req(atom, r.why, chain, r.tag),
                                              "not established at the call and not expressible as a precondition of the caller"))
        # 3. public entries must have no exports
        for f in prog.fns.values():
            if f.is_public_entry():
                for key, r in self.exports.get(f.short, {}).items():
                    self.failures.append((f.short, None, r, "reaches a public entry point undischarged"))
        return self

    def _translate(self, g, atom, caller, b, kind):
        t = caller.term(b)
        if kind == "call" and t["k"] == "call":
            args = tuple(caller.call_args(b))
            fn = mir.callee_of(t)
            gargs = fn.get("rargs") or fn.get("args") or []
            tgt = fn.get("rshort") or fn["short"]
            if tgt != g.short:
                # reached through a peeled comparison or similar: only generic terms survive
                args = ()
            a = caller.deep_simplify(mir.translate(g, atom[1], caller, b, args, gargs))
            c = caller.deep_simplify(mir.translate(g, atom[2], caller, b, args, gargs))
            return ("le", a, c, atom[3])
        # drop glue / closure argument / argument drop: only const parameters carry over, by name
        for side in (atom[1], atom[2]):
            for s in mir.walk(side):
                if isinstance(s, tuple) and s and s[0] in ("param", "load"):
                    raise mir.Untranslatable()
        return atom
