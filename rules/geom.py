"""Geometry rules decided on linear forms modulo the capacity.

REMOVE2 — `remove(i)` closes the gap left at the removed slot by shifting the circular interval behind it down by one.
Whatever the case split (contents wrap or not), on every path through the function the sequence of bulk copies must be
a *chain*: with P = start + index (the slot read out) and E = start + size (one past the back), all modulo N,
    every copy has                 source - destination = 1
    the first copy's source is     P + 1
    every next copy's source is    previous source + previous count
    the last source + count is     E
A chain that starts later, ends earlier or skips a slot leaves a dead slot inside the header or a live element outside it
(destroyed twice / never); one that shifts by another distance misplaces every element behind the gap. Operands are read
from the MIR (`ptr.add(a).add(b)` = offset a + b; add_mod(a, b, N) = a + b and sub_mod(a, b, N) = a - b modulo N; N = 0
modulo N); counts are compared modulo N as well (they are < N, so this loses nothing the in-range rules do not decide).
"""
from . import mir
from .report import short_loc

REMOVE = "CircularBuffer::remove"
COPY = ("core::ptr::copy", "core::ptr::copy_nonoverlapping")


def mlin(f, e, sign=1, acc=None):
    """linear form modulo N of a usize expression"""
    if acc is None:
        acc = {}
    e = mir.strip_casts(f.deep_simplify(e))
    if isinstance(e, tuple) and e:
        if e[0] == "int":
            acc[1] = acc.get(1, 0) + sign * e[1]
            return acc
        if e == ("cparam", "N"):
            return acc
        cs_ = mir.checked_sub_payload(e)
        if cs_ is not None:
            mlin(f, cs_[0], sign, acc)
            mlin(f, cs_[1], -sign, acc)
            return acc
        if e[0] == "binop" and e[1] in ("Add", "Sub", "AddUnchecked", "SubUnchecked"):
            mlin(f, e[2], sign, acc)
            mlin(f, e[3], sign if e[1].startswith("Add") else -sign, acc)
            return acc
        if e[0] in ("call", "pcall") and e[1] in ("add_mod", "sub_mod") and len(e[2]) == 3 and mir.strip_casts(e[2][2]) == ("cparam", "N"):
            mlin(f, e[2][0], sign, acc)
            mlin(f, e[2][1], sign if e[1] == "add_mod" else -sign, acc)
            return acc
        if e[0] == "load" and e[3][0] == "entry" and tuple(e[2]) in (("start",), ("size",)):
            k = e[2][0]
            acc[k] = acc.get(k, 0) + sign
            return acc
        if e[0] == "param":
            k = "arg%d" % e[1]
            acc[k] = acc.get(k, 0) + sign
            return acc
    acc[repr(e)] = acc.get(repr(e), 0) + sign
    return acc


def key(a):
    return tuple(sorted((str(k), v) for k, v in a.items() if v != 0))


def add(a, b, sb=1):
    r = dict(a)
    for k, v in b.items():
        r[k] = r.get(k, 0) + sb * v
    return r


def show(a):
    out = []
    for k, v in sorted(a.items(), key=lambda kv: str(kv[0])):
        if v:
            t = "" if k == 1 else str(k)
            if len(t) > 30:
                t = "<opaque>"
            out.append(("+" if v > 0 else "-") + (str(abs(v)) if (abs(v) != 1 or k == 1) else "") + t)
    return " ".join(out) or "0"


def ptr_offset(f, e):
    """linear offset (mod N) of a raw pointer into `items`, or None if it is not rooted there"""
    acc = {}
    e = mir.strip_casts(f.deep_simplify(e))
    while isinstance(e, tuple) and e and e[0] in ("call", "pcall") and str(e[1]).startswith("<*") and str(e[1]).split("::")[-1] in ("add", "sub") and len(e[2]) == 2:
        mlin(f, e[2][1], 1 if e[1].endswith("add") else -1, acc)
        e = mir.strip_casts(f.deep_simplify(e[2][0]))
    rooted = any(isinstance(s, tuple) and len(s) == 3 and s[0] == "place" and tuple(s[2])[:1] == ("items",) for s in mir.walk(e))
    return acc if rooted else None


def _paths(f, limit=512):
    """block sequences of the acyclic normal paths entry -> return"""
    rets = set(f.return_blocks())
    out = []
    st = [(0, (0,))]
    while st and len(out) < limit:
        b, path = st.pop()
        if b in rets:
            out.append(path)
            continue
        for s in f.succs(b, False):
            if s not in path:
                st.append((s, path + (s,)))
    return out


def on_path(f, e, path, depth=0):
    """the value of `e` on one acyclic path: a value joined at a block of the path is the one its predecessor on the path
    contributes"""
    if not isinstance(e, tuple) or depth > 6:
        return e
    if len(e) == 3 and e[0] == "phi" and isinstance(e[1], int) and e[1] in path and path.index(e[1]) > 0:
        p = path[path.index(e[1]) - 1]
        v = f.version_expr(f.version_at(p, len(f.blocks[p]["stmts"]) + 1, e[2]))
        return on_path(f, f.deep_simplify(v), path, depth + 1)
    return tuple(on_path(f, x, path, depth) if isinstance(x, tuple) else x for x in e)


def remove2(ctx, prog, cfg, rule="REMOVE2"):
    f = ctx.need_fn(prog, REMOVE, rule)
    if f is None:
        return
    if f.has_loop():
        ctx.ok(rule, REMOVE, "gap-closing chain", "remove contains a loop: the chain form does not apply (undecided)", cfg, nontrivial=False)
        return
    # the slot read out
    reads = []
    for b, t in f.calls(False):
        p = mir.callee_path(t) or ""
        if p.endswith("assume_init_read") or p in ("core::ptr::read", "<*const T>::read", "<*mut T>::read"):
            a = mir.strip_casts(f.deep_simplify(f.call_args(b)[0]))
            idx = None
            for s in mir.walk(a):
                if isinstance(s, tuple) and len(s) == 3 and s[0] == "place":
                    for pr in s[2]:
                        if isinstance(pr, tuple) and pr and pr[0] == "idx":
                            idx = pr[1]
            if idx is None:
                off = ptr_offset(f, a)
                if off is not None:
                    reads.append((b, off))
            else:
                reads.append((b, mlin(f, idx)))
    if len(reads) != 1:
        ctx.violate(rule, REMOVE, "one move-out", f.loc, "remove reads %d slots out of the storage; the gap to close is not identified" % len(reads), cfg)
        return
    P = reads[0][1]
    want_P = {"start": 1, "arg2": 1}
    ctx.check(key(P) == key(want_P), rule, REMOVE, "the slot read out is start + index", short_loc(f, reads[0][0]),
              "remove moves out slot `%s` (mod N), not `start + index`" % show(P), "slot = add_mod(start, index, N)", cfg)
    E = {"start": 1, "size": 1}
    raw = {}
    for b, t in f.calls(False):
        if mir.callee_path(t) in COPY:
            raw[b] = [f.deep_simplify(a) for a in f.call_args(b)]
    seqs = {}
    from . import guards

    G = guards.Guards(f)
    for path in _paths(f):
        seq = tuple(b for b in path if b in raw)
        if reads[0][0] in path:
            # a path that takes both outcomes of one test (a flag tested twice) is not a path
            atoms = set()
            for x, y in zip(path, path[1:]):
                for (s_, kind, label) in f.succ_edges(x):
                    if s_ == y and kind == "normal":
                        atoms |= set(G.edge_atoms(x, label))
                        break
            if guards.Zone(f, atoms).contradiction:
                continue
            # operands as they are on this path (a count chosen by an earlier branch is that branch's value here)
            ops = tuple(tuple(on_path(f, a, path) for a in raw[b]) for b in seq)
            seqs.setdefault((seq, ops), path)
    n = 0
    for (seq, ops), path in sorted(seqs.items(), key=lambda kv: (kv[0][0], repr(kv[0][1]))):
        copies = {b: (ptr_offset(f, o[0]), ptr_offset(f, o[1]), mlin(f, o[2])) for b, o in zip(seq, ops)}
        n += 1
        site = "chain of %d copies" % len(seq)
        cur = add(P, {1: 1})
        ok, why = True, ""
        first = copies[seq[0]] if seq else None
        if first and first[0] is not None and first[1] is not None and key(add(first[1], first[0], -1)) == key({1: 1}):
            # the other way round: the block in front of the gap, [start, P), is shifted *up* by one (last piece first) and
            # `start` advances by one (whether that is within the documented bound is HEADMOVE1's question under C20)
            site = "head chain of %d copies" % len(seq)
            cur = dict(P)
            for b in seq:
                s_, d_, c_ = copies[b]
                if s_ is None or d_ is None or key(add(d_, s_, -1)) != key({1: 1}):
                    ok, why = False, "the copy at %s does not shift by one slot up like the first one" % short_loc(f, b)
                    break
                if key(add(s_, c_)) != key(cur):
                    ok, why = False, "the copy at %s ends at `%s` where the chain stands at `%s`" % (short_loc(f, b), show(add(s_, c_)), show(cur))
                    break
                cur = s_
            if ok and key(cur) != key({"start": 1}):
                ok, why = False, "the head chain ends at `%s`, not at `start`" % show(cur)
            if ok:
                from . import common

                vals = [mlin(f, v) for (sb, si, v) in common.field_stores(f, "start") if sb in path]
                if len(vals) != 1 or key(vals[0]) != key({"start": 1, 1: 1}):
                    ok, why = False, "the front block was moved up by one but `start` is not advanced by exactly one on this path"
            ctx.check(ok, rule, REMOVE, site, short_loc(f, seq[0]),
                      "on a path through remove the bulk copies do not shift exactly the slots in front of the removed one up by one: %s "
                      "(all modulo N)" % why, "copies %s form the chain start+index -> start (last piece first), start += 1" % [("bb%d" % b) for b in seq], cfg)
            continue
        for b in seq:
            s, d, c = copies[b]
            if s is None or d is None:
                ok, why = False, "a copy at %s is not between two slots of `items`" % short_loc(f, b)
                break
            if key(add(s, d, -1)) != key({1: 1}):
                ok, why = False, "the copy at %s shifts by `%s`, not by one slot down" % (short_loc(f, b), show(add(s, d, -1)))
                break
            if key(s) != key(cur):
                ok, why = False, "the copy at %s starts at `%s` where the chain stands at `%s`" % (short_loc(f, b), show(s), show(cur))
                break
            cur = add(s, c)
        if ok and key(cur) != key(E):
            ok, why = False, "the chain ends at `%s`, not at `start + size` (one past the back)" % show(cur)
        ctx.check(ok, rule, REMOVE, site, short_loc(f, seq[0]) if seq else f.loc,
                  "on a path through remove the bulk copies do not shift exactly the slots behind the removed one down by one: %s "
                  "(all modulo N)" % why, "copies %s form the chain start+index+1 -> start+size, each shifting by one" % [("bb%d" % b) for b in seq], cfg)
    ctx.floor(rule, "paths through remove that move an element out", n, 2, cfg)
