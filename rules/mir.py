"""E2 core: program model over the JSON fact base.

* `Program`  : one fact base (one feature configuration); functions by short name.
* `Fn`       : CFG utilities (constant-condition pruning, dominators, loops, reachability),
               SSA-style versioning of locals and of named memory fields, canonical value
               expressions (provenance), call-site accessors.

Nothing here interprets arithmetic: expressions are built to be compared for identity and
inspected for shape; ordering facts between them are handled by `logic.py`.
"""
import re
from collections import defaultdict

# ------------------------------------------------------------------------------------------------
# small helpers on the raw JSON
# ------------------------------------------------------------------------------------------------


def callee_of(term):
    """(fn-ref dict or None) of a call terminator."""
    f = term.get("func") or {}
    return f.get("fn")


def callee_short(term):
    fn = callee_of(term)
    if fn is None:
        return None
    return fn.get("rshort") or fn.get("short")


def callee_path(term):
    """Crate-qualified path of the (resolved) callee; used by classification tables."""
    fn = callee_of(term)
    if fn is None:
        return None
    return fn.get("rpath") or fn.get("path")


def callee_decl_path(term):
    fn = callee_of(term)
    return fn.get("path") if fn else None


def is_local_callee(term):
    fn = callee_of(term)
    if fn is None:
        return False
    if "rlocal" in fn:
        return fn["rlocal"]
    return fn.get("local", False)


def const_int(op):
    if op.get("k") == "const" and "int" in op and "param" not in op:
        return int(op["int"])
    return None


def place_fields(place):
    return [p["name"] for p in place["proj"] if p["k"] == "field"]


def place_has_deref(place):
    return any(p["k"] == "deref" for p in place["proj"])


def mem_var_of(place):
    """Name of the memory variable a place with a deref reads/writes: the last field after the
    last deref, else '*<type>'."""
    proj = place["proj"]
    last_deref = max(i for i, p in enumerate(proj) if p["k"] == "deref")
    name = None
    for p in proj[last_deref + 1:]:
        if p["k"] == "field":
            name = p["name"]
            break  # first field after the last deref identifies the memory cell's owner field
    if name is not None:
        return ("M", name)
    return ("M", "*")


BUF_RE = re.compile(r"circular_buffer::CircularBuffer<")


def ty_mentions_buffer(ty):
    return bool(BUF_RE.search(ty))


def ty_is_mut_ptr_like(ty):
    return ty.startswith("&mut ") or ty.startswith("*mut ") or "NonNull<" in ty


# ------------------------------------------------------------------------------------------------
# Program / Fn
# ------------------------------------------------------------------------------------------------


class Program:
    def __init__(self, facts):
        self.facts = facts
        self.config = facts.get("_config", "?")
        self.fns = {}
        for rec in facts["fns"]:
            f = Fn(rec, self)
            if f.short in self.fns:
                # two definitions with the same short name would make anchors ambiguous
                raise ValueError("duplicate short name " + f.short)
            self.fns[f.short] = f
        self.built = {b["short"]: b for b in facts.get("built", [])}
        self.adts = {a["short"]: a for a in facts["adts"]}
        self.impls = facts["impls"]

    def fn(self, short):
        return self.fns.get(short)

    def public_entries(self):
        return [f for f in self.fns.values() if f.is_public_entry()]

    def closures_of(self, short):
        return [f for f in self.fns.values() if f.rec.get("enclosing_fn") == short and f.short != short]


class Fn:
    def __init__(self, rec, prog):
        self.rec = rec
        self.prog = prog
        self.short = rec["short"]
        self.path = rec["path"]
        self.name = rec.get("name", "")
        self.kind = rec["kind"]
        self.loc = rec.get("loc", "?")
        mir = rec.get("mir")
        self.has_mir = mir is not None
        self.blocks = mir["blocks"] if mir else []
        self.locals = mir["locals"] if mir else []
        self.arg_count = mir["arg_count"] if mir else 0
        self._cache = {}

    # ---- identity ---------------------------------------------------------------------------

    def impl(self):
        return self.rec.get("impl")

    def is_closure(self):
        return self.kind in ("Closure", "SyntheticCoroutineBody")

    def is_public_entry(self):
        """pub fn of a public type, or a method of a trait impl on a public type."""
        if self.is_closure():
            return False
        imp = self.impl()
        if imp is None:
            return self.rec.get("vis") == "pub" and "::" not in self.short
        if imp.get("self_adt") is not None:
            if imp.get("self_adt_vis") != "pub":
                return False
        elif not ty_mentions_buffer(imp.get("self_ty", "")):
            return False
        if imp.get("of_trait"):
            return True
        return self.rec.get("vis") == "pub"

    def local_name(self, n):
        if 0 <= n < len(self.locals):
            return self.locals[n].get("name") or "_%d" % n
        return "_%d" % n

    def local_ty(self, n):
        return self.locals[n]["ty"]

    # ---- CFG --------------------------------------------------------------------------------

    def term(self, b):
        return self.blocks[b]["term"]

    def _switch_const(self, t, b=None):
        """constant value of a switch discriminant: a literal, or a local that is assigned a
        literal earlier in the same block (`_3 = const false; switchInt(move _3)` is what
        `cfg!(debug_assertions)` lowers to at mir-opt-level 0)"""
        d = t["discr"]
        if d.get("k") == "const" and "int" in d and "param" not in d:
            return int(d["int"])
        if b is not None and d.get("k") in ("copy", "move") and not d["place"]["proj"]:
            n = d["place"]["local"]
            stmts = self.blocks[b]["stmts"]
            upto = len(stmts)
            for _ in range(4):  # follow plain copies of a literal within the block
                found = None
                for k in range(upto - 1, -1, -1):
                    st = stmts[k]
                    if st["k"] == "assign" and st["place"]["local"] == n:
                        found = (k, st)
                        break
                if found is None:
                    return None
                k, st = found
                if st["place"]["proj"]:
                    return None
                rv = st["rv"]
                if rv["k"] == "use" and rv["op"].get("k") == "const" and "int" in rv["op"] and "param" not in rv["op"]:
                    return int(rv["op"]["int"])
                if rv["k"] == "use" and rv["op"].get("k") in ("copy", "move") and not rv["op"]["place"]["proj"]:
                    n, upto = rv["op"]["place"]["local"], k
                    continue
                return None
        return None

    def succ_edges(self, b):
        """[(target, kind, label)] with kind in normal|unwind; constant switches pruned."""
        t = self.term(b)
        k = t["k"]
        out = []
        if k == "goto":
            out.append((t["target"], "normal", None))
        elif k == "switch":
            c = self._switch_const(t, b)
            if c is not None:
                tgt = t["otherwise"]
                for v, bb in t["targets"]:
                    if int(v) == c:
                        tgt = bb
                out.append((tgt, "normal", ("const", c)))
            else:
                for v, bb in t["targets"]:
                    out.append((bb, "normal", ("val", int(v))))
                out.append((t["otherwise"], "normal", ("otherwise", [int(v) for v, _ in t["targets"]])))
        elif k in ("call", "drop", "assert", "yield"):
            if t.get("target") is not None:
                out.append((t["target"], "normal", None))
            u = t.get("unwind")
            if isinstance(u, int):
                out.append((u, "unwind", None))
            if k == "yield" and t.get("drop") is not None:
                out.append((t["drop"], "unwind", None))
        return out

    def succs(self, b, unwind=True):
        return [x for x, kind, _ in self.succ_edges(b) if unwind or kind == "normal"]

    def reachable(self, unwind=True, start=0):
        key = ("reach", unwind, start)
        if key not in self._cache:
            seen = {start}
            st = [start]
            while st:
                b = st.pop()
                for s in self.succs(b, unwind):
                    if s not in seen:
                        seen.add(s)
                        st.append(s)
            self._cache[key] = seen
        return self._cache[key]

    def reachable_from(self, b, unwind=True, avoid=()):
        seen = set()
        st = [b]
        avoid = set(avoid)
        while st:
            x = st.pop()
            for s in self.succs(x, unwind):
                if s not in seen and s not in avoid:
                    seen.add(s)
                    st.append(s)
        return seen

    def preds(self, unwind=True):
        key = ("preds", unwind)
        if key not in self._cache:
            p = defaultdict(list)
            for b in self.reachable(unwind):
                for s in self.succs(b, unwind):
                    p[s].append(b)
            self._cache[key] = p
        return self._cache[key]

    def rpo(self, unwind=True):
        key = ("rpo", unwind)
        if key not in self._cache:
            seen = set()
            order = []

            def dfs(b):
                stack = [(b, iter(self.succs(b, unwind)))]
                seen.add(b)
                while stack:
                    node, it = stack[-1]
                    adv = False
                    for s in it:
                        if s not in seen:
                            seen.add(s)
                            stack.append((s, iter(self.succs(s, unwind))))
                            adv = True
                            break
                    if not adv:
                        order.append(node)
                        stack.pop()

            if self.blocks:
                dfs(0)
            order.reverse()
            self._cache[key] = order
        return self._cache[key]

    def dominators(self, unwind=True):
        """dom[b] = set of blocks dominating b (including b)."""
        key = ("dom", unwind)
        if key not in self._cache:
            order = self.rpo(unwind)
            preds = self.preds(unwind)
            allb = set(order)
            dom = {b: set(allb) for b in order}
            if order:
                dom[0] = {0}
            changed = True
            while changed:
                changed = False
                for b in order:
                    if b == 0:
                        continue
                    ps = [p for p in preds[b] if p in dom]
                    new = set(allb)
                    for p in ps:
                        new &= dom[p]
                    new.add(b)
                    if new != dom[b]:
                        dom[b] = new
                        changed = True
            self._cache[key] = dom
        return self._cache[key]

    def dominates(self, a, b, unwind=True):
        d = self.dominators(unwind)
        return b in d and a in d[b]

    def pos_dominates(self, pa, pb, unwind=True):
        """position (block, index) pa dominates pb"""
        if pa[0] == pb[0]:
            return pa[1] <= pb[1]
        return self.dominates(pa[0], pb[0], unwind)

    def back_edges(self, unwind=False):
        key = ("back", unwind)
        if key not in self._cache:
            dom = self.dominators(unwind)
            be = []
            for b in self.reachable(unwind):
                for s in self.succs(b, unwind):
                    if s in dom.get(b, ()):
                        be.append((b, s))
            self._cache[key] = be
        return self._cache[key]

    def has_loop(self):
        return len(self.back_edges(False)) > 0 or self._irreducible_cycle()

    def _irreducible_cycle(self):
        # cycle detection independent of dominators (covers irreducible flow)
        color = {}
        for start in [0] if self.blocks else []:
            stack = [(start, iter(self.succs(start, False)))]
            color[start] = 1
            while stack:
                node, it = stack[-1]
                adv = False
                for s in it:
                    if color.get(s) == 1:
                        return True
                    if s not in color:
                        color[s] = 1
                        stack.append((s, iter(self.succs(s, False))))
                        adv = True
                        break
                if not adv:
                    color[node] = 2
                    stack.pop()
        return False

    def return_blocks(self):
        return [b for b in self.reachable(False) if self.term(b)["k"] == "return"]

    def must_pass(self, src_pos_blocks, through, targets, unwind=False):
        """True iff every path (normal edges) from entry to any block in `targets` passes a
        block in `through`. Implemented as: targets unreachable from entry when `through` blocks
        are removed."""
        through = set(through)
        if 0 in through:
            return True
        seen = {0}
        st = [0]
        while st:
            b = st.pop()
            if b in targets:
                return False
            for s in self.succs(b, unwind):
                if s not in seen and s not in through:
                    seen.add(s)
                    st.append(s)
        return True

    # ---- iteration helpers ------------------------------------------------------------------

    def positions(self, unwind=True):
        """yield (b, i, item, is_term) over reachable blocks"""
        for b in sorted(self.reachable(unwind)):
            blk = self.blocks[b]
            for i, st in enumerate(blk["stmts"]):
                yield b, i, st, False
            yield b, len(blk["stmts"]), blk["term"], True

    def calls(self, unwind=True):
        """[(b, term)] of reachable call terminators"""
        return [(b, self.term(b)) for b in sorted(self.reachable(unwind)) if self.term(b)["k"] == "call"]

    def calls_to(self, short, unwind=True):
        return [(b, t) for b, t in self.calls(unwind) if callee_short(t) == short]

    def is_cleanup(self, b):
        return self.blocks[b]["cleanup"]

    # ---- SSA-style versions -----------------------------------------------------------------

    def _defs_of_stmt(self, b, i, st, is_term):
        """variables (re)defined at this position: list of vars"""
        prog = self.prog
        defs = []
        k = st["k"]
        if not is_term:
            if k == "assign" or k == "setdiscr":
                defs.append(self._var_of_place(st["place"]))
            elif k == "copy_nonoverlapping":
                defs.append(("M", "*"))
            return defs
        if k == "call":
            # memory effects first, destination last
            defs.extend(self._call_mem_defs(b, st))
            defs.append(self._var_of_place(st["dest"]))
        elif k == "drop":
            from . import effects

            for impl_short in st.get("drop_impls", []):
                for f in effects.writes_of(prog, impl_short):
                    defs.append(("M", f))
            # the dropped place itself is dead afterwards; no new version needed
        elif k == "yield":
            pass
        return defs

    def _var_of_place(self, place):
        if place_has_deref(place):
            return mem_var_of(place)
        return ("L", place["local"])

    def _call_mem_defs(self, b, t):
        from . import effects

        return effects.call_mem_defs(self, b, t)

    def _all_vars(self):
        key = "allvars"
        if key not in self._cache:
            vs = set()
            for n in range(len(self.locals)):
                vs.add(("L", n))
            for b, i, st, is_term in self.positions(True):
                for v in self._defs_of_stmt(b, i, st, is_term):
                    vs.add(v)
                # memory variables that are only read
                for pl in _places_read(st):
                    if place_has_deref(pl):
                        vs.add(mem_var_of(pl))
            self._cache[key] = vs
        return self._cache[key]

    def ssa(self):
        """in_versions[b] = {var: version}; version = ('entry', var) | ('def', b, i, var) |
        ('phi', b, var)"""
        key = "ssa"
        if key in self._cache:
            return self._cache[key]
        allvars = self._all_vars()
        order = self.rpo(True)
        preds = self.preds(True)
        inv = {}
        outv = {}
        blockdefs = {}
        memvars = [v for v in allvars if v[0] == "M" and v[1] != "*ALL"]

        def expand(i, v, ds):
            if v == ("M", "*ALL"):
                for mv in memvars:
                    ds.append((i, mv))
            else:
                ds.append((i, v))

        for b in order:
            ds = []
            blk = self.blocks[b]
            for i, st in enumerate(blk["stmts"]):
                for v in self._defs_of_stmt(b, i, st, False):
                    expand(i, v, ds)
            n = len(blk["stmts"])
            for v in self._defs_of_stmt(b, n, blk["term"], True):
                expand(n, v, ds)
            blockdefs[b] = ds
        if order:
            inv[0] = {v: ("entry", v) for v in allvars}
        changed = True
        rounds = 0
        while changed:
            changed = False
            rounds += 1
            for b in order:
                if b != 0:
                    ps = [p for p in preds[b] if p in outv]
                    if not ps:
                        continue
                    new = {}
                    old = inv.get(b)
                    for v in allvars:
                        if old is not None and old[v] == ("phi", b, v):
                            new[v] = old[v]
                            continue
                        vers = {self._edge_out(outv, p, b, v) for p in ps}
                        if len(vers) == 1:
                            new[v] = next(iter(vers))
                        else:
                            new[v] = ("phi", b, v)
                    if new != old:
                        inv[b] = new
                        changed = True
                cur = dict(inv[b])
                for i, v in blockdefs[b]:
                    cur[v] = ("def", b, i, v)
                if outv.get(b) != cur:
                    outv[b] = cur
                    changed = True
            if rounds > 50:
                raise RuntimeError("ssa did not converge for " + self.short)
        self._cache[key] = (inv, blockdefs)
        return self._cache[key]

    def _edge_out(self, outv, p, b, v):
        """Version of v flowing along edge p->b. The destination of a call is defined only on
        the normal edge; on the unwind edge the destination keeps its old version... but MIR
        never reads it there, so the distinction is not needed."""
        return outv[p][v]

    def version_at(self, b, i, var):
        """version of var just before position (b, i)"""
        inv, blockdefs = self.ssa()
        if b not in inv:
            return ("undef", var)
        ver = inv[b].get(var, ("entry", var))
        for j, v in blockdefs[b]:
            if j >= i:
                break
            if v == var:
                ver = ("def", b, j, v)
        return ver

    # ---- value expressions (provenance) -----------------------------------------------------

    def place_expr(self, place, b, i):
        """canonical expression of the value read from `place` just before (b, i)"""
        local = place["local"]
        base = self.version_expr(self.version_at(b, i, ("L", local)))
        return self._project(base, place["proj"], b, i, place)

    def _project(self, e, proj, b, i, place):
        for idx, p in enumerate(proj):
            k = p["k"]
            if k == "deref":
                # deref of a reference-to-place collapses
                if e[0] == "ref":
                    inner = e[1]
                    if isinstance(inner, tuple) and inner[0] == "local" and len(inner) > 2 and idx == len(proj) - 1:
                        # `*&local` read as a value: what the local held when the reference was taken
                        e = inner[2]
                        continue
                    if isinstance(inner, tuple) and inner[0] == "place" and isinstance(inner[1], tuple) and inner[1][:1] == ("ref",) \
                            and isinstance(inner[1][1], tuple) and inner[1][1][0] == "local" and len(inner[1][1]) == 2:
                        # `*&local.path`: the value the local holds now, projected
                        val = self.local_expr(inner[1][1][1], b, i)
                        for q in inner[2]:
                            if isinstance(q, tuple) and q[0] == "as":
                                val = ("as", val, q[1])
                            elif isinstance(q, str):
                                val = self._select(val, q, None)
                            else:
                                val = None
                                break
                        if val is not None:
                            e = val
                            continue
                    if isinstance(inner, tuple) and inner[0] == "place" and len(inner) == 3 and idx == len(proj) - 1 and inner[2] \
                            and all(isinstance(q, str) for q in inner[2]) and str(place.get("ty", "")) in ("usize", "isize", "bool", "u8", "u16", "u32", "u64") \
                            and not (isinstance(inner[1], tuple) and inner[1][:1] == ("ref",)):
                        # `*&(*p).field` read as a scalar value (a by-reference binding in a match guard): the field as it is now
                        e = ("load", inner[1], tuple(inner[2]), self.version_at(b, i, ("M", inner[2][0])))
                        continue
                    if isinstance(inner, tuple) and inner[0] == "place" and len(inner) == 3 and inner[2] and all(isinstance(q, str) for q in inner[2]) \
                            and not (isinstance(inner[1], tuple) and inner[1][:1] == ("ref",)) and idx + 1 < len(proj) and proj[idx + 1]["k"] == "field":
                        # `(*&(*p).a).b`: a field read through a reference to p's own memory (a getter returning `&self.a`): fall
                        # through to the memory load below, rebased onto p (handled there)
                        pass
                    else:
                        e = inner
                        continue
                # memory load: everything after this deref up to the next deref is a path
                rest = proj[idx + 1:]
                path = []
                consumed = 0
                for q in rest:
                    if q["k"] == "deref":
                        break
                    consumed += 1
                    if q["k"] == "field":
                        path.append(q["name"])
                    elif q["k"] == "index":
                        path.append(("idx", self.local_expr(q["local"], b, i)))
                    elif q["k"] == "downcast":
                        path.append(("as", p_variant(q)))
                    elif q["k"] == "constindex":
                        path.append(("cidx", q["offset"], q["from_end"]))
                    elif q["k"] == "subslice":
                        path.append(("sub", q["from"], q["to"], q["from_end"]))
                    else:
                        path.append(("?", q.get("dbg", "")))
                sub = {"local": place["local"], "proj": proj[: idx + 1 + consumed]}
                mv = mem_var_of(sub)
                ver = self.version_at(b, i, mv)
                if isinstance(e, tuple) and e[:1] == ("ref",) and isinstance(e[1], tuple) and e[1][:1] == ("place",) and len(e[1]) == 3 and e[1][2] \
                        and all(isinstance(q, str) for q in e[1][2]) and not (isinstance(e[1][1], tuple) and e[1][1][:1] == ("ref",)):
                    # a load through `&(*p).a.b` (what a getter returning `&self.field` hands back) is a load of p's own memory
                    e = ("load", e[1][1], tuple(e[1][2]) + tuple(path), self.version_at(b, i, ("M", e[1][2][0])))
                else:
                    e = ("load", e, tuple(path), ver)
                tail = proj[idx + 1 + consumed:]
                if tail:
                    return self._project(e, tail, b, i, {"local": place["local"], "proj": proj})
                return e
            elif k == "field":
                e = self._select(e, p["name"], p["i"])
            elif k == "index":
                e = ("index", e, self.local_expr(p["local"], b, i))
            elif k == "downcast":
                e = ("as", e, p_variant(p))
            elif k == "constindex":
                e = ("cindex", e, p["offset"], p["from_end"])
            elif k == "subslice":
                e = ("subslice", e, p["from"], p["to"], p["from_end"])
            else:
                e = ("proj?", e, p.get("dbg", ""))
        return e

    def _select(self, e, name, idx):
        if e[0] == "agg":
            for fname, fe in e[3]:
                if fname == name:
                    return fe
        if e[0] == "as" and e[1][0] == "agg":
            agg = e[1]
            if agg[2] == e[2]:
                for fname, fe in agg[3]:
                    if fname == name:
                        return fe
        return ("field", e, name)

    def local_expr(self, n, b, i):
        return self.version_expr(self.version_at(b, i, ("L", n)))

    def operand_expr(self, op, b, i):
        k = op["k"]
        if k in ("copy", "move"):
            return self.place_expr(op["place"], b, i)
        if k == "const":
            if "param" in op:
                return ("cparam", op["param"])
            if "fn" in op:
                return ("fn", op["fn"].get("rshort") or op["fn"]["short"])
            if "int" in op:
                return ("int", int(op["int"]))
            if op.get("promoted") and "promoted_index" in op and _scalarish_ref(op.get("ty", "")):
                v = self._promoted_value(op["promoted_index"])
                if v is not None:
                    return v
            return ("const", op.get("disp", "?"), op.get("ty", ""))
        return ("op?", op.get("dbg", ""))

    def _promoted_value(self, idx):
        """the value a `promoted[idx]` constant of this body stands for: what its (straight-line, parameter-free) promoted
        body returns — typically `&<aggregate or constant>`; None if the body is not available or not that simple"""
        key = ("promoted", idx)
        if key in self._cache:
            return self._cache[key]
        self._cache[key] = None
        for pb in self.rec.get("promoted_bodies", []) or []:
            if pb.get("index") != idx or not pb.get("mir"):
                continue
            try:
                g = Fn({"short": "%s::promoted[%d]" % (self.short, idx), "path": self.rec.get("path", ""), "kind": "Promoted", "mir": pb["mir"],
                        "loc": self.rec.get("loc", ""), "generics": self.rec.get("generics", [])}, self.prog)
                rets = g.return_blocks()
                if len(rets) == 1 and not g.has_loop() and not [1 for _b, _t in g.calls(True)]:
                    e = g.deep_simplify(g.return_expr(rets[0]))
                    if not any(isinstance(x, tuple) and x and x[0] in ("param", "phi", "memdef", "uninit", "undef", "mem0", "cyc") for x in walk(e)):
                        self._cache[key] = e
            except Exception:
                pass
        return self._cache[key]

    def version_expr(self, ver):
        memo = self._cache.setdefault("vexpr", {})
        if ver in memo:
            r = memo[ver]
            if r is None:  # cycle through a loop-carried definition
                return ("cyc", ver)
            return r
        memo[ver] = None
        r = self._version_expr(ver)
        memo[ver] = r
        return r

    def _version_expr(self, ver):
        kind = ver[0]
        if kind == "entry":
            var = ver[1]
            if var[0] == "L":
                n = var[1]
                if 1 <= n <= self.arg_count:
                    return ("param", n)
                return ("uninit", n)
            return ("mem0", var[1])
        if kind == "phi":
            return ("phi", ver[1], ver[2])
        if kind == "undef":
            return ("undef", ver[1])
        if kind == "def":
            _, b, i, var = ver
            blk = self.blocks[b]
            if i < len(blk["stmts"]):
                st = blk["stmts"][i]
                if st["k"] == "assign":
                    pl = st["place"]
                    if var[0] == "L" and not pl["proj"]:
                        return self.rvalue_expr(st["rv"], b, i)
                    if var[0] == "L":
                        # partial update of an aggregate local
                        old = self.version_expr(self.version_at(b, i, var))
                        return ("upd", old, tuple(place_fields(pl)), self.rvalue_expr(st["rv"], b, i), (b, i))
                    return ("memdef", b, i)
                return ("memdef", b, i)
            t = blk["term"]
            if t["k"] == "call":
                if var == self._var_of_place(t["dest"]) and var[0] == "L" and not t["dest"]["proj"]:
                    return self.call_expr(b)
                return ("memdef", b, i)
            return ("memdef", b, i)
        return ("?", ver)

    def rvalue_expr(self, rv, b, i):
        k = rv["k"]
        if k == "use":
            return self.operand_expr(rv["op"], b, i)
        if k == "ref":
            return self._addr_of(rv["place"], b, i, "ref")
        if k == "rawptr":
            return self._addr_of(rv["place"], b, i, "ref")
        if k == "binop":
            return ("binop", rv["op"], self.operand_expr(rv["a"], b, i), self.operand_expr(rv["b"], b, i))
        if k == "unop":
            if rv["op"] == "PtrMetadata" and "[" in str((rv["a"].get("place") or {}).get("ty", "")):
                # the metadata of a slice pointer is its length (what slice patterns and `len()` both read)
                return ("pcall", "<[T]>::len", (self.operand_expr(rv["a"], b, i),))
            return ("unop", rv["op"], self.operand_expr(rv["a"], b, i))
        if k == "cast":
            inner = self.operand_expr(rv["op"], b, i)
            kind = rv["kind"]
            if "Unsize" in kind:
                src = rv["op"].get("place", {}).get("ty") or rv["op"].get("ty", "")
                m = re.match(r"^(?:&mut |&|\*mut |\*const )\[.*; ([A-Za-z_0-9]+)\]$", src)
                if m:
                    return ("unsize", inner, m.group(1))
            # pointer-to-pointer casts, unsizing and transmutes between pointer types keep the
            # address: transparent for provenance, but remembered
            return ("cast", kind.split("(")[0], inner, rv["ty"])
        if k == "discriminant":
            return ("discr", self.place_expr(rv["place"], b, i))
        if k == "aggregate":
            fields = tuple((f["name"], self.operand_expr(f["op"], b, i)) for f in rv["fields"])
            if rv["agg"] == "adt":
                return ("agg", rv["adt"], rv["variant"], fields)
            if rv["agg"] == "closure" or rv["agg"] == "coroutine":
                return ("agg", "closure:" + rv["closure"], "", fields)
            return ("agg", rv["agg"], "", fields)
        if k == "repeat":
            return ("repeat", self.operand_expr(rv["op"], b, i), rv["count"])
        return ("rv?", rv.get("dbg", k))

    def _addr_of(self, place, b, i, tag):
        """&place: keeps the place symbolic; `&*p` collapses to p."""
        proj = place["proj"]
        if proj and proj[-1]["k"] == "deref":
            inner = {"local": place["local"], "proj": proj[:-1]}
            return self.place_expr(inner, b, i)
        # symbolic place: base expr + path (no load!)
        base_local = place["local"]
        if not proj:
            # address of a local: keep the local's identity and the value it holds right now
            return ("ref", ("local", base_local, self.local_expr(base_local, b, i)))
        # find last deref: address = pointer value + path
        last_deref = -1
        for idx, p in enumerate(proj):
            if p["k"] == "deref":
                last_deref = idx
        if last_deref >= 0:
            ptr = self.place_expr({"local": base_local, "proj": proj[:last_deref]}, b, i)
            rest = proj[last_deref + 1:]
        else:
            ptr = ("ref", ("local", base_local))
            rest = proj
        path = []
        for q in rest:
            if q["k"] == "field":
                path.append(q["name"])
            elif q["k"] == "index":
                path.append(("idx", self.local_expr(q["local"], b, i)))
            elif q["k"] == "downcast":
                path.append(("as", p_variant(q)))
            elif q["k"] == "constindex":
                path.append(("cidx", q["offset"], q["from_end"]))
            elif q["k"] == "subslice":
                path.append(("sub", q["from"], q["to"], q["from_end"]))
        return ("ref", ("place", ptr, tuple(path)))

    def call_expr(self, b):
        t = self.term(b)
        n = len(self.blocks[b]["stmts"])
        args = tuple(self.operand_expr(a, b, n) for a in t["args"])
        cs = callee_short(t)
        if cs is None:
            return ("call", ("indirect", self.operand_expr(t["func"], b, n)), args, b)
        # symbolic inlining of pure single-path getters
        from . import effects

        inl = effects.inline_pure(self, b, t, args)
        if inl is not None:
            return inl
        return ("call", cs, args, b)

    def call_args(self, b):
        t = self.term(b)
        n = len(self.blocks[b]["stmts"])
        return [self.operand_expr(a, b, n) for a in t["args"]]

    def return_expr(self, b):
        """expression of _0 at a return block"""
        n = len(self.blocks[b]["stmts"])
        return self.local_expr(0, b, n)

    def phi_inputs(self, b, var):
        """expressions flowing into ('phi', b, var) from each predecessor"""
        out = []
        for p in self.preds(True).get(b, []):
            n = len(self.blocks[p]["stmts"]) + 1
            out.append(self.version_expr(self.version_at(p, n, var)))
        return out

    def deep_simplify(self, e, depth=0, stack=()):
        """simplify + resolve `field of call result` through the callee's return expression and
        `field of phi` when all incoming values agree (loop-invariant fields)"""
        e = simplify(e)
        if depth > 10 or not isinstance(e, tuple) or not e:
            return e
        e = tuple(self.deep_simplify(x, depth + 1, stack) if isinstance(x, tuple) else x for x in e)
        e = simplify(e)
        if e[0] != "field" or not isinstance(e[1], tuple):
            return e
        base, name = e[1], e[2]
        if base[0] == "call" and isinstance(base[1], str):
            g = self.prog.fns.get(base[1])
            if g is not None and g.has_mir and g is not self:
                rb = g.return_blocks()
                if len(rb) == 1:
                    r = g.deep_simplify(("field", g.return_expr(rb[0]), name), depth + 1)
                    if entry_terms_only(r):
                        cal = callee_of(self.term(base[3])) or {}
                        try:
                            tr = translate(g, r, self, base[3], base[2], cal.get("rargs") or cal.get("args") or [])
                            return self.deep_simplify(tr, depth + 1, stack)
                        except Untranslatable:
                            return e
        if base[0] == "phi":
            if base in stack:
                return e
            results = set()
            for x in self.phi_inputs(base[1], base[2]):
                r = self.deep_simplify(("field", x, name), depth + 1, stack + (base,))
                if r == e:
                    continue
                results.add(r)
            if len(results) == 1:
                return results.pop()
        return e

    def cur_mem_version(self, b, i, field):
        return self.version_at(b, i, ("M", field))


def simplify(e):
    """local rewriting: len(unsize(array ref, C)) -> C ; field of aggregate -> component"""
    if not isinstance(e, tuple) or not e:
        return e
    e = tuple(simplify(x) if isinstance(x, tuple) else x for x in e)
    if e[0] == "pcall" and e[1] == "<[T]>::len" and len(e[2]) == 1:
        a = strip_casts(e[2][0])
        if isinstance(a, tuple) and a[0] == "unsize":
            c = a[2]
            return ("int", int(c)) if c.isdigit() else ("cparam", c)
    if e[0] == "load" and len(e) == 4 and isinstance(e[1], tuple) and e[1][:1] == ("ref",) and isinstance(e[1][1], tuple) and e[1][1][:1] == ("local",) \
            and len(e[1][1]) == 3 and e[3][0] == "entry" and all(isinstance(p_, str) for p_ in e[2]):
        # memory "at entry" of a callee behind `&local`: the local's value at the call
        v = e[1][1][2]
        for p_ in e[2]:
            v = simplify(("field", v, p_))
        return v
    if e[0] == "call" and len(e) == 4 and e[1] == "<Range<Idx> as Clone>::clone" and len(e[2]) == 1 and isinstance(e[2][0], tuple) and e[2][0][:1] == ("ref",) \
            and isinstance(e[2][0][1], tuple) and e[2][0][1][:1] == ("local",) and len(e[2][0][1]) == 3:
        # the clone of a Range held in a local is that Range (a pair of integers)
        return e[2][0][1][2]
    if e[0] == "field" and isinstance(e[1], tuple) and e[1][:1] == ("local",) and len(e[1]) == 3 and isinstance(e[1][2], tuple) and e[1][2][:1] == ("agg",):
        # a field of a local whose whole value is known
        return simplify(("field", e[1][2], e[2]))
    if e[0] == "field" and isinstance(e[1], tuple) and e[1][0] == "agg":
        for fname, fe in e[1][3]:
            if fname == e[2]:
                return fe
    if e[0] == "field" and isinstance(e[1], tuple) and e[1][0] == "upd":
        # field of a partially updated aggregate
        upd = e[1]
        if upd[2] == (e[2],):
            return upd[3]
        return simplify(("field", upd[1], e[2]))
    return e


class Untranslatable(Exception):
    pass


def translate(callee, e, caller, b, args, generic_args):
    """Rewrite expression `e`, stated in the entry terms of `callee` (parameters, const
    parameters, memory at entry), into the terms of `caller` just before the call at block b."""
    n = len(caller.blocks[b]["stmts"])
    gens = [x.split(":")[0] for x in callee.rec.get("generics", [])]
    gmap = dict(zip(gens, generic_args)) if len(gens) == len(generic_args) else {}

    def sub(x):
        if not isinstance(x, tuple):
            return x
        k = x[0]
        if k == "param":
            if x[1] - 1 < len(args):
                return args[x[1] - 1]
            raise Untranslatable()
        if k == "cparam":
            v = gmap.get(x[1], x[1])
            if v.isdigit():
                return ("int", int(v))
            return ("cparam", v)
        if k == "load":
            ver = x[3]
            if ver[0] == "entry" and ver[1][0] == "M":
                return ("load", sub(x[1]), tuple(sub(p) if isinstance(p, tuple) else p for p in x[2]), caller.version_at(b, n, ver[1]))
            raise Untranslatable()
        if k == "call" and x[1] in PURE_HELPERS and len(x) == 4:
            return ("call", x[1], tuple(sub(a) for a in x[2]), ("via", callee.short, x[3]))
        if k in ("phi", "memdef", "uninit", "undef", "mem0", "cyc", "call", "upd", "local"):
            raise Untranslatable()
        return tuple(sub(y) if isinstance(y, tuple) else y for y in x)

    return simplify(sub(e))


def entry_terms_only(e):
    """True if e mentions only parameters, const parameters, literals and memory at entry"""
    for s in walk(e):
        if not isinstance(s, tuple) or not s:
            continue
        if s[0] == "call" and s[1] in PURE_HELPERS and len(s) == 4:
            continue  # a pure function of its arguments (which are walked too)
        if s[0] in ("phi", "memdef", "uninit", "undef", "cyc", "call", "upd", "local"):
            return False
        if s[0] == "load":
            ver = s[3]
            if not (ver[0] == "entry"):
                return False
    return True


# crate helpers that are pure functions of their (usize) arguments: a call of one is a value like any other expression
PURE_HELPERS = ("add_mod", "sub_mod")


def p_variant(p):
    return p.get("variant") or str(p.get("i"))


def _places_read(st):
    out = []

    def op(o):
        if o and o.get("k") in ("copy", "move"):
            out.append(o["place"])

    k = st["k"]
    if k == "assign":
        rv = st["rv"]
        rk = rv["k"]
        if rk in ("use", "cast", "repeat"):
            op(rv["op"])
        elif rk in ("ref", "rawptr", "discriminant"):
            out.append(rv["place"])
        elif rk == "binop":
            op(rv["a"])
            op(rv["b"])
        elif rk == "unop":
            op(rv["a"])
        elif rk == "aggregate":
            for f in rv["fields"]:
                op(f["op"])
    elif k == "call":
        op(st["func"])
        for a in st["args"]:
            op(a)
    elif k == "switch":
        op(st["discr"])
    elif k == "assert":
        op(st["cond"])
    elif k == "drop":
        out.append(st["place"])
    elif k == "copy_nonoverlapping":
        op(st["src"])
        op(st["dst"])
        op(st["count"])
    return out


# ------------------------------------------------------------------------------------------------
# expression utilities
# ------------------------------------------------------------------------------------------------


def strip_casts(e):
    while isinstance(e, tuple) and e and e[0] == "cast":
        e = e[2]
    return e


def walk(e):
    """all sub-expressions (pre-order)"""
    yield e
    if isinstance(e, tuple):
        for x in e:
            if isinstance(x, tuple):
                yield from walk(x)


def is_load_of(e, field):
    """('load', base, (field,), ver) -> base else None"""
    e = strip_casts(e)
    if isinstance(e, tuple) and e[0] == "load" and e[2] == (field,):
        return e[1]
    return None


def fmt(e, fn=None, depth=0):
    """human-readable rendering of an expression"""
    if not isinstance(e, tuple):
        return str(e)
    if depth > 6:
        return "…"
    k = e[0]
    f = lambda x: fmt(x, fn, depth + 1)
    if k == "param":
        return fn.local_name(e[1]) if fn else "arg%d" % e[1]
    if k == "int":
        return str(e[1])
    if k == "cparam":
        return e[1]
    if k == "load":
        path = ".".join(p if isinstance(p, str) else "[%s]" % (f(p[1]) if p[0] == "idx" else p[0]) for p in e[2])
        return "(*%s)%s%s" % (f(e[1]), "." if path else "", path)
    if k == "binop":
        return "%s(%s, %s)" % (e[1], f(e[2]), f(e[3]))
    if k == "unop":
        return "%s(%s)" % (e[1], f(e[2]))
    if k == "call":
        name = e[1] if isinstance(e[1], str) else "indirect"
        return "%s(%s)@bb%s" % (name, ", ".join(f(a) for a in e[2]), e[3])
    if k == "cast":
        return f(e[2])
    if k == "field":
        return "%s.%s" % (f(e[1]), e[2])
    if k == "ref":
        return "&" + f(e[1])
    if k == "place":
        return "%s->%s" % (f(e[1]), ".".join(str(p) if isinstance(p, str) else str(p[0]) for p in e[2]))
    if k == "local":
        return fn.local_name(e[1]) if fn else "_%d" % e[1]
    if k == "agg":
        return "%s::%s{%s}" % (e[1].split("::")[-1], e[2], ", ".join("%s: %s" % (n, f(x)) for n, x in e[3]))
    if k == "phi":
        return "phi(bb%s,%s)" % (e[1], e[2])
    if k == "discr":
        return "discr(%s)" % f(e[1])
    if k == "as":
        return "%s as %s" % (f(e[1]), e[2])
    return "%s(…)" % k


def _scalarish_ref(ty):
    """promoted constants worth resolving: references to integers and to std range types (`&N`, `&(0..N)`, `&(0..=N)`);
    promoted arrays (`&[]`) stay opaque constants, which is how the slice rules know an empty slice"""
    t = ty.replace(" ", "")
    if not t.startswith("&"):
        return False
    t = t.lstrip("&")
    return t in ("usize", "u8", "u16", "u32", "u64", "isize", "bool") or t.startswith("core::ops::range::Range") or t.startswith("core::ops::Range")


def checked_sub_payload(e):
    """(a, b) if e is the `Some` payload of `a.checked_sub(b)` (= a - b exactly, since it exists)"""
    e = strip_casts(e)
    if isinstance(e, tuple) and len(e) == 3 and e[0] == "field" and e[2] in (0, "0") and isinstance(e[1], tuple) and len(e[1]) == 3 and e[1][0] == "as" and e[1][2] == "Some":
        x = strip_casts(e[1][1])
        if isinstance(x, tuple) and len(x) >= 3 and x[0] in ("call", "pcall") and str(x[1]).endswith("<usize>::checked_sub") and len(x[2]) == 2:
            return x[2][0], x[2][1]
    return None
