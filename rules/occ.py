"""OCC — occupancy typestate (DESIGN.md §4).

Tracks, per function, the relation between a storage of `MaybeUninit<T>` slots and the counter
that says how many of them are live, for the two (storage, counter) pairs of the crate:
(`CircularBuffer.items`, `.size`) and (`Guard.dst`, `.initialized`).

events   A   a slot is initialised            (MaybeUninit::write, an INITS callee)
         M   a slot is moved out               (assume_init_read, ptr::read of storage)
         B+  the counter is increased          (store of Add(counter, _))
         B-  the counter is decreased          (Sub(counter,_), const 0, a value entailed <= counter)
         B=  the counter is assigned otherwise (a commit)
states   balanced | init-ahead | size-ahead | dead-ahead
"""
from . import effects, guards, mir
from .report import short_loc

BAL, INIT, SIZE, DEAD = "balanced", "init-ahead", "size-ahead", "dead-ahead"

MU_WRITE = "core::mem::maybe_uninit::MaybeUninit::write"
MOVE_OUT = {
    "core::mem::maybe_uninit::MaybeUninit::assume_init_read",
    "core::mem::maybe_uninit::MaybeUninit::assume_init",
    "core::ptr::read",
    "<*const T>::read",
    "<*mut T>::read",
}
# external callees that initialise a `[MaybeUninit<T>]` destination by cloning (user code, then A)
EXTERNAL_INITS = {
    "<[core::mem::maybe_uninit::MaybeUninit<T>]>::write_clone_of_slice",
    "<[core::mem::maybe_uninit::MaybeUninit<T>]>::write_copy_of_slice",
    "<[core::mem::maybe_uninit::MaybeUninit<T>]>::write_iter",
    "<[core::mem::maybe_uninit::MaybeUninit<T>]>::write_filled",
}

# external callees that never unwind (reviewed: pointer arithmetic, raw copies, accessors)
NOUNWIND = {
    "<*mut T>::add", "<*const T>::add", "<*mut T>::write", "core::ptr::copy", "core::ptr::copy_nonoverlapping",
    "core::ptr::swap_nonoverlapping", "core::ptr::read", "core::ptr::write", "<[T]>::as_mut_ptr", "<[T]>::as_ptr",
    "<[T]>::len", "<[T]>::is_empty", "core::mem::replace", "core::mem::forget", "core::mem::take",
    "core::mem::maybe_uninit::MaybeUninit::write", "core::mem::maybe_uninit::MaybeUninit::assume_init_read",
    "core::mem::maybe_uninit::MaybeUninit::assume_init_ref", "core::mem::maybe_uninit::MaybeUninit::assume_init_mut",
    "core::mem::maybe_uninit::MaybeUninit::as_mut_ptr", "core::mem::maybe_uninit::MaybeUninit::uninit",
    "core::mem::maybe_uninit::MaybeUninit::assume_init", "core::ptr::non_null::NonNull::as_mut",
    "core::ptr::non_null::NonNull::as_ref", "core::cmp::min", "core::cmp::max", "core::cmp::Ord::min",
    "<usize>::checked_sub", "<usize>::checked_add", "<usize>::overflowing_add",
    "core::mem::manually_drop::ManuallyDrop::new", "core::ops::range::Range::is_empty",
    "<core::mem::manually_drop::ManuallyDrop<T> as core::ops::deref::Deref>::deref",
    "<core::mem::manually_drop::ManuallyDrop<T> as core::ops::deref::DerefMut>::deref_mut",
}


def step(state, ev):
    if ev == "A":
        return BAL if state == SIZE else INIT
    if ev in ("B+", "B="):
        return BAL if state == INIT else SIZE
    if ev == "M":
        return DEAD
    if ev == "B-":
        return BAL if state == DEAD else state
    return state


def may_unwind(prog, short, _stack=()):
    """can a call of local function `short` unwind? (any reachable assert, user code, or call of
    a callee that may unwind)"""
    f = prog.fns.get(short)
    if f is None:
        return True
    key = "may_unwind"
    if key in f._cache:
        return f._cache[key]
    if short in _stack:
        return False
    res = False
    for b in f.reachable(False):
        t = f.term(b)
        if t["k"] == "assert":
            # implicit checks (array bounds, zero divisor) are infeasible under INV + MOD1
            # (C11 clause 5 / MOD1); an unwind edge whose only source is one of them is not a
            # crash point the typestate has to survive
            pass
        elif t["k"] == "drop" and t.get("needs_drop", True) and (t.get("user_drop") or t.get("drop_impls")):
            res = True
        elif t["k"] == "call":
            p = mir.callee_path(t)
            if mir.is_local_callee(t) and mir.callee_short(t) in prog.fns:
                if may_unwind(prog, mir.callee_short(t), _stack + (short,)):
                    res = True
            elif p not in NOUNWIND:
                res = True
        if res:
            break
    f._cache[key] = res
    return res


def unwind_feasible(f, b):
    t = f.term(b)
    if t["k"] == "call":
        p = mir.callee_path(t)
        if mir.is_local_callee(t) and mir.callee_short(t) in f.prog.fns:
            return may_unwind(f.prog, mir.callee_short(t))
        return p not in NOUNWIND
    return True


def is_guard_fn(f):
    """function that owns a (dst, initialized) guard pair"""
    key = "is_guard_fn"
    if key not in f._cache:
        r = False
        for b, i, st, is_term in f.positions(False):
            if not is_term and st["k"] == "assign" and st["rv"]["k"] == "aggregate" and st["rv"].get("agg") == "adt":
                names = [x["name"] for x in st["rv"]["fields"]]
                if "initialized" in names and "dst" in names:
                    r = True
        f._cache[key] = r
    return f._cache[key]


def inits_param(f):
    """does f initialise slots through a pointer parameter (INITS)?"""
    key = "inits_param"
    if key not in f._cache:
        r = False
        for n in range(1, f.arg_count + 1):
            ty = f.local_ty(n)
            if ty.startswith("&mut [core::mem::maybe_uninit::MaybeUninit<") or ty.startswith("&mut core::mem::maybe_uninit::MaybeUninit<"):
                for b, t in f.calls(False):
                    if mir.callee_path(t) == MU_WRITE:
                        r = True
        f._cache[key] = r
    return f._cache[key]


class Occ:
    def __init__(self, prog):
        self.prog = prog
        self.memo = {}
        self.evaluated = []  # (fn, site, state(s), verdict)
        self.slot_events = set()  # (fn, block, 'A'|'M', pre-state, callee)
        self.capture_counters = {}  # closure short -> {capture index: field name} for captured `&mut <buffer>.size` / `&mut guard.initialized`

    # ---- event extraction -----------------------------------------------------------------------
    def counter_field(self, f):
        return "initialized" if is_guard_fn(f) else "size"

    def stmt_event(self, f, b, i, st, G):
        if st["k"] != "assign":
            return None
        cf = self.counter_field(f)
        pl = st["place"]
        fields = mir.place_fields(pl)
        if not fields and mir.place_has_deref(pl) and len(pl["proj"]) == 1:
            # a store through a reference that was taken to the counter field itself (a closure capturing `&mut guard.initialized`)
            r = mir.strip_casts(f.deep_simplify(f.local_expr(pl["local"], b, i)))
            # ... or through a `&mut usize` captured by a closure that is run by foreign code: which capture refers to the
            # counter field is read off the closure aggregate in the enclosing function (capture_counters)
            if (isinstance(r, tuple) and len(r) >= 3 and r[0] == "load" and r[1] == ("param", 1) and len(r[2]) == 1
                    and r[2][0] in self.capture_counters.get(f.short, {})):
                fields = [self.capture_counters[f.short][r[2][0]]]
            for _ in range(3):
                if fields:
                    break
                if isinstance(r, tuple) and r and r[0] == "ref" and isinstance(r[1], tuple) and r[1][0] == "place" and len(r[1]) == 3 and r[1][2]:
                    fields = [x for x in r[1][2] if isinstance(x, str)]
                    break
                if isinstance(r, tuple) and r and r[0] in ("field", "load") and isinstance(r[1], tuple):
                    r = mir.strip_casts(r[1]) if r[0] == "field" and r[1][:1] == ("agg",) else r
                break
        if not fields or fields[-1] != cf:
            return None
        if cf == "size" and not mir.place_has_deref(pl):
            return None
        rv = st["rv"]
        e = f.rvalue_expr(rv, b, i)
        cur = f.place_expr(pl, b, i)
        e = mir.strip_casts(e)
        if e == ("int", 0):
            return "B-"
        if isinstance(e, tuple) and e[0] == "binop" and e[1] in ("Add", "AddUnchecked") and (mir.strip_casts(e[2]) == cur or mir.strip_casts(e[3]) == cur):
            return "B+"
        if isinstance(e, tuple) and e[0] == "binop" and e[1] in ("Sub", "SubUnchecked") and mir.strip_casts(e[2]) == cur:
            return "B-"
        Z = G.closure(b, extra_terms=[e, cur])
        if Z.le(e, cur, 0):
            return "B-"
        return "B="

    def call_events(self, f, b, t):
        """list of events of a call terminator, in order; items: ('ev', X) | ('user', desc) |
        ('callee', short)"""
        p = mir.callee_path(t)
        out = []
        if p == MU_WRITE:
            return [("ev", "A")]
        if p in MOVE_OUT:
            fn = mir.callee_of(t)
            # only moves out of element storage: the generic argument is the element type
            a = (fn.get("args") or [""])[0]
            if "circular_buffer::CircularBuffer" in a or a.startswith("["):
                return []
            return [("ev", "M")]
        if p in EXTERNAL_INITS:
            return [("user", "%s clones elements" % p.split("::")[-1]), ("ev", "A")]
        if mir.is_local_callee(t) and mir.callee_short(t) in self.prog.fns:
            g = self.prog.fns[mir.callee_short(t)]
            touches = any(
                a.get("k") in ("copy", "move") and (mir.ty_mentions_buffer(a["place"]["ty"]) and a["place"]["ty"].startswith("&mut"))
                for a in t["args"]
            )
            if inits_param(g):
                out.append(("callee-user", g.short))
                out.append(("ev", "A"))
                return out
            if touches:
                return [("callee", g.short)]
            # a callee that does not receive the buffer cannot change its state, but may run
            # user code
            if effects.transitive(self.prog, g.short, lambda x: any(not x.is_cleanup(bb) for bb, _, _ in effects.user_sites(x))):
                return [("user", "call of %s (runs user code)" % g.short)]
            return []
        return out

    # ---- dataflow -------------------------------------------------------------------------------
    def transfer(self, short, in_state, stack=()):
        """(set of out states at normal returns, list of violations) for `short` entered in
        in_state"""
        key = (short, in_state)
        if key in self.memo:
            return self.memo[key]
        if short in stack:
            return ({in_state}, [])
        f = self.prog.fns[short]
        G = guards.Guards(f)
        order = f.rpo(True)
        inn = {b: set() for b in order}
        inn[0] = {in_state}
        viol = []
        outs = set()
        user_by_block = {}
        for (b, k, d) in effects.user_sites(f):
            user_by_block.setdefault(b, []).append((k, d))
        loop_heads = {h for (_, h) in f.back_edges(True)}
        changed = True
        rounds = 0
        seen_viol = set()

        def flag(b, desc, st, rule="i"):
            k = (b, desc, st, rule)
            if k not in seen_viol:
                seen_viol.add(k)
                viol.append({"fn": short, "b": b, "desc": desc, "state": st, "rule": rule, "loc": short_loc(f, b), "in_state": in_state})

        while changed and rounds < 60:
            changed = False
            rounds += 1
            for b in order:
                cur = set(inn[b])
                if not cur:
                    continue
                blk = f.blocks[b]
                for i, st in enumerate(blk["stmts"]):
                    ev = self.stmt_event(f, b, i, st, G)
                    if ev:
                        cur = {step(s, ev) for s in cur}
                t = blk["term"]
                n = len(blk["stmts"])
                pre = set(cur)
                post = set(cur)
                if t["k"] == "call":
                    evs = self.call_events(f, b, t)
                    direct_user = [d for k, d in user_by_block.get(b, [])]
                    for d in direct_user:
                        for s in pre:
                            if s != BAL:
                                flag(b, d, s)
                    for e in evs:
                        if e[0] == "user":
                            for s in post:
                                if s != BAL:
                                    flag(b, e[1], s)
                        elif e[0] == "callee-user":
                            for s in post:
                                if s != BAL:
                                    flag(b, "call of %s (clones elements: user code)" % e[1], s)
                        elif e[0] == "ev":
                            if e[1] in ("A", "M"):
                                for s in post:
                                    self.slot_events.add((short, b, e[1], s, mir.callee_short(t)))
                            post = {step(s, e[1]) for s in post}
                        elif e[0] == "callee":
                            npost = set()
                            for s in post:
                                o, v = self.transfer(e[1], s, stack + (short,))
                                npost |= o
                                for x in v:
                                    k = ("via", b, x["fn"], x["b"], x["desc"], x["state"])
                                    if k not in seen_viol:
                                        seen_viol.add(k)
                                        y = dict(x)
                                        y["via"] = [(short, short_loc(f, b))] + x.get("via", [])
                                        viol.append(y)
                            post = npost
                elif t["k"] == "drop":
                    for k, d in user_by_block.get(b, []):
                        for s in pre:
                            if s != BAL:
                                flag(b, d, s)
                    # drop glue of in-crate Drop impls that touch the buffer (e.g. Drain) is
                    # governed by DRN1
                elif t["k"] == "return":
                    outs |= cur
                for s_blk, kind, _ in f.succ_edges(b):
                    if kind == "unwind":
                        if not unwind_feasible(f, b):
                            continue
                        flow = pre
                    else:
                        flow = post
                    if not flow <= inn[s_blk]:
                        inn[s_blk] |= flow
                        changed = True
        for h in loop_heads:
            if len(inn.get(h, ())) > 1:
                flag(h, "loop head reached in states %s" % sorted(inn[h]), ",".join(sorted(inn[h])), "iii")
        self.memo[key] = (outs, viol)
        return self.memo[key]
