"""Helpers shared by the property modules."""
from . import effects, guards, mir
from .report import short_loc

MU_WRITE = "core::mem::maybe_uninit::MaybeUninit::write"
MEM_REPLACE = "core::mem::replace"
MEM_FORGET = "core::mem::forget"
DROP_IN_PLACE = "core::ptr::drop_in_place"


def entry_size(fn, param=1):
    """expression of `self.size` at function entry"""
    return ("load", ("param", param), ("size",), ("entry", ("M", "size")))


def cur_size(fn, b, i, base=("param", 1)):
    return ("load", base, ("size",), fn.version_at(b, i, ("M", "size")))


def N(name="N"):
    return ("cparam", name)


def ret_assignments(fn):
    """positions that define the return place `_0`: [(b, i, kind, payload)] with kind
    'stmt' (payload = rvalue json) or 'call' (payload = terminator json)"""
    out = []
    for b, i, st, is_term in fn.positions(False):
        if not is_term and st["k"] == "assign" and st["place"]["local"] == 0 and not st["place"]["proj"]:
            out.append((b, i, "stmt", st["rv"]))
        elif is_term and st["k"] == "call" and st["dest"]["local"] == 0 and not st["dest"]["proj"]:
            out.append((b, i, "call", st))
    return out


def variant_of_rv(rv):
    """('Some'|'None'|'Ok'|'Err'|..., fields) for an ADT aggregate rvalue, else None"""
    if rv.get("k") == "aggregate" and rv.get("agg") == "adt":
        return rv["variant"], rv["fields"]
    return None


def blocks_on_paths_to(fn, target_block):
    """blocks lying on some normal-edge path entry -> target_block (inclusive)"""
    preds = fn.preds(False)
    back = {target_block}
    st = [target_block]
    while st:
        x = st.pop()
        for p in preds.get(x, []):
            if p not in back:
                back.add(p)
                st.append(p)
    return back & fn.reachable(False)


def writes_at(fn, b, upto=None):
    """buffer-mutating events in block b (statements before index `upto`, and the terminator if
    upto is None): list of (i, description)"""
    eff = effects.get(fn.prog)
    out = []
    blk = fn.blocks[b]
    for i, st in enumerate(blk["stmts"]):
        if upto is not None and i >= upto:
            break
        if st["k"] in ("assign", "setdiscr") and mir.place_has_deref(st["place"]):
            out.append((i, "store to %s" % (mir.mem_var_of(st["place"])[1],)))
        elif st["k"] == "copy_nonoverlapping":
            out.append((i, "copy_nonoverlapping"))
    if upto is None:
        t = blk["term"]
        n = len(blk["stmts"])
        if t["k"] == "call":
            defs = [d for d in effects.call_mem_defs(fn, b, t) if d[0] == "M"]
            if defs:
                out.append((n, "call %s (writes %s)" % (mir.callee_short(t), ",".join(sorted(str(d[1]) for d in defs)))))
        elif t["k"] == "drop":
            for d in t.get("drop_impls", []):
                w = effects.writes_of(fn.prog, d)
                if w:
                    out.append((n, "drop glue %s (writes %s)" % (d, ",".join(sorted(map(str, w))))))
    return out


def value_sinks(fn, local, seen=None, depth=0):
    """Where does the value held in `local` go? Follows moves/copies through temporaries and
    aggregates. Returns a list of (kind, detail, b, i):
      ('return', variant-or-'', b, i)     stored into _0
      ('call', callee_path, argidx, b)    passed to a call
      ('store', field, b, i)              stored to memory
      ('drop', '', b, n)                  Drop terminator on it
    """
    if seen is None:
        seen = set()
    if local in seen or depth > 12:
        return []
    seen.add(local)
    out = []

    def uses(op):
        return op.get("k") in ("copy", "move") and op["place"]["local"] == local

    for b, i, st, is_term in fn.positions(True):
        if not is_term:
            if st["k"] != "assign":
                continue
            rv = st["rv"]
            pl = st["place"]
            used = False
            variant = ""
            if rv["k"] in ("use", "cast") and uses(rv["op"]):
                used = True
            elif rv["k"] == "aggregate":
                for f in rv["fields"]:
                    if uses(f["op"]):
                        used = True
                variant = rv.get("variant", "")
            if not used:
                continue
            if mir.place_has_deref(pl):
                out.append(("store", mir.mem_var_of(pl)[1], b, i))
            elif pl["local"] == 0:
                out.append(("return", variant, b, i))
            else:
                sub = value_sinks(fn, pl["local"], seen, depth + 1)
                # remember the variant it was wrapped in
                for s in sub:
                    if s[0] == "return" and not s[1] and variant:
                        s = ("return", variant, s[2], s[3])
                    out.append(s)
        else:
            if st["k"] == "call":
                for idx, a in enumerate(st["args"]):
                    if uses(a):
                        out.append(("call", mir.callee_path(st) or "?", idx, b))
            elif st["k"] == "drop":
                if st["place"]["local"] == local and not fn.is_cleanup(b):
                    out.append(("drop", "", b, len(fn.blocks[b]["stmts"])))
    return out


def field_stores(fn, field):
    """[(block, index, value)] of every store to the memory field `field` in fn: plain assignments through a
    pointer, `mem::replace(&mut _.field, v)` (stores v) and `mem::take(&mut _.field)` (stores the default, 0)"""
    out = []
    for b, i, st, is_term in fn.positions(False):
        if not is_term:
            if st["k"] == "assign" and mir.place_has_deref(st["place"]) and mir.mem_var_of(st["place"]) == ("M", field):
                out.append((b, i, mir.strip_casts(fn.rvalue_expr(st["rv"], b, i))))
            continue
        if st["k"] != "call":
            continue
        p = mir.callee_path(st)
        if p not in ("core::mem::replace", "core::mem::take"):
            continue
        args = fn.call_args(b)
        a0 = args[0] if args else None
        if isinstance(a0, tuple) and a0[0] == "ref" and isinstance(a0[1], tuple) and a0[1][0] == "place" and tuple(a0[1][2])[-1:] == (field,):
            out.append((b, i, mir.strip_casts(fn.deep_simplify(args[1])) if p.endswith("replace") else ("int", 0)))
    return out
