"""E1 glue: build (and cache) MIR fact bases of /repo for a feature configuration.

A fact base is the JSON document written by the `mirdump` rustc_private driver under
`cargo +nightly check --offline --lib` with the driver injected as RUSTC_WORKSPACE_WRAPPER into a
fresh CARGO_TARGET_DIR. The cache key is a hash of /repo's sources + manifest + lock file, the
flags and the driver binary, so every check reflects /repo's current working tree.
"""
import hashlib
import json
import os
import shutil
import subprocess
import sys
import time
import uuid
from concurrent.futures import ThreadPoolExecutor

VERIF = os.path.dirname(os.path.dirname(os.path.abspath(__file__)))
REPO = os.environ.get("VERIF_REPO", "/repo")
CACHE = os.path.join(VERIF, ".cache")
DRIVER = os.path.join(VERIF, "mirdump", "target", "release", "mirdump")

BASE_FLAGS = "-Zmir-opt-level=0 -Awarnings -Cdebug-assertions=off -Coverflow-checks=off"
DBG_FLAGS = "-Zmir-opt-level=0 -Awarnings -Cdebug-assertions=on -Coverflow-checks=off"

# name -> (cargo feature arguments, rustflags)
CONFIGS = {
    "default": ([], BASE_FLAGS),
    "nostd": (["--no-default-features"], BASE_FLAGS),
    "alloc": (["--no-default-features", "--features", "alloc"], BASE_FLAGS),
    "eio": (["--features", "embedded-io"], BASE_FLAGS),
    "eioa": (["--features", "embedded-io-async"], BASE_FLAGS),
    "eio_both": (["--features", "embedded-io,embedded-io-async"], BASE_FLAGS),
    "eio_both_nostd": (
        ["--no-default-features", "--features", "embedded-io,embedded-io-async"],
        BASE_FLAGS,
    ),
    "unstable": (["--features", "unstable"], BASE_FLAGS),
    "unstable_nostd": (["--no-default-features", "--features", "unstable"], BASE_FLAGS),
    "default_dbg": ([], DBG_FLAGS),
}
ALL_RELEASE_CONFIGS = [c for c in CONFIGS if c != "default_dbg"]


class BuildError(Exception):
    pass


def _sysroot():
    return subprocess.check_output(
        ["rustc", "+nightly", "--print", "sysroot"], text=True, stderr=subprocess.DEVNULL
    ).strip()


_SYSROOT = None


def sysroot():
    global _SYSROOT
    if _SYSROOT is None:
        _SYSROOT = _sysroot()
    return _SYSROOT


def tree_hash():
    """Hash of everything in /repo that the library build reads."""
    h = hashlib.sha256()
    files = []
    for root, dirs, fs in os.walk(os.path.join(REPO, "src")):
        dirs.sort()
        for f in sorted(fs):
            files.append(os.path.join(root, f))
    for f in ("Cargo.toml", "Cargo.lock", "build.rs", "rust-toolchain.toml", "rust-toolchain"):
        p = os.path.join(REPO, f)
        if os.path.exists(p):
            files.append(p)
    cfg = os.path.join(REPO, ".cargo", "config.toml")
    if os.path.exists(cfg):
        files.append(cfg)
    for p in files:
        h.update(p.encode())
        h.update(b"\0")
        with open(p, "rb") as fh:
            h.update(fh.read())
        h.update(b"\0")
    return h.hexdigest()


def _driver_hash():
    if not os.path.exists(DRIVER):
        raise BuildError(
            "mirdump driver not built: run MANIFEST.setup_cmd (cd /verif/mirdump && cargo build --release --offline)"
        )
    with open(DRIVER, "rb") as fh:
        return hashlib.sha256(fh.read()).hexdigest()


def scratch_dir(tag):
    d = os.path.join(CACHE, "tmp", "%s-%d-%s" % (tag, os.getpid(), uuid.uuid4().hex[:8]))
    os.makedirs(d, exist_ok=True)
    return d


def cargo_env(extra=None):
    env = dict(os.environ)
    env["CARGO_NET_OFFLINE"] = "true"
    env.pop("RUSTC_WRAPPER", None)
    env.pop("RUSTC_WORKSPACE_WRAPPER", None)
    env.pop("RUSTFLAGS", None)
    env.pop("CARGO_TARGET_DIR", None)
    if extra:
        env.update(extra)
    return env


def build_facts(config, thash=None, dhash=None):
    """Return the path of the fact base for `config`, building it if it is not cached."""
    feats, flags = CONFIGS[config]
    thash = thash or tree_hash()
    dhash = dhash or _driver_hash()
    key = hashlib.sha256(
        ("%s|%s|%s|%s|%s" % (thash, dhash, config, " ".join(feats), flags)).encode()
    ).hexdigest()[:24]
    os.makedirs(CACHE, exist_ok=True)
    out = os.path.join(CACHE, "facts-%s-%s.json" % (config, key))
    if os.path.exists(out) and os.path.getsize(out) > 0:
        try:
            os.utime(out, None)  # most recently used; pruning goes by this time stamp
        except OSError:
            pass
        return out
    tgt = scratch_dir("tgt-" + config)
    tmp_out = out + ".%d.tmp" % os.getpid()
    try:
        env = cargo_env(
            {
                "LD_LIBRARY_PATH": sysroot() + "/lib" + (":" + os.environ["LD_LIBRARY_PATH"] if os.environ.get("LD_LIBRARY_PATH") else ""),
                "RUSTFLAGS": flags,
                "RUSTC_WORKSPACE_WRAPPER": DRIVER,
                "CARGO_TARGET_DIR": tgt,
                "MIRDUMP_OUT": tmp_out,
                "MIRDUMP_CRATE": "circular_buffer",
            }
        )
        cmd = ["cargo", "+nightly", "check", "--offline", "--lib"] + feats
        p = subprocess.run(cmd, cwd=REPO, env=env, capture_output=True, text=True)
        if p.returncode != 0:
            raise BuildError(
                "cargo check failed for config %s:\n%s" % (config, p.stderr[-4000:])
            )
        if not os.path.exists(tmp_out) or os.path.getsize(tmp_out) == 0:
            raise BuildError("driver produced no fact file for config %s\n%s" % (config, p.stderr[-2000:]))
        os.replace(tmp_out, out)
    finally:
        shutil.rmtree(tgt, ignore_errors=True)
        if os.path.exists(tmp_out):
            os.remove(tmp_out)
    _prune_cache(keep=out)
    return out


def _prune_cache(keep=None, max_files=150):
    try:
        fs = [os.path.join(CACHE, f) for f in os.listdir(CACHE) if f.startswith("facts-")]
        fs.sort(key=lambda p: os.path.getmtime(p))
        while len(fs) > max_files:
            p = fs.pop(0)
            # never remove what a concurrent check may be about to load
            if p != keep and time.time() - os.path.getmtime(p) > 1800:
                os.remove(p)
    except OSError:
        pass


def load_facts(configs):
    """Build (in parallel) and load fact bases. Returns {config: json-dict}."""
    thash = tree_hash()
    dhash = _driver_hash()
    res = {}
    with ThreadPoolExecutor(max_workers=min(8, max(1, len(configs)))) as ex:
        futs = {c: ex.submit(build_facts, c, thash, dhash) for c in configs}
        for c, f in futs.items():
            path = f.result()
            with open(path) as fh:
                res[c] = json.load(fh)
            res[c]["_config"] = c
            res[c]["_path"] = path
    return res


if __name__ == "__main__":
    t = time.time()
    cfgs = sys.argv[1:] or ["default"]
    fb = load_facts(cfgs)
    for c, d in fb.items():
        print(c, len(d["fns"]), "fns", d["_path"])
    print("%.1fs" % (time.time() - t))


# --------------------------------------------------------------------------------------------------
# E4: plain build matrix (stable toolchain unless the configuration needs nightly)
# --------------------------------------------------------------------------------------------------

BUILD_MATRIX = {
    "nostd": (["--no-default-features"], "stable"),
    "alloc": (["--no-default-features", "--features", "alloc"], "stable"),
    "default": ([], "stable"),
    "eio": (["--features", "embedded-io"], "stable"),
    "eioa": (["--features", "embedded-io-async"], "stable"),
    "eio_both": (["--features", "embedded-io,embedded-io-async"], "stable"),
    "eio_both_nostd": (["--no-default-features", "--features", "embedded-io,embedded-io-async"], "stable"),
    "unstable": (["--features", "unstable"], "nightly"),
    "unstable_nostd": (["--no-default-features", "--features", "unstable"], "nightly"),
}


def plain_check(name, thash=None):
    """cargo check --offline --lib for one entry of the build matrix. Returns (ok, message).
    Cached by tree hash."""
    feats, tc = BUILD_MATRIX[name]
    thash = thash or tree_hash()
    key = hashlib.sha256(("build|%s|%s|%s" % (thash, name, tc)).encode()).hexdigest()[:24]
    os.makedirs(CACHE, exist_ok=True)
    marker = os.path.join(CACHE, "build-%s-%s.json" % (name, key))
    if os.path.exists(marker):
        try:
            with open(marker) as fh:
                d = json.load(fh)
            return d["ok"], d["msg"]
        except (ValueError, KeyError, OSError):
            pass  # written concurrently by another process: recompute
    tgt = scratch_dir("bld-" + name)
    try:
        cmd = ["cargo"] + (["+nightly"] if tc == "nightly" else []) + ["check", "--offline", "--lib"] + feats
        p = subprocess.run(cmd, cwd=REPO, env=cargo_env({"CARGO_TARGET_DIR": tgt}), capture_output=True, text=True)
        ok = p.returncode == 0
        msg = "" if ok else p.stderr[-3000:]
    finally:
        shutil.rmtree(tgt, ignore_errors=True)
    tmpm = marker + ".%d.tmp" % os.getpid()
    with open(tmpm, "w") as fh:
        json.dump({"ok": ok, "msg": msg, "cmd": " ".join(cmd)}, fh)
    os.replace(tmpm, marker)
    try:
        for f in sorted([x for x in os.listdir(CACHE) if x.startswith("build-") and x.endswith(".json")], key=lambda x: os.path.getmtime(os.path.join(CACHE, x)))[:-200]:
            os.remove(os.path.join(CACHE, f))
    except OSError:
        pass
    return ok, msg


def plain_checks(names):
    thash = tree_hash()
    with ThreadPoolExecutor(max_workers=8) as ex:
        return dict(zip(names, ex.map(lambda n: plain_check(n, thash), names)))


def disambiguate_shorts(facts):
    """Two definitions may share a short name (free helper functions of the same name in two modules). Anchors and callee
    references are by short name, so the later definitions get their full path as short name, and so do the calls that
    resolve to them. In place; returns the renamed paths."""
    seen, dup = {}, {}
    for rec in facts.get("fns", []):
        sh = rec.get("short")
        if sh in seen and seen[sh] != rec.get("path"):
            dup[rec.get("path")] = sh
        else:
            seen.setdefault(sh, rec.get("path"))
    if not dup:
        return []

    def walk(node):
        if isinstance(node, dict):
            fn = node.get("fn")
            if isinstance(fn, dict):
                for pk, sk in (("path", "short"), ("rpath", "rshort")):
                    if fn.get(pk) in dup and fn.get(sk) == dup[fn[pk]]:
                        fn[sk] = fn[pk]
            for v in node.values():
                walk(v)
        elif isinstance(node, list):
            for v in node:
                walk(v)

    for rec in list(facts.get("fns", [])) + list(facts.get("built", [])):
        if rec.get("path") in dup and rec.get("short") == dup[rec["path"]]:
            rec["short"] = rec["path"]
        if rec.get("enclosing_fn") in dup.values():
            pass
        walk(rec.get("mir"))
    return sorted(dup)
