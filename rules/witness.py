"""E3 — witness runner. The compiler is the decision procedure: a must-fail witness passes only
if rustc rejects it with the expected error code (or message, for region errors that carry no
code) on the marked line AND its compiling twin (the same file with the marked line removed or
replaced) is accepted; a must-compile witness must be accepted.

Markers:  `//~ ERROR <code-or-message>`   the line rustc must report
          `//~ REMOVE`                    line dropped in the twin (default: the ERROR line)
          `//~ TWIN <text>`               replacement for the ERROR line in the twin
"""
import hashlib
import json
import os
import re
import shutil
import subprocess
from concurrent.futures import ThreadPoolExecutor

from . import facts

VERIF = facts.VERIF
WDIR = os.path.join(VERIF, "witnesses")


def build_lib(features=()):
    """cargo +nightly build --lib of /repo's working tree into a cached directory; returns
    (rlib path, deps dir)"""
    key = hashlib.sha256((facts.tree_hash() + "|" + ",".join(features)).encode()).hexdigest()[:20]
    out = os.path.join(facts.CACHE, "lib-" + key)
    rlib = os.path.join(out, "libcircular_buffer.rlib")
    if os.path.exists(rlib):
        try:
            os.utime(out, None)  # most recently *used*: pruning goes by this time stamp
        except OSError:
            pass
        return rlib, os.path.join(out, "deps")
    tgt = facts.scratch_dir("wlib")
    try:
        cmd = ["cargo", "+nightly", "build", "--offline", "--lib"]
        if features:
            cmd += ["--features", ",".join(features)]
        p = subprocess.run(cmd, cwd=facts.REPO, env=facts.cargo_env({"CARGO_TARGET_DIR": tgt, "RUSTFLAGS": "-Awarnings"}), capture_output=True, text=True)
        if p.returncode != 0:
            raise facts.BuildError("cargo build failed:\n" + p.stderr[-3000:])
        stage = out + ".%d.stage" % os.getpid()
        os.makedirs(os.path.join(stage, "deps"), exist_ok=True)
        shutil.copy(os.path.join(tgt, "debug", "libcircular_buffer.rlib"), os.path.join(stage, "libcircular_buffer.rlib"))
        for fn in os.listdir(os.path.join(tgt, "debug", "deps")):
            if fn.endswith(".rlib") or fn.endswith(".rmeta"):
                if not fn.startswith("libcircular_buffer"):
                    shutil.copy(os.path.join(tgt, "debug", "deps", fn), os.path.join(stage, "deps", fn))
        try:
            os.rename(stage, out)  # atomic publish; a concurrent builder may have won
        except OSError:
            shutil.rmtree(stage, ignore_errors=True)
    finally:
        shutil.rmtree(tgt, ignore_errors=True)
    # keep only a few libs (concurrent checks prune too: every step tolerates a vanished entry)
    import time as _time

    def _mt(d):
        try:
            return os.path.getmtime(os.path.join(facts.CACHE, d))
        except OSError:
            return _time.time()

    try:
        libs = sorted([d for d in os.listdir(facts.CACHE) if d.startswith("lib-") and not d.endswith(".stage")], key=_mt)
        for d in libs[:-40]:
            # never remove what a concurrent check may still be compiling against
            if _time.time() - _mt(d) > 1800:
                shutil.rmtree(os.path.join(facts.CACHE, d), ignore_errors=True)
    except OSError:
        pass
    return rlib, os.path.join(out, "deps")


def rustc(src_path, rlib, deps, workdir):
    out = os.path.join(workdir, os.path.basename(src_path) + ".rmeta")
    cmd = ["rustc", "+nightly", "--edition", "2021", "--crate-type", "lib", "--emit=metadata", "-o", out,
           "--extern", "circular_buffer=" + rlib, "-L", "dependency=" + deps, "--error-format=json", "-Awarnings", src_path]
    p = subprocess.run(cmd, capture_output=True, text=True, env=facts.cargo_env())
    diags = []
    for line in p.stderr.splitlines():
        try:
            d = json.loads(line)
        except ValueError:
            continue
        if d.get("level") == "error":
            code = (d.get("code") or {}).get("code")
            lines = [s["line_start"] for s in d.get("spans", []) if s.get("is_primary")]
            alllines = [s["line_start"] for s in d.get("spans", [])]
            diags.append({"code": code, "message": d.get("message", ""), "lines": lines, "all_lines": alllines})
    return p.returncode, diags, " ".join(cmd[:-1])


def parse_markers(text):
    err = None
    remove = []
    twin = None
    autos = {}
    for n, line in enumerate(text.splitlines(), 1):
        m = re.search(r"//~ ERROR ([^/]+?)(?:\s*//~|$)", line)
        if m:
            err = (n, m.group(1).strip())
            t = re.search(r"//~ TWIN (.*)$", line)
            if t:
                twin = t.group(1)
        if "//~ REMOVE" in line:
            remove.append(n)
        a = re.search(r"//~ AUTO (.*)$", line)
        if a:
            autos[n] = a.group(1)
    return err, remove, twin, autos


def make_twin(text, err, remove, twin):
    out = []
    for n, line in enumerate(text.splitlines(), 1):
        if remove:
            if n in remove:
                continue
        elif err and n == err[0]:
            if twin is not None:
                out.append(twin)
            continue
        out.append(line)
    return "\n".join(out) + "\n"


def run_all(workdir=None):
    """returns list of result dicts: {name, kind, ok, detail, cmd}"""
    rlib, deps = build_lib()
    wd = workdir or facts.scratch_dir("wit")
    results = []
    jobs = []
    try:
        for kind in ("fail", "pass"):
            d = os.path.join(WDIR, kind)
            for fn in sorted(os.listdir(d)):
                if fn.endswith(".rs"):
                    jobs.append((kind, os.path.join(d, fn)))

        def one(job):
            kind, path = job
            name = os.path.splitext(os.path.basename(path))[0]
            text = open(path).read()
            err, remove, twin, autos = parse_markers(text)
            res = []
            if kind == "pass":
                rc, diags, cmd = rustc(path, rlib, deps, wd)
                if autos:
                    bad = {}
                    for dg in diags:
                        for ln in dg["lines"] or dg["all_lines"]:
                            if ln in autos:
                                bad[ln] = dg
                    other = [dg for dg in diags if not any(ln in autos for ln in (dg["lines"] or dg["all_lines"]))]
                    for ln, what in sorted(autos.items()):
                        res.append({"name": "%s:%s" % (name, what), "kind": "auto-trait", "ok": ln not in bad and not other,
                                    "detail": ("const assertion failed: " + bad[ln]["message"]) if ln in bad else ("witness file does not compile: " + other[0]["message"] if other else "const assertion holds"),
                                    "cmd": cmd, "file": path, "line": ln})
                else:
                    res.append({"name": name, "kind": "must-compile", "ok": rc == 0,
                                "detail": "accepted by rustc" if rc == 0 else "rejected: " + "; ".join("%s %s (line %s)" % (d["code"], d["message"], d["lines"]) for d in diags[:3]),
                                "cmd": cmd, "file": path, "line": 0})
                return res
            # must fail
            rc, diags, cmd = rustc(path, rlib, deps, wd)
            want_line, want = err if err else (0, "?")
            hit = None
            for dg in diags:
                code_ok = (dg["code"] == want) if re.match(r"^E\d{4}$", want) else (want in dg["message"])
                line_ok = want_line in dg["lines"] or want_line in dg["all_lines"]
                if code_ok and line_ok:
                    hit = dg
            others = [dg for dg in diags if dg is not hit and not (hit and dg["code"] == hit["code"])]
            ok = rc != 0 and hit is not None
            detail = ("rejected with %s on line %d" % (want, want_line)) if ok else (
                "ACCEPTED by rustc (the program that must be rejected compiles)" if rc == 0 else
                "rejected, but not with `%s` on line %d: %s" % (want, want_line, "; ".join("%s %s (lines %s)" % (d["code"], d["message"][:80], d["lines"]) for d in diags[:3])))
            res.append({"name": name, "kind": "must-fail", "ok": ok, "detail": detail, "cmd": cmd, "file": path, "line": want_line})
            tpath = os.path.join(wd, name + "_twin.rs")
            with open(tpath, "w") as fh:
                fh.write(make_twin(text, err, remove, twin))
            rc2, diags2, cmd2 = rustc(tpath, rlib, deps, wd)
            res.append({"name": name + ":twin", "kind": "twin-compiles", "ok": rc2 == 0,
                        "detail": "twin (offending line removed) accepted" if rc2 == 0 else "twin rejected: " + "; ".join("%s %s" % (d["code"], d["message"][:100]) for d in diags2[:3]),
                        "cmd": cmd2, "file": path, "line": want_line})
            return res

        with ThreadPoolExecutor(max_workers=16) as ex:
            for r in ex.map(one, jobs):
                results.extend(r)
    finally:
        if workdir is None:
            shutil.rmtree(wd, ignore_errors=True)
    return results
