#![allow(unused)]
use circular_buffer::CircularBuffer;
pub fn w<'a, 'b>(d: circular_buffer::Drain<'b, 1, &'a str>) -> circular_buffer::Drain<'b, 1, &'static str> {
    d //~ ERROR lifetime may not live long enough //~ TWIN loop {}
}
