#![allow(unused)]
use circular_buffer::CircularBuffer;
pub fn w() {
    let s;
    {
        let buf = CircularBuffer::<4, u32>::new();
        s = buf.as_slices(); //~ ERROR E0597
    }
    drop(s); //~ REMOVE
}
