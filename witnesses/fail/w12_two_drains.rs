#![allow(unused)]
use circular_buffer::CircularBuffer;
pub fn w(buf: &mut CircularBuffer<4, u32>) {
    let d = buf.drain(..1);
    let d2 = buf.drain(1..); //~ ERROR E0499
    drop(d);
}
