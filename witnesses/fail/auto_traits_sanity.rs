#![allow(unused)]
use circular_buffer::{CircularBuffer, IntoIter, Iter, IterMut};
use std::cell::Cell;
use std::rc::Rc;
use std::sync::MutexGuard;

macro_rules! impls {
    ($t:ty : $tr:path) => {{
        struct W<T: ?Sized>(core::marker::PhantomData<T>);
        trait No { const V: bool = false; }
        impl<T: ?Sized> No for W<T> {}
        impl<T: ?Sized + $tr> W<T> { const V: bool = true; }
        <W<$t>>::V
    }};
}
const _: () = assert!(impls!(Rc<u8>: Send)); //~ ERROR E0080
