#![allow(unused)]
use circular_buffer::CircularBuffer;
pub fn w<'a, 'b>(it: circular_buffer::Iter<'b, &'a str>) -> circular_buffer::Iter<'b, &'static str> {
    it //~ ERROR lifetime may not live long enough //~ TWIN loop {}
}
