#![allow(unused)]
use circular_buffer::CircularBuffer;
pub fn w(buf: &mut CircularBuffer<4, u32>) {
    let s = buf.as_mut_slices();
    buf.push_back(1); //~ ERROR E0499
    drop(s);
}
