#![allow(unused)]
use circular_buffer::CircularBuffer;
pub fn w(buf: &mut CircularBuffer<4, u32>) {
    let a = buf.back_mut();
    let b = buf.nth_back_mut(0); //~ ERROR E0499
    drop(a);
}
