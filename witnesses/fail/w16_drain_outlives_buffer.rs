#![allow(unused)]
use circular_buffer::CircularBuffer;
pub fn w() {
    let mut keep: Option<circular_buffer::Drain<'_, 4, u32>> = None;
    {
        let mut buf = CircularBuffer::<4, u32>::new();
        keep = Some(buf.drain(..)); //~ ERROR E0597
    }
    drop(keep);
}
