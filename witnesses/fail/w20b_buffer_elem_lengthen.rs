#![allow(unused)]
use circular_buffer::CircularBuffer;
pub fn w<'a>(b: CircularBuffer<2, &'a str>) -> CircularBuffer<2, &'static str> {
    b //~ ERROR lifetime may not live long enough //~ TWIN loop {}
}
