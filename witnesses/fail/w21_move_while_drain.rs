#![allow(unused)]
use circular_buffer::CircularBuffer;
pub fn w(mut buf: CircularBuffer<4, String>) {
    let d = buf.drain(..);
    let moved = buf; //~ ERROR E0505
    drop(d);
}
