#![allow(unused)]
use circular_buffer::CircularBuffer;
pub fn w() {
    let it;
    {
        let mut buf = CircularBuffer::<4, u32>::new();
        it = buf.iter_mut(); //~ ERROR E0597
    }
    drop(it); //~ REMOVE
}
