#![allow(unused)]
use circular_buffer::CircularBuffer;
pub fn w(buf: &mut CircularBuffer<4, u32>) {
    let d = buf.drain(..);
    let d2 = d.clone(); //~ ERROR E0599
}
