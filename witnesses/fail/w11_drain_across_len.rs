#![allow(unused)]
use circular_buffer::CircularBuffer;
pub fn w(buf: &mut CircularBuffer<4, u32>) {
    let d = buf.drain(..);
    let _n = buf.len(); //~ ERROR E0502
    drop(d);
}
