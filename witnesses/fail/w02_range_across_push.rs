#![allow(unused)]
use circular_buffer::CircularBuffer;
pub fn w(buf: &mut CircularBuffer<4, u32>) {
    let it = buf.range(1..);
    buf.push_back(1); //~ ERROR E0502
    drop(it);
}
