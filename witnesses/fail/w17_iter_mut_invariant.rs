#![allow(unused)]
use circular_buffer::CircularBuffer;
pub fn w<'a>(it: circular_buffer::IterMut<'a, &'static str>, _s: &'a str) -> circular_buffer::IterMut<'a, &'a str> {
    it //~ ERROR lifetime may not live long enough //~ TWIN loop {}
}
