#![allow(unused)]
use circular_buffer::CircularBuffer;
pub fn w<'short, 'long: 'short>(d: circular_buffer::Drain<'short, 1, u8>) -> circular_buffer::Drain<'long, 1, u8> {
    d //~ ERROR lifetime may not live long enough //~ TWIN loop {}
}
