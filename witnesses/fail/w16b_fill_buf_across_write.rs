#![allow(unused)]
use circular_buffer::CircularBuffer;
pub fn w(buf: &mut CircularBuffer<4, u8>) {
    use std::io::{BufRead, Write};
    let s = buf.fill_buf().unwrap();
    let _ = buf.write(&[1]); //~ ERROR E0499
    drop(s);
}
