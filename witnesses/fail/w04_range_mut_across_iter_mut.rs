#![allow(unused)]
use circular_buffer::CircularBuffer;
pub fn w(buf: &mut CircularBuffer<4, u32>) {
    let it = buf.range_mut(..2);
    let it2 = buf.iter_mut(); //~ ERROR E0499
    drop(it);
}
