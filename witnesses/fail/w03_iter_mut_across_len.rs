#![allow(unused)]
use circular_buffer::CircularBuffer;
pub fn w(buf: &mut CircularBuffer<4, u32>) {
    let it = buf.iter_mut();
    let _n = buf.len(); //~ ERROR E0502
    drop(it);
}
