#![allow(unused)]
use circular_buffer::CircularBuffer;
pub fn w(buf: &mut CircularBuffer<4, String>) {
    let r = (buf.back(), buf.nth_front(0), buf.nth_back(0));
    buf.clear(); //~ ERROR E0502
    drop(r);
}
