#![allow(unused)]
use circular_buffer::CircularBuffer;
pub fn w(buf: &mut CircularBuffer<4, u32>) {
    let a = &mut buf[0];
    let b = (buf.nth_front_mut(0), ); //~ ERROR E0499
    drop(a);
}
