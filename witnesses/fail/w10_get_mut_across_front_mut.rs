#![allow(unused)]
use circular_buffer::CircularBuffer;
pub fn w(buf: &mut CircularBuffer<4, u32>) {
    let a = buf.get_mut(0);
    let b = buf.front_mut(); //~ ERROR E0499
    drop(a);
}
