#![allow(unused)]
use circular_buffer::CircularBuffer;
pub fn w(buf: CircularBuffer<4, String>) {
    let it = buf.iter();
    let moved = buf; //~ ERROR E0505
    drop(it);
}
