#![allow(unused)]
use circular_buffer::CircularBuffer;
pub fn w(buf: &mut CircularBuffer<4, u32>) {
    let s = buf.as_slices();
    buf.push_back(1); //~ ERROR E0502
    drop(s);
}
