#![allow(unused)]
use circular_buffer::CircularBuffer;
pub fn w(buf: &mut CircularBuffer<4, u32>) {
    let it = buf.iter_mut();
    let it2 = it.clone(); //~ ERROR E0599
}
