#![allow(unused)]
use circular_buffer::CircularBuffer;
pub fn w() {
    let it;
    {
        let buf = CircularBuffer::<4, u32>::new();
        it = buf.iter(); //~ ERROR E0597
    }
    drop(it); //~ REMOVE
}
