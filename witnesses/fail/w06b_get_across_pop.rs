#![allow(unused)]
use circular_buffer::CircularBuffer;
pub fn w(buf: &mut CircularBuffer<4, String>) {
    let r = buf.get(0);
    buf.pop_front(); //~ ERROR E0502
    drop(r);
}
