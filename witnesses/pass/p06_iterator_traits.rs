#![allow(unused)]
use circular_buffer::CircularBuffer;
fn is_iter<I: Iterator + DoubleEndedIterator + ExactSizeIterator + core::iter::FusedIterator>() {}
pub fn f<'a>() {
    is_iter::<circular_buffer::Iter<'a, u8>>();
    is_iter::<circular_buffer::IterMut<'a, u8>>();
    is_iter::<circular_buffer::IntoIter<4, u8>>();
    is_iter::<circular_buffer::Drain<'a, 4, u8>>();
}
