#![allow(unused)]
use circular_buffer::CircularBuffer;
pub struct NotCopy(pub String);
pub static S: CircularBuffer<4, u32> = CircularBuffer::new();
pub const C: CircularBuffer<8, NotCopy> = CircularBuffer::new();
pub static Z: CircularBuffer<0, NotCopy> = CircularBuffer::new();
pub const fn f() -> CircularBuffer<16, Option<Box<u8>>> { CircularBuffer::new() }
