#![allow(unused)]
use circular_buffer::CircularBuffer;
pub fn buf<'a>(b: CircularBuffer<1, &'static str>) -> CircularBuffer<1, &'a str> { b }
pub fn iter<'a, 'b>(i: circular_buffer::Iter<'b, &'static str>) -> circular_buffer::Iter<'b, &'a str> { i }
pub fn drain<'a, 'b>(d: circular_buffer::Drain<'b, 1, &'static str>) -> circular_buffer::Drain<'b, 1, &'a str> { d }
pub fn into_iter<'a>(i: circular_buffer::IntoIter<1, &'static str>) -> circular_buffer::IntoIter<1, &'a str> { i }
