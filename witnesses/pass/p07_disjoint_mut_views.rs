#![allow(unused)]
use circular_buffer::CircularBuffer;
pub fn f(buf: &mut CircularBuffer<4, u32>) {
    let (a, b) = buf.as_mut_slices();
    a.iter_mut().chain(b.iter_mut()).for_each(|x| *x += 1);
    let mut it = buf.iter_mut();
    let x = it.next();
    let y = it.next_back();
    if let (Some(x), Some(y)) = (x, y) { core::mem::swap(x, y); }
}
