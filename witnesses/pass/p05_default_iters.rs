#![allow(unused)]
use circular_buffer::CircularBuffer;
pub struct X;
pub fn a<'a>() -> circular_buffer::Iter<'a, X> { Default::default() }
pub fn b<'a>() -> circular_buffer::IterMut<'a, X> { Default::default() }
pub fn c() -> CircularBuffer<3, X> { Default::default() }
