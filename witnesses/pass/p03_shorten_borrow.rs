#![allow(unused)]
use circular_buffer::CircularBuffer;
pub fn iter<'short, 'long: 'short>(i: circular_buffer::Iter<'long, u8>) -> circular_buffer::Iter<'short, u8> { i }
pub fn iter_mut<'short, 'long: 'short>(i: circular_buffer::IterMut<'long, u8>) -> circular_buffer::IterMut<'short, u8> { i }
pub fn drain<'short, 'long: 'short>(d: circular_buffer::Drain<'long, 1, u8>) -> circular_buffer::Drain<'short, 1, u8> { d }
