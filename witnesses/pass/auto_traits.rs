#![allow(unused)]
use circular_buffer::{CircularBuffer, IntoIter, Iter, IterMut};
use std::cell::Cell;
use std::rc::Rc;
use std::sync::MutexGuard;

macro_rules! impls {
    ($t:ty : $tr:path) => {{
        struct W<T: ?Sized>(core::marker::PhantomData<T>);
        trait No { const V: bool = false; }
        impl<T: ?Sized> No for W<T> {}
        impl<T: ?Sized + $tr> W<T> { const V: bool = true; }
        <W<$t>>::V
    }};
}
const _: () = assert!(impls!(CircularBuffer<4, u8>: Send) == impls!([u8; 4]: Send)); //~ AUTO CircularBuffer<4, u8>: Send like [u8; 4]
const _: () = assert!(impls!(IntoIter<4, u8>: Send) == impls!([u8; 4]: Send)); //~ AUTO IntoIter<4, u8>: Send like [u8; 4]
const _: () = assert!(impls!(Iter<'static, u8>: Send) == impls!(&'static [u8]: Send)); //~ AUTO Iter<'static, u8>: Send like &'static [u8]
const _: () = assert!(impls!(IterMut<'static, u8>: Send) == impls!(&'static mut [u8]: Send)); //~ AUTO IterMut<'static, u8>: Send like &'static mut [u8]
const _: () = assert!(impls!(CircularBuffer<4, Cell<u8>>: Send) == impls!([Cell<u8>; 4]: Send)); //~ AUTO CircularBuffer<4, Cell<u8>>: Send like [Cell<u8>; 4]
const _: () = assert!(impls!(IntoIter<4, Cell<u8>>: Send) == impls!([Cell<u8>; 4]: Send)); //~ AUTO IntoIter<4, Cell<u8>>: Send like [Cell<u8>; 4]
const _: () = assert!(impls!(Iter<'static, Cell<u8>>: Send) == impls!(&'static [Cell<u8>]: Send)); //~ AUTO Iter<'static, Cell<u8>>: Send like &'static [Cell<u8>]
const _: () = assert!(impls!(IterMut<'static, Cell<u8>>: Send) == impls!(&'static mut [Cell<u8>]: Send)); //~ AUTO IterMut<'static, Cell<u8>>: Send like &'static mut [Cell<u8>]
const _: () = assert!(impls!(CircularBuffer<4, MutexGuard<'static, u8>>: Send) == impls!([MutexGuard<'static, u8>; 4]: Send)); //~ AUTO CircularBuffer<4, MutexGuard<'static, u8>>: Send like [MutexGuard<'static, u8>; 4]
const _: () = assert!(impls!(IntoIter<4, MutexGuard<'static, u8>>: Send) == impls!([MutexGuard<'static, u8>; 4]: Send)); //~ AUTO IntoIter<4, MutexGuard<'static, u8>>: Send like [MutexGuard<'static, u8>; 4]
const _: () = assert!(impls!(Iter<'static, MutexGuard<'static, u8>>: Send) == impls!(&'static [MutexGuard<'static, u8>]: Send)); //~ AUTO Iter<'static, MutexGuard<'static, u8>>: Send like &'static [MutexGuard<'static, u8>]
const _: () = assert!(impls!(IterMut<'static, MutexGuard<'static, u8>>: Send) == impls!(&'static mut [MutexGuard<'static, u8>]: Send)); //~ AUTO IterMut<'static, MutexGuard<'static, u8>>: Send like &'static mut [MutexGuard<'static, u8>]
const _: () = assert!(impls!(CircularBuffer<4, Rc<u8>>: Send) == impls!([Rc<u8>; 4]: Send)); //~ AUTO CircularBuffer<4, Rc<u8>>: Send like [Rc<u8>; 4]
const _: () = assert!(impls!(IntoIter<4, Rc<u8>>: Send) == impls!([Rc<u8>; 4]: Send)); //~ AUTO IntoIter<4, Rc<u8>>: Send like [Rc<u8>; 4]
const _: () = assert!(impls!(Iter<'static, Rc<u8>>: Send) == impls!(&'static [Rc<u8>]: Send)); //~ AUTO Iter<'static, Rc<u8>>: Send like &'static [Rc<u8>]
const _: () = assert!(impls!(IterMut<'static, Rc<u8>>: Send) == impls!(&'static mut [Rc<u8>]: Send)); //~ AUTO IterMut<'static, Rc<u8>>: Send like &'static mut [Rc<u8>]
const _: () = assert!(impls!(CircularBuffer<4, u8>: Sync) == impls!([u8; 4]: Sync)); //~ AUTO CircularBuffer<4, u8>: Sync like [u8; 4]
const _: () = assert!(impls!(IntoIter<4, u8>: Sync) == impls!([u8; 4]: Sync)); //~ AUTO IntoIter<4, u8>: Sync like [u8; 4]
const _: () = assert!(impls!(Iter<'static, u8>: Sync) == impls!(&'static [u8]: Sync)); //~ AUTO Iter<'static, u8>: Sync like &'static [u8]
const _: () = assert!(impls!(IterMut<'static, u8>: Sync) == impls!(&'static mut [u8]: Sync)); //~ AUTO IterMut<'static, u8>: Sync like &'static mut [u8]
const _: () = assert!(impls!(CircularBuffer<4, Cell<u8>>: Sync) == impls!([Cell<u8>; 4]: Sync)); //~ AUTO CircularBuffer<4, Cell<u8>>: Sync like [Cell<u8>; 4]
const _: () = assert!(impls!(IntoIter<4, Cell<u8>>: Sync) == impls!([Cell<u8>; 4]: Sync)); //~ AUTO IntoIter<4, Cell<u8>>: Sync like [Cell<u8>; 4]
const _: () = assert!(impls!(Iter<'static, Cell<u8>>: Sync) == impls!(&'static [Cell<u8>]: Sync)); //~ AUTO Iter<'static, Cell<u8>>: Sync like &'static [Cell<u8>]
const _: () = assert!(impls!(IterMut<'static, Cell<u8>>: Sync) == impls!(&'static mut [Cell<u8>]: Sync)); //~ AUTO IterMut<'static, Cell<u8>>: Sync like &'static mut [Cell<u8>]
const _: () = assert!(impls!(CircularBuffer<4, MutexGuard<'static, u8>>: Sync) == impls!([MutexGuard<'static, u8>; 4]: Sync)); //~ AUTO CircularBuffer<4, MutexGuard<'static, u8>>: Sync like [MutexGuard<'static, u8>; 4]
const _: () = assert!(impls!(IntoIter<4, MutexGuard<'static, u8>>: Sync) == impls!([MutexGuard<'static, u8>; 4]: Sync)); //~ AUTO IntoIter<4, MutexGuard<'static, u8>>: Sync like [MutexGuard<'static, u8>; 4]
const _: () = assert!(impls!(Iter<'static, MutexGuard<'static, u8>>: Sync) == impls!(&'static [MutexGuard<'static, u8>]: Sync)); //~ AUTO Iter<'static, MutexGuard<'static, u8>>: Sync like &'static [MutexGuard<'static, u8>]
const _: () = assert!(impls!(IterMut<'static, MutexGuard<'static, u8>>: Sync) == impls!(&'static mut [MutexGuard<'static, u8>]: Sync)); //~ AUTO IterMut<'static, MutexGuard<'static, u8>>: Sync like &'static mut [MutexGuard<'static, u8>]
const _: () = assert!(impls!(CircularBuffer<4, Rc<u8>>: Sync) == impls!([Rc<u8>; 4]: Sync)); //~ AUTO CircularBuffer<4, Rc<u8>>: Sync like [Rc<u8>; 4]
const _: () = assert!(impls!(IntoIter<4, Rc<u8>>: Sync) == impls!([Rc<u8>; 4]: Sync)); //~ AUTO IntoIter<4, Rc<u8>>: Sync like [Rc<u8>; 4]
const _: () = assert!(impls!(Iter<'static, Rc<u8>>: Sync) == impls!(&'static [Rc<u8>]: Sync)); //~ AUTO Iter<'static, Rc<u8>>: Sync like &'static [Rc<u8>]
const _: () = assert!(impls!(IterMut<'static, Rc<u8>>: Sync) == impls!(&'static mut [Rc<u8>]: Sync)); //~ AUTO IterMut<'static, Rc<u8>>: Sync like &'static mut [Rc<u8>]
