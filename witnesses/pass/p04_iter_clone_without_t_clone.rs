#![allow(unused)]
use circular_buffer::CircularBuffer;
pub struct NotClone;
pub fn f<'a>(i: &circular_buffer::Iter<'a, NotClone>) -> circular_buffer::Iter<'a, NotClone> { i.clone() }
