#!/usr/bin/env python3
"""Regenerate rules/known_fns.py from /repo's current tree (all feature configurations). Only to be run together
with a review of the rule tables: a function listed there is treated as a unit the rules know about, anything else
is inlined into its callers (rules/inline.py); the fingerprints only serve to recognise private renames
(rules/rename.py)."""
import os, sys
sys.path.insert(0, os.path.dirname(os.path.dirname(os.path.abspath(__file__))))
from rules import desugar, facts, rename

names = set()
fps = {}
for c, fb in facts.load_facts(list(facts.CONFIGS)).items():
    desugar.apply(fb)
    d = {}
    for r in fb["fns"]:
        if r["kind"] in ("Fn", "AssocFn"):
            names.add(r["short"])
            fp = rename.fingerprint(r)
            if fp:
                d[r["short"]] = fp
    fps[c] = d
out = os.path.join(os.path.dirname(os.path.dirname(os.path.abspath(__file__))), "rules", "known_fns.py")
with open(out, "w") as fh:
    fh.write('"""Functions (all feature configurations) that existed when the rule tables were reviewed. A private function\nthat is *not* listed here is a helper introduced later: rules/inline.py inlines it into its callers before any\nrule runs. FINGERPRINTS (per configuration: name -> hash of the name-free body profile) only serve to recognise a\nprivate function or type that was merely renamed (rules/rename.py). Regenerate with tools/gen_known_fns.py only\ntogether with a review of the tables."""\n\nKNOWN_FNS = frozenset([\n')
    for n in sorted(names):
        fh.write("    %r,\n" % n)
    fh.write("])\n\nFINGERPRINTS = {\n")
    for c in sorted(fps):
        fh.write("    %r: {\n" % c)
        for n in sorted(fps[c]):
            fh.write("        %r: %r,\n" % (n, fps[c][n]))
        fh.write("    },\n")
    fh.write("}\n")
print(len(names), "functions")
