#!/usr/bin/env python3
"""Behaviour-preserving edits a maintainer might make; every check must stay silent on them."""
import json, os, subprocess, sys, shutil
VERIF = os.path.dirname(os.path.dirname(os.path.abspath(__file__)))
OUT = os.path.join(VERIF, "selftest", "benign")
WT = "/tmp/mb-wt"
L = "src/lib.rs"; D = "src/drain.rs"
B = [
 ("push_back_is_full", L, """    pub fn push_back(&mut self, item: T) -> Option<T> {
        if N == 0 {
            // Nothing to do
            return Some(item);
        }

        if self.size >= N {""", """    pub fn push_back(&mut self, item: T) -> Option<T> {
        if N == 0 {
            // Nothing to do
            return Some(item);
        }

        if self.is_full() {"""),
 ("get_without_n0", L, """    pub fn get(&self, index: usize) -> Option<&T> {
        if N == 0 || index >= self.size {""", """    pub fn get(&self, index: usize) -> Option<&T> {
        if index >= self.len() {"""),
 ("truncate_back_renamed", L, """        let (start, size) = (self.start, self.size);
        let drop_range = len..size;
        self.size = len;""", """        let old_size = self.size;
        let start = self.start;
        let size = old_size;
        let drop_range = len..old_size;
        self.size = len;"""),
 ("front_is_empty", L, """    pub fn front(&self) -> Option<&T> {
        if N == 0 || self.size == 0 {""", """    pub fn front(&self) -> Option<&T> {
        if self.is_empty() {"""),
 ("fill_spare_with_is_full", L, """        while self.size < N {
            self.push_back(f());
        }""", """        while !self.is_full() {
            self.push_back(f());
        }"""),
 ("drain_drop_if_n_gt_0", D, """        if N == 0 {
            // Nothing to move, and the size of the buffer can only be 0
            return;
        }

        // SAFETY: `buf` is a valid pointer because `Drain` holds a mutable reference to it.
        let buf = unsafe { self.buf.as_mut() };""", """        if N == 0 {
            // Nothing to move, and the size of the buffer can only be 0
            return;
        }
        let this = &mut *self;

        // SAFETY: `buf` is a valid pointer because `Drain` holds a mutable reference to it.
        let buf = unsafe { this.buf.as_mut() };"""),
 ("as_slices_local_size", L, """        let start = self.start;
        let end = add_mod(self.start, self.size, N);

        let (front, back) = if start < end {
            (&self.items[start..end], &[][..])""", """        let start = self.start;
        let len = self.size;
        let end = add_mod(start, len, N);

        let (front, back) = if start < end {
            (&self.items[start..end], &[][..])"""),
 ("pop_back_reordered_comment", L, """        let back = unsafe { self.back_maybe_uninit().assume_init_read() };
        self.dec_size();
        Some(back)""", """        let slot = self.back_maybe_uninit();
        let back = unsafe { slot.assume_init_read() };
        self.dec_size();
        Some(back)"""),
 ("iter_len_commuted", "src/iter.rs", """impl<T> ExactSizeIterator for Iter<'_, T> {
    #[inline]
    fn len(&self) -> usize {
        self.right.len() + self.left.len()
    }
}""", """impl<T> ExactSizeIterator for Iter<'_, T> {
    #[inline]
    fn len(&self) -> usize {
        self.left.len() + self.right.len()
    }
}"""),
 ("write_len_first", "src/io.rs", """        self.extend_from_slice(src);
        Ok(src.len())""", """        let n = src.len();
        self.extend_from_slice(src);
        Ok(n)"""),
 ("swap_early_return", L, """        if i != j {
            let i = add_mod(self.start, i, N);
            let j = add_mod(self.start, j, N);
            // SAFETY: these are valid pointers
            unsafe { ptr::swap_nonoverlapping(&mut self.items[i], &mut self.items[j], 1) };
        }""", """        if i == j {
            return;
        }
        let i = add_mod(self.start, i, N);
        let j = add_mod(self.start, j, N);
        // SAFETY: these are valid pointers
        unsafe { ptr::swap_nonoverlapping(&mut self.items[i], &mut self.items[j], 1) };"""),
 ("truncate_back_disjuncts_swapped", L, """    pub fn truncate_back(&mut self, len: usize) {
        if N == 0 || len >= self.size {""", """    pub fn truncate_back(&mut self, len: usize) {
        if len >= self.size || N == 0 {"""),
 ("extend_min_method", L, """            let write_len = core::cmp::min(right.len(), other.len());""", """            let write_len = right.len().min(other.len());"""),
 ("pop_front_bookkeeping_swapped", L, """        let front = unsafe { self.front_maybe_uninit().assume_init_read() };
        self.dec_size();
        self.inc_start();
        Some(front)""", """        let front = unsafe { self.front_maybe_uninit().assume_init_read() };
        self.inc_start();
        self.dec_size();
        Some(front)"""),
 ("drain_drop_droppers_order", D, """        drop(right);
        drop(left);
""", """        drop(left);
        drop(right);
"""),
 ("consume_local_len", "src/io.rs", """        let amt = cmp::min(amt, self.len());
        self.drain(..amt);""", """        let len = self.len();
        let amt = cmp::min(len, amt);
        self.drain(..amt);"""),
 ("over_range_lets_reordered", "src/iter.rs", """            let len = buf.len();
            let mut it = Self::new(buf);
            it.advance_front_by(start);
            it.advance_back_by(len - end);
            it
        }
    }

    fn advance_front_by(&mut self, count: usize) {
        if self.right.len() > count {
            slice_take(&mut self.right, ..count);""", """            let mut it = Self::new(buf);
            let len = buf.len();
            it.advance_front_by(start);
            it.advance_back_by(len - end);
            it
        }
    }

    fn advance_front_by(&mut self, count: usize) {
        if self.right.len() > count {
            slice_take(&mut self.right, ..count);"""),
 ("swap_remove_back_len", L, """    pub fn swap_remove_back(&mut self, index: usize) -> Option<T> {
        if index >= self.size {
            return None;
        }
        self.swap(index, self.size - 1);""", """    pub fn swap_remove_back(&mut self, index: usize) -> Option<T> {
        let len = self.len();
        if index >= len {
            return None;
        }
        self.swap(index, len - 1);"""),
]
def sh(cmd, cwd=None):
    e = dict(os.environ); e["CARGO_NET_OFFLINE"] = "true"; e["CARGO_TARGET_DIR"] = "/tmp/mm-target"
    p = subprocess.run(cmd, shell=True, cwd=cwd, env=e, capture_output=True, text=True)
    return p.returncode, p.stdout + p.stderr
sh("git -C /repo worktree remove --force " + WT); shutil.rmtree(WT, ignore_errors=True)
rc, out = sh("git -C /repo worktree add --detach %s HEAD" % WT); assert rc == 0, out
cat = []
for name, file, old, new in B:
    path = os.path.join(WT, file); t = open(path).read()
    if old not in t: print("NOT FOUND", name); continue
    open(path, "w").write(t.replace(old, new, 1))
    rc, out = sh("cargo check --offline --lib 2>&1 | tail -12", WT)
    if "error" in out: print("FAIL", name, out[-400:])
    else:
        rc2, diff = sh("git diff", WT)
        open(os.path.join(OUT, name + ".patch"), "w").write(diff); cat.append({"name": name, "patch": "selftest/benign/%s.patch" % name}); print("ok", name)
    sh("git checkout -- .", WT)
sh("git -C /repo worktree remove --force " + WT); shutil.rmtree(WT, ignore_errors=True)
json.dump(cat, open(os.path.join(VERIF, "selftest", "benign.json"), "w"), indent=1)
