#!/usr/bin/env python3
"""Prints the detection table of the seeded changes (markdown) from seeded/*/meta.json."""
import json, os
V = os.path.dirname(os.path.dirname(os.path.abspath(__file__)))
D = json.load(open(os.path.join(V, "seeded", "descriptions.json")))
rows = []
for sid in sorted(os.listdir(os.path.join(V, "seeded"))):
    mp = os.path.join(V, "seeded", sid, "meta.json")
    if not os.path.exists(mp): continue
    m = json.load(open(mp))
    fired = m.get("checks_fired", {})
    own = m.get("property")
    ownr = sorted({v.split(":")[0] for v in fired.get(own, [])})
    others = ", ".join("%s" % k for k in sorted(fired) if k != own)
    ok = m.get("suite_with_change") == "pass" and m.get("demo_with_change") == "fail" and m.get("demo_without_change") in ("pass", None)
    d = D.get(sid, ["", ""])
    rows.append("| %s | %s | %s | %s | %s | %s |" % (sid, d[0], d[1], "yes" if ok else "NO", ("**%s** (%s)" % (own, ", ".join(ownr))) if ownr else "—", others or "—"))
print("| seed | change | needs | verified | caught by own property (rules) | also reported by |")
print("|---|---|---|---|---|---|")
print("\n".join(rows))
tot = len(rows); det = sum(1 for r in rows if "| — | — |" not in r)
print("\n%d seeds; %d reported by at least one check; %d by their own property's check" % (tot, det, sum(1 for r in rows if "**" in r)))
