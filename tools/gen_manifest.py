#!/usr/bin/env python3
"""Regenerates /verif/MANIFEST.json from the table below (single source of truth)."""
import json
import os

HERE = os.path.dirname(os.path.dirname(os.path.abspath(__file__)))

NA = {
    "C01": "value-level functional equivalence over modular index arithmetic; no structural clause that is a "
    "necessary condition and is not already claimed under C03/C04/C06; needs symbolic execution or proof "
    "(other families)",
}

PENDING = "check under construction in this session (DESIGN.md section 5 describes the planned decision procedure)"

CLAIMS = {
    "C02": dict(
        category="other",
        technique="MIR dataflow: drop-elaboration ownership (no normal-path Drop of the argument), move-sink tracing, "
        "must-pass-through, must guard facts (difference constraints) at every return site, panic-site reachability with "
        "caller-context projection",
        text="Static decision, for symbolic N/start/size and hence for every capacity, layout and history at once, of "
        "clauses 1-5 of the property on the drop-elaborated MIR of push_back, push_front, try_push_back, try_push_front: "
        "the argument is never destroyed; Err/Some carry the very argument or the value displaced by mem::replace; no "
        "buffer write on a path to Err; every Ok/None path stores the argument and grows size; Ok/None only under "
        "size<N, Err/Some only under size>=N or N==0; none of the four can reach an explicit panic site — in the thorough "
        "tier also no debug assertion of the -Cdebug-assertions=on build — under the guard facts of its call paths (TOTAL1). "
        "Not decided: which end / length delta (values). INV1 restricted to the insertion functions: what they write to the header has the reviewed shapes (size + 1; start moved by one position through dec_start/inc_start only).",
        note="Assumes INV (size <= N at entry; its preservation is checked by INV1 under C04). Trusted: rustc's MIR "
        "construction and drop elaboration, the mirdump driver's serialisation. Value-level clause 6 not decided.",
        ref="DESIGN.md §5 C02",
    ),
    "C05": dict(
        category="other",
        technique="MIR unwind-edge ordering analysis: dominance of the shrinking store over destroying calls, "
        "armed-local reachability on unwind edges, guard construction/drop dominance, must-pass-through in Drain::drop, "
        "closed table of destructor sites",
        text="Static decision, on drop-elaborated MIR with explicit unwind edges, of every ordering obligation that "
        "makes a panicking element destructor harmless: size/start are shrunk before drop_range runs (PS1), and nothing of the header is written after it (PS1b), drop_range destroys on every non-empty path (DESTROY1), explicit "
        "destruction never targets a still-armed local (PS2), all panic guards exist before the first is dropped "
        "(DROPPER1), Drain::drop destroys before restoring size and nothing can unwind afterwards (DRN1 d,e), a store that may "
        "shrink size is followed by drop_range on every path with no user code in between, or the function returns the Drain that "
        "takes custody (SHRINK1), every header store — including those a guard's Drop performs while unwinding — has a reviewed "
        "writer and value shape (INV1), and the "
        "functions with direct destructor sites are the reviewed closed table. Holds for every N, layout, argument "
        "and choice of panicking destructor because none of the obligations depends on them. The step from the "
        "obligations to 'no second drop' is a short argument in DESIGN.md, not machine-checked, hence level other. Also DRN1 a-c,f and DRNVIEW1: while Drain::drop runs destructors the header claims nothing (size := 0 when the Drain was built) and the destructors are handed the un-yielded part only, so neither a panicking element nor one already yielded is destroyed again.",
        note="Relies on INV1 (checked under C04) for the values stored to size/start; trusted: rustc MIR/drop "
        "elaboration, driver serialisation, the reviewed table rules/tables.py.",
        ref="DESIGN.md §5 C05",
    ),
    "C11": dict(
        category="other",
        technique="call-graph reachability of explicit panic sites with caller-context projection (difference "
        "constraints), REQUIRES propagation for divisors/array indices (MOD1) and for subtraction operands (SUB1), "
        "must-no-write-before-panic paths",
        text="Static decision of: which public entries can reach an explicit panic on a normal path, compared with the "
        "documented table (PAN1); internal callers discharge asserting callees and build only non-panicking range "
        "shapes (PAN2); documented panics precede any buffer write (PAN3); no Rem/Div by or element index into a zero "
        "capacity is reachable from any public entry (MOD1); no Add/Mul on caller-supplied indices outside reviewed "
        "sites (ARITH1); every normal return of an asserting function passes its documented assertions (PAN4); no usize "
        "subtraction over transparent operands (parameters, constants, size/start, slice lengths, positions) can underflow "
        "— an undocumented panic in debug builds, a wrapped index in release — by REQUIRES(b <= a) discharged at the site or "
        "propagated to the callers (SUB1; obligations over opaque values are counted as undecided, never reported). Thorough "
        "tier, debug build: every debug assertion is proved unreachable from the public entries except a reviewed table "
        "of value-level ones (DBGASSERT1). The implicit checks of range indexing, split_at and rotate (a <= b <= len) are "
        "decided like SUB1, with symbolic slice lengths and inferred postconditions (translate_range_bounds: start <= end <= "
        "len) — 35 of 51 obligations on the reviewed tree, the rest undecided (RIDX1). Every loop of the crate (4) has a "
        "classified progress argument (TERM1): exit by a std iterator's None; `while size < B` whose body increases size by "
        "one on every path under the loop's facts (callee paths projected); a counter moved towards its bound by an entailed "
        "step >= 1 — the back-fill step of Drain::drop is value-level and listed as undecided; an exit test over operands "
        "the body never changes is reported. Not decided: single-element bounds checks (counted; infeasible under INV). In the debug build (thorough tier) the three stated beliefs of Drain::read and the saved-size assertions of the drain views are now *proved* from their callers (std Range::next / next_back modelled as axioms: next hands out the old start and advances it, next_back retreats the end and hands out the new end, both only while start < end; a panic block shared by several failing tests is judged edge by edge), so a change of one of them is reported (DBGASSERT1). An assertion whose condition is stated over something the guard reasoning cannot read (a promoted constant range such as `(0..N).contains(..)`) is listed as undecided, never reported; Range::contains / RangeInclusive::contains over resolvable operands, and min as a lower bound, are modelled. FWD1 (the forwarding PartialEq impls end in the base slice impl and cannot recurse into themselves through std's `&A == &B`: they terminate) and TWIN of the range/iterator helpers (range() returns or panics exactly where range_mut() does). PAN4 also accepts translate_range_bounds' contract as a postcondition (a normal return entails start <= end <= len) however the checks are spelled. Promoted constants (`&(0..N)`, a `&N` pattern binding) are resolved from their promoted MIR bodies, which the driver now records.",
        note="Assumes INV (checked by INV1 under C04) and core's RangeBounds impls; single-element bounds checks are "
        "not judged; SUB1/RIDX1 report only obligations over transparent operands.",
        ref="DESIGN.md §5 C11",
    ),
    "C06": dict(
        category="other",
        technique="summary-based occupancy typestate over MIR (events A/M/B+/B-/B= on (items,size) and "
        "(Guard.dst,Guard.initialized)), evaluated at every resolved user-code call site incl. unwind edges; "
        "guard-liveness dominance; effect summaries for read-only observers",
        text="Static decision that every site at which user-chosen code can run (T::clone, FnMut closure, the extend/"
        "from_iter iterator, element eq/cmp/hash/fmt, element destructors) is reached, from every public entry and "
        "through callee summaries, only in the `balanced` occupancy state, that public entries return balanced and "
        "loop heads have a single state; plus the Guard protocol of write_uninit_slice_cloned (GUARD1), read-only-ness "
        "of comparison/hash/fmt impls (RO1), the closed table of forget/ManuallyDrop sites (LEAK1), and that elements taken "
        "out of the buffer's custody by a shrinking store are handed to drop_range or a Drain before any user code runs "
        "(SHRINK1); and that a closure handed to code outside the crate (an iterator adapter chain, for_each) keeps the "
        "typestate balanced across invocations whenever its driver runs user code between them (OCC iv). Independent of "
        "N, layout, argument length and of which invocation panics. GUARD1 also requires Guard::drop to reach its drop_in_place on every path (no early return keyed on the element type).",
        note="Unwind edges whose only source is an implicit bounds / zero-divisor check are treated as infeasible "
        "(INV + MOD1); external callees are classified by resolved where-clauses and a reviewed structural-impl table; "
        "the Drain impl is governed by DRN1 (C09/C10), From<[T;M]> by FROMARR1+PS2 (C12/C05).",
        ref="DESIGN.md §5 C06, §4 OCC",
    ),
    "C03": dict(
        category="other",
        technique="closed who-may tables over resolved MIR (destructor sites, bit-copy/move-out sites, forget/"
        "ManuallyDrop, unsafe-containing functions), occupancy typestate pairing, call-graph must-reach for owners, guard-fact entailment (difference constraints) at the slicing sites",
        text="Static decision of the structural part of exactly-once destruction: only the reviewed closed set of "
        "functions can destroy, bit-copy, move out, disarm or contains unsafe code (all others are safe code over T); in "
        "those, every move-out is paired with the size decrease and every size increase with the slot write, slots are "
        "written only when already counted, every public entry returns balanced; the owners (buffer Drop, IntoIter, "
        "Drain::drop, From<[T;M]>) destroy what they hold. Also: drop_range returns without destroying only for an empty range (DESTROY1), the drain's un-yielded views are bounded by iter, never by range (DRNVIEW1), no iterator type overrides a provided method that moves or skips elements (ITERSET1), what Drain::next/next_back hand out is read(i) for exactly the index the range iterator just produced (DRAINIT1), and the two pieces handed to the destructors (Drain views, drop_range) are one contiguous piece only where the guard facts entail lower < upper strictly and a split only where they entail upper <= lower (VIEWCMP1). The geometry of the drain's back-fill is decided as equalities of linear forms over the Drain's fields (BACKFILL2): destination starts at start + range.start, source at start + range.end, source + count = buf_size, restored size = destination + count, and each iteration advances both cursors and reduces the counter by exactly the copied count; and the typestate 'size is 0 while a Drain exists' (DRN1 a-c,f). REMOVE2: on every feasible path through remove the bulk copies form the chain start+index+1 -> start+size (mod N), each shifting by one slot, starting right behind the slot read out (or, mirrored, the head chain with start advanced by one); FROMARR2: From<[T;M]> destroys [0, M-size) and bit-copies [M-size, M) — complementary blocks — and counts exactly the copied elements. Not decided: element order inside one bulk copy (memmove is trusted); chunk lengths inside CircularSlicePtr. DRN1 g: the struct invariant of Drain that the other rules assume (range.start <= iter.start <= iter.end <= range.end <= buf_size <= N) is established where the Drain is built, from translate_range_bounds' inferred postcondition. VIEW2 also decides that a view answers (empty, empty) only over edges establishing that its interval is empty.",
        note="Tables in rules/tables.py are reviewed by hand against the source; trusted: Rust's guarantees for safe "
        "code, rustc MIR. Range arithmetic not decided.",
        ref="DESIGN.md §5 C03",
    ),
    "C04": dict(
        category="other",
        technique="REQUIRES propagation of helper preconditions over the call graph with must guard facts, provenance "
        "shape rules for header stores, taint of the free-slot view, who-may tables for reinterpretation sites",
        text="Static decision of the structural necessary conditions: single-slot reinterpretation only through helpers "
        "whose occupancy precondition every caller discharges (ACC1/ACC2, cross-checked in the thorough tier against the "
        "helpers' own debug_assert!s), header written only by reviewed functions with shapes preserving size<=N, start<N "
        "(INV1), capacity zero never reaches a modulus/index (MOD1), the free-slot view is write-only (FREE1), "
        "constructors ignore storage bytes (CTOR1), slice-level reinterpretation only in reviewed guarded functions "
        "(REINT1); the header is shrunk before drop_range runs destructors and not written afterwards (PS1); the observers "
        "(eq/ord/hash/Debug) read the contents only through len/as_slices/iter and feed std's algorithms element by element "
        "(OBS1/ORD1/HASH1/DBG1), and the positional accessors answer from the logical position only (NONE1/DERIV1) — the "
        "'equal contents are indistinguishable' clause. Also: a physical slot position add_mod(start,i,N) used to index/offset/swap storage needs i<size (ACC2b); index-kind inference: physical positions and logical indices/lengths are never compared nor substituted for each other, and the backing array is sliced only by physical positions (KIND1); DRNVIEW1; BACKFILL2 (the back-fill of Drain::drop copies exactly the live tail [range.end, buf_size) onto the hole and restores size = range.start + moved, as linear-form equalities) and DRN1 a-c,f (the header claims nothing while a Drain, which may be leaked, exists); REMOVE2 (remove's copies close exactly the gap: a chain start+index+1 -> start+size modulo N shifting by one). Not decided: bounds arithmetic inside the slice views; two-run non-interference. DRN1 g (the Drain invariant is established at construction) and the empty-answer clause of VIEW2 (a view is (empty, empty) only where N == 0 or its logical length is zero, judged per incoming path). ITERAGG1 and the TWIN agreement of the shared/mutable range and iterator helpers: what range()/iter() and their clones show is assembled from both halves of one view, by one algorithm — independent of layout and history.",
        note="One INV1 store (extend_from_slice size + other.len()) is listed as an assumption, not decided. Drain::read "
        "is a named exception (unsafe fn with a value-level contract).",
        ref="DESIGN.md §5 C04",
    ),
    "C09": dict(
        category="other",
        technique="typestate/ordering rules on Drain's MIR (dominance, must-pass-through, unwind reachability), resolved-"
        "callee shape rules for the index iterator protocol and bound translation, REQUIRES propagation (MOD1)",
        text="Static decision of the drain protocol: single constructor, size cleared after validation and before the "
        "Drain exists (DRN1 a-c,f); Drain::drop destroys the un-yielded part (both Droppers, built before either is "
        "dropped) before restoring size, restores on every normal path (modulo N==0), nothing can unwind afterwards, the "
        "back-fill loop lies on every path to the restore (DRN1 d,e, DROPPER1, BACKFILL1); next/next_back read exactly the "
        "index produced by std's Range iterator and len/size_hint are that iterator's (DRAINIT1); no modulus/index by "
        "capacity zero reachable from drain/Drain (MOD1); every RangeBounds form translated as documented (RANGE1). Also DRNVIEW1 (views bounded by iter), VIEWCMP1 (contiguity test), KIND1 on the Drain functions, ITERSET1 for Drain. BACKFILL2: the back-fill's geometry (hole = [range.start, range.end), moved block = [range.end, buf_size), size = range.start + moved, cursors and counter stepped by the copied count) as equalities of linear forms. Not "
        "decided: the chunk length arithmetic inside CircularSlicePtr, order preservation (values). SUB1/RIDX1 restricted to the drain code (thorough "
        "tier: also on the debug-assertion build, whose assertion arithmetic is code too). DRN1 g: the ordering range.start <= iter.start <= iter.end <= range.end <= buf_size <= N is entailed where the Drain is built (a reversed range cannot reach the back-fill); the un-yielded views answer (empty, empty) only where N == 0, buf_size == 0 or iter is empty; BACKFILL2 reads the counter as itself or as bound - counter, and the loop is left only where nothing is left to move.",
        note="Which slots the un-yielded views cover is decided by VIEW2 + DRNVIEW1 (pieces of the circular interval add_mod(start, iter.start, N) -> "
        "add_mod(start, iter.end, N)). Assumed (reviewed) struct invariant of Drain, an axiom of the guard reasoning: range.start <= iter.start <= iter.end <= "
        "range.end <= buf_size <= N. Trusted: std's Range<usize> iterator and RangeBounds impls. ",
        ref="DESIGN.md §5 C09",
    ),
    "C10": dict(
        category="other",
        technique="typestate rule 'size == 0 while a Drain exists' decided by dominance of the clearing store, who-may-"
        "write summaries over Drain's methods, who-may-call of the move-out, impl table (no Clone/Copy)",
        text="Static decision of every premise of the leak-safety argument: Drain is constructed only in over_range; there "
        "size := 0 (after validation) dominates the pointer, the Drain and the return and is the only store; no Drain "
        "method but drop writes size; the only move-out is reachable only through &mut Drain; Drain is not Clone/Copy; "
        "plus the C04 obligations (ACC1, ACC2, INV1, WHOLE1: a whole-array fill only where start == 0 is established, not assumed "
        "from what an earlier — possibly leaked — operation left behind) under which a buffer of size 0 touches no slot and keeps "
        "working. The implication "
        "premises => property is a three-line argument in DESIGN.md, hence level other. DRN1 g (struct invariant established at construction).",
        note="Relies on C04's rules; the implication itself is not machine-checked.",
        ref="DESIGN.md §5 C10",
    ),
    "C15": dict(
        category="proof",
        engine="witness+mirdump",
        technique="the compiler as decision procedure: compile-fail witnesses (expected error code on the marked line + "
        "compiling twin), compile-pass witnesses, const-evaluated auto-trait assertions, and type-level queries "
        "(variances_of, fn_sig regions, is_const_fn, impl table) from the type-checked crate",
        text="Every contract of the statement is a fact of the type definitions; each is an obligation decided by rustc "
        "itself: 30 must-fail witness programs (borrow kept by iter/iter_mut/range/range_mut/slice views/element refs/"
        "drain/fill_buf; outliving the buffer; moving it while borrowed; IterMut invariance; lengthening of element or "
        "borrow lifetimes; Drain/IterMut not Clone) each with a compiling twin, 7 must-compile witnesses (const/static "
        "new incl. N=0 and non-Copy T, covariance of buffer/Iter/Drain/IntoIter, borrow shortening, Iter: Clone without "
        "T: Clone, Default, iterator traits, disjoint mutable views), 32 const assertions that Send/Sync of buffer/"
        "IntoIter/Iter/IterMut equal those of [E;4]/&[E]/&mut [E] for E in {u8, Cell, MutexGuard, Rc}, plus variance, "
        "signature-region, const-fn and impl-table queries. One witness decides a contract for all client programs.",
        note="Trusted base: rustc's type checker, borrow checker, variance inference, const evaluator; the driver's "
        "serialisation; the impls! idiom (guarded by a must-fail sanity witness). obligations == discharged is required.",
        ref="DESIGN.md §5 C15",
    ),
    "C17": dict(
        category="other",
        engine="cargo+mirdump+rules",
        technique="build matrix + cross-configuration comparison of normalised resolved MIR (crate-qualified callee paths) "
        "+ callee-crate allow-list for the functions that exist only with alloc/std",
        text="By construction: the crate type-checks as #![no_std] without `extern crate alloc` (driver-confirmed extern "
        "crate set), so no function compiled there can name an allocating item; every function that also exists in the "
        "alloc/std/embedded configurations has an identical normalised MIR body there (CFGDIFF1), hence is allocation-"
        "free in every configuration; the only additional functions are boxed(), to_vec() (exempt) and the I/O impls, "
        "whose callees are restricted to in-crate functions, core and an allow-listed &[u8] reader (ALLOC1); no extern "
        "blocks. The three feature configurations build on stable. BUILD+CFGDIFF1+ALLOC1 imply the statement; the "
        "implication is an argument, not machine-checked. NOSTD per configuration: every configuration without the `std` feature neither names nor links `std`, and only those with the `alloc` feature name or link `alloc` (crate graph and extern-crate items read from the compiler for each feature set).",
        note="Trusted: `core` does not allocate; the allow-listed readers (std / embedded-io 0.6.1) do not allocate; "
        "element types are non-allocating (statement). Panic paths excluded by the statement.",
        ref="DESIGN.md §5 C17",
    ),
    "C18": dict(
        category="other",
        engine="cargo+mirdump+rules",
        technique="cross-configuration diff of normalised resolved MIR against a reviewed table of cfg forks + shape "
        "rules (operand provenance, positions) for each delegating arm, symbolic slice-length equality at the "
        "equal-length API call sites",
        text="Static decision that a behavioural difference between the default and the `unstable` build can only "
        "originate in the reviewed set U of cfg-forked items (all other functions have identical resolved MIR in both "
        "nightly builds), and that each arm in U is the reviewed delegation to a std API with the same operands in the "
        "same positions (DELEG1); write_clone_of_slice and the stable helper it replaces are called with destination and "
        "source of symbolically equal length (EQLEN1: the std API panics where the stable helper may tolerate a longer "
        "destination); the unstable build type-checks. The ownership and panic-safety rules (C02-C06, C09-C11) "
        "are evaluated on the unstable fact base in those checks' thorough tiers. Not decided: trace equality of the two "
        "builds; the std APIs' equivalence to the stable arms is reviewed and trusted.",
        note="[twin]-style rule: a behaviour-preserving rewrite of one arm would also be reported. Assumes documented "
        "behaviour of assume_init_ref/mut, write_clone_of_slice, split_off*.",
        ref="DESIGN.md §5 C18",
    ),
    "C16": dict(
        category="other",
        engine="cargo+mirdump+rules",
        technique="sibling cross-check: event skeletons (ordered in-crate calls with argument/return provenance) of the "
        "embedded-io and embedded-io-async impls vs the std::io impls modulo a reviewed renaming, on optimized MIR and "
        "on pre-transform (mir_built) MIR of the async bodies; Yield/coroutine-state analysis; build matrix",
        text="Static decision that each embedded-io(-async) method performs the same in-crate effects with the same "
        "argument provenance and returns the same value provenance as the corresponding std::io method (10 sibling "
        "comparisons), that async write/flush/fill_buf contain no suspension point and read awaits only the &[u8] reader "
        "whose coroutine has no suspension state (so never Pending), that the error type is Infallible, that no modulus/"
        "index by capacity zero is reachable from these entries, and that all feature combinations build. Behaviour of "
        "the std impls themselves is C14. The skeletons include the branch conditions in canonical positive form (which slice fill_buf prefers, when read stops).",
        note="[twin] rule: a behaviour-preserving rewrite of one sibling would also be reported. Trusted: the external "
        "&[u8] readers of embedded-io 0.6.1 / embedded-io-async 0.6.1 (pinned in Cargo.lock, checked) agree with std's.",
        ref="DESIGN.md §5 C16",
    ),
    "C19": dict(
        category="other",
        technique="taint-style provenance rule for position values over MIR (POS1), REQUIRES propagation for moduli "
        "(MOD1) and subtraction operands (SUB1), callee/constant table for size/alignment inspection (ZST1), store-shape "
        "rules for lengths (LEN1)",
        text="Static decision that position arithmetic is confined to add_mod/sub_mod (no raw start+i / offset+k / pos*k "
        "elsewhere — the construct that overflows for positions near N near usize::MAX), that their modulus is never "
        "zero, that element size/alignment/needs_drop is never inspected (zero-sized element types take the same paths "
        "as any other), that lengths are only stepped by one or assigned bounded values and never scaled, and that no "
        "usize subtraction over transparent operands (N - 1, N - size, size - len, N - position - 1, count - len ...) can "
        "underflow (SUB1, 34 of 54 obligations decided; the rest mention opaque values and are listed as undecided). Not "
        "decided: the number theory of add_mod's overflow compensation (its result < m is assumed); M - <loop counter> in From<[T; M]>. "
        "Position arithmetic through usize's saturating/wrapping/checked/overflowing methods is reported like raw `+` (POS1), a "
        "comparison of two raw element pointers like size_of (ZST1: addresses coincide for zero-sized T), a whole-array fill where "
        "nothing establishes start == 0 (WHOLE1). "
        "Because every rule of this machinery is decided for a symbolic capacity and element type, the sequence-semantics rules "
        "whose verdict is thereby valid at N = usize::MAX and for zero-sized T are evaluated under this property too: RIDX1, "
        "PAN1-3 (the feasible explicit panic sites of every public entry are the documented ones: boundary arguments answer None / Err, they do not reach a bounds assertion), DRNVIEW1/DRAINIT1 (destructor runs of a drain), ORD1/HASH1/DBG1/BASE2/BASE3 (comparison results), TWIN of the range views. ITERAGG1 (what Debug of iter_mut()/drain() shows for zero-sized elements is only a count: the temporary Iter must be built from both halves of one source).",
        note="Value-level arithmetic correctness of add_mod itself is not decided by this family.",
        ref="DESIGN.md §5 C19",
    ),
    "C20": dict(
        category="other",
        technique="effect analysis over the resolved call graph: loop/recursion detection and classification of "
        "storage-mutating external callees (non-moving / constant / bulk; unclassified fails closed) in the transitive "
        "closure of every O(1)-documented entry; closed table of bulk movers",
        text="Static decision of the O(1) clause as an effect property: from no operation documented as constant-time "
        "(38 entries, element destructors excluded) is a loop, recursion or bulk-relocating call reachable, for every N, "
        "layout and argument; bulk relocation exists only in remove, Drain::drop, make_contiguous and From<[T;M]>, with no "
        "more bulk-move sites than the linear bound of each was reviewed for (3/1/1/1), and "
        "make_contiguous does not rotate unconditionally. Also VIEWCMP1 (make_contiguous's contiguity test agrees with as_slices) and KIND1 on remove/swap/Drain::drop (no branch decided by comparing a physical position with a length). HEADMOVE1 — a necessary condition of the linear bounds: remove / Drain::drop write `start` (which relocates every element in front of the gap) only where the guard facts entail front count <= the documented bound (index <= len - index resp. range.start <= buf_size - range.end), decided on linear forms of the dominating comparisons; on the pinned tree neither writes `start`. Not decided: the linear bounds for remove/drain beyond that (how many elements behind the gap a copy moves) and the "
        "correctness of make_contiguous's contiguity test.",
        note="KNOWN LIMIT: defect F6 (make_contiguous rotates although contents are contiguous when they end exactly at "
        "the array end; N=4,start=2,size=2) is a genuine violation of the statement's last sentence that this family "
        "cannot decide; documented in DESIGN.md §3, neither reported nor suppressed by this check.",
        ref="DESIGN.md §5 C20",
    ),
    "C07": dict(
        category="other",
        technique="forwarding-shape rules over resolved MIR event skeletons (calls with argument provenance), must-fact "
        "analysis of the edges into None/Some returns, sibling cross-check of the 11 &/&mut accessor pairs",
        text="Static decision that every view is derived from one of two primitives with pass-through arguments (DERIV1: "
        "nth_*/Index -> get(_mut); iter/range -> Iter::new -> as_slices; iter_mut/range_mut -> IterMut::new -> "
        "as_mut_slices; to_vec/Debug/Hash/PartialOrd/Ord/&IntoIterator -> iter), that get/front/back (and pop/remove) "
        "answer None only over an edge establishing N==0, size==0 or index>=size and Some only under index<size / size>0 "
        "(NONE1), and that each mutable accessor performs the same steps on the same operands as its shared twin (TWIN "
        "x9, plus the 8 Iter/IterMut range-view pairs). The two primitives themselves (as_slices/as_mut_slices of the buffer and of Drain, "
        "slices_uninit_mut, drop_range) are decided one by one by evaluating their slicing expressions to physical intervals of the "
        "backing array (VIEW2): the contiguous form is ([lo,hi), empty), the wrapped form ([lo,N), [0,hi)) of the same lo and hi, the "
        "interval is the occupied region [start, add_mod(start,size,N)) (the free region for slices_uninit_mut, the requested sub-range "
        "for drop_range), and the pieces are returned first-then-second. Also: every view builds its single contiguous piece items[lower..upper] only where the guard facts entail lower < upper strictly and splits/rotates the array only where they entail upper <= lower, whatever the spelling of the test (VIEWCMP1); front/back-like accessors that forward to get(_mut) do so only under size > 0 with the index size-1 resp. 0 (NONE1, forwarder form), index-kind inference (KIND1), Iter/IterMut override no provided iterator method (ITERSET1). Not decided: make_contiguous's result, the selection arithmetic of range()/range_mut(). ITERAGG1: every Iter/IterMut built anywhere takes (first, second) of one two-slice view or (right, left) of one iterator, in that order. Thorough tier: DELEG1 of C18 for the nightly arms of the slice_take helpers.",
        note="[twin]/shape rules: a behaviour-preserving rewrite of a forwarder or of one twin would also be reported. "
        "Distinctness of mutable references: borrow checker outside unsafe + closed table of unsafe producers (C03).",
        ref="DESIGN.md §5 C07",
    ),
    "C08": dict(
        category="other",
        technique="per-function event-shape rules on resolved MIR for next/next_back/len/size_hint/clone/default/IntoIter "
        "(both Iter and IterMut), sibling cross-check (Iter vs IterMut constructors, over_range, advance_*_by x5; helper pairs "
        "x3), bound-translation arm analysis, impl-table rule (no overridden provided iterator method)",
        text="Static decision, for Iter and IterMut each, that len counts both remaining slices and size_hint is "
        "(len, Some(len)), that next takes from right and only then from left and next_back from left and only then from "
        "right, returning what was taken; that Iter::clone copies "
        "both fields in place and default iterators are two empty slices, that IntoIter is exactly pop_front/pop_back/len "
        "of its only field, that every RangeBounds form is translated as documented by the single validation function, "
        "and that the Iter/IterMut forms of new/empty/over_range/advance_front_by/advance_back_by (and the slice_take helper "
        "pairs) are the same algorithm modulo mutability. "
        "No iterator type overrides a provided Iterator method (ITERSET1). "
        "Not decided: the selection arithmetic of advance_front_by/advance_back_by and element order (values). ITERAGG1 (every Iter/IterMut is assembled from the two halves of one source, in order — also the temporary ones Debug impls format through).",
        note="[twin] rules for the 8 pairs: a bug present identically in both twins is not visible; a one-sided "
        "behaviour-preserving re-spelling of a twinned function is reported for review (DESIGN.md §10.9).",
        ref="DESIGN.md §5 C08, §10.9",
    ),
    "C12": dict(
        category="other",
        technique="constructor shape + storage-read scan, who-may tables (unsafe/bit-copy/forget) over the conversion "
        "functions, forwarding-shape rules for the clone paths, must-pass-through in From<[T;M]>, armed-local rule",
        text="Static decision that new/default/boxed establish the empty header and never read storage; that clone, "
        "clone_from, to_vec, from_iter, both extends, IntoIter::new, both into_iter and default are safe code over T "
        "(type system gives independence of source and result); that they obtain elements only via iter().cloned() resp. "
        "feed every item to push_back, and clone_from clears first; that From<[T;M]> copies out, destroys the rest and "
        "disarms the source on every path with header start=0, size in {M,N} each <= N, and never targets an armed local. "
        "What the conversions are built from is decided under this property too, for symbolic N (so capacity 1 as any other): push_back stores every item it is given and returns Some only when full (C02's OWN1/STORE1/FULL1 on push_back), and pop_front/pop_back — the owning iterator — answer None only over edges establishing N == 0 or size == 0 (NONE1). FROMARR2: the block From<[T;M]> keeps is [M - size, M) (the last elements), copied to slot 0, the destroyed block is [0, M - size) and the header counts exactly the copied elements — equalities of linear forms read from the copy's operands, the range given to drop_in_place and the returned aggregate. Not decided: element order produced by the push_back loop (C01). Thorough tier: DELEG1 of C18 for the nightly arms the conversions iterate through.",
        note="Shape rules on small forwarding functions; a behaviour-preserving rewrite would be reported.",
        ref="DESIGN.md §5 C12",
    ),
    "C13": dict(
        category="other",
        technique="read-set analysis of the observer impls (no start/items/capacity), resolved-callee chain analysis of the "
        "forwarding PartialEq impls (through core's &A == &B), shape rules for cmp/hash/fmt, operand-root rule for the base eqs",
        text="Static decision that comparison/ordering/hash/Debug impls read buffer state only through len, as_slices and "
        "iter — never start, items or the capacity — so layout can influence them only through as_slices' split point; "
        "ordering = std's Iterator::partial_cmp/cmp of the two iter()s; hash = length once + one element hash per iter() "
        "item, by closure or loop, nothing else fed (HASH1); Debug returns finish() of entries(..) on the one debug_list(), "
        "fed with the whole sequence in order (self / iter() / as_slices().0 then .1) and uses the formatter for nothing else "
        "(DBG1); the five forwarding PartialEq impls end, through any chain, in the base slice impl without recursion, comparing "
        "exactly `self` with their parameter (FWD1); the base impls test lengths first, answer false without comparing when they "
        "differ, and "
        "compare only sub-slices of the contents (BASE1); in buffer == buffer every arm's compared pieces partition both "
        "sequences — each segment whole, or as the complementary pair [..k],[k..] with the same k, in order (BASE2) — and "
        "every split point is a difference of first-segment lengths only (BASE3). Not decided: that the split points have "
        "the right *values* (explicitly partial). BASE2 identifies the arm of each slice comparison by how the facts order the two first-segment lengths there (match on cmp or if/else chain alike); HASH1 accepts the elements as one `a.iter().chain(b)` over the two pieces of one as_slices() as well as iter().",
        note="BASE2/BASE3 are structural necessary conditions of the segment alignment; its arithmetic itself (the "
        "historically buggy part) is value-level.",
        ref="DESIGN.md §5 C13",
    ),
    "C14": dict(
        category="other",
        technique="shape rules over resolved MIR event skeletons of the five std::io methods, return-site variant analysis, "
        "must guard facts at fill_buf's returns, REQUIRES propagation (MOD1)",
        text="Static decision that write/flush/read/fill_buf can only return Ok (the `?` in read propagates only from the "
        "infallible &[u8] reader), write forwards the unmodified input once to extend_from_slice and reports src.len(), "
        "read copies front->dst then back->dst[r1..] of one as_slices() call, removes exactly r1+r2 from the front after "
        "both and returns that sum with no other mutation, fill_buf returns front iff it is non-empty else back, consume "
        "drains ..min(amt,len) and Drain::drop, which completes it, runs droppers -> back-fill -> restore of size on every path "
        "(DRN1), and no zero-capacity modulus/index is reachable from the five entries. Not decided: which "
        "bytes extend_from_slice keeps (C01), non-underflow of len-count, non-emptiness of fill_buf for a non-empty buffer. IO4 is decided on facts: consume mutates only by one drain(..E) and E is min(amt, len), spelled with min or chosen by a branch whose edges order amt and len accordingly. Thorough tier: DELEG1 of C18 for the nightly arm of extend_from_slice that Write::write rests on.",
        note="Shape rules on small methods; trusted: std's <&[u8] as Read>::read.",
        ref="DESIGN.md §5 C14",
    ),
}


def main():
    checks = []
    na = []
    for i in range(1, 21):
        pid = "C%02d" % i
        if pid in CLAIMS:
            c = CLAIMS[pid]
            checks.append(
                {
                    "property_id": pid,
                    "quick_cmd": "./check %s --tier quick" % pid,
                    "thorough_cmd": "./check %s --tier thorough" % pid,
                    "evidence_file": "evidence/%s.json" % pid,
                    "replay_cmd_template": "./check %s --replay {path}" % pid,
                    "engine": c.get("engine", "mirdump+rules"),
                    "level_claimed": {"category": c["category"], "text": c["text"], "design_ref": c["ref"]},
                    "level_note": c["note"],
                    "technique": c["technique"],
                }
            )
        else:
            na.append({"property_id": pid, "reason": NA.get(pid, PENDING)})
    m = {
        "version": 1,
        "setup_cmd": "cd /verif/mirdump && CARGO_NET_OFFLINE=true cargo build --release --offline",
        "hooks": {
            "guard": "circular_buffer_verif",
            "enable": "none: static analysis needs no instrumentation of /repo; the cfg name is reserved and unused",
            "baseline_off_cmd": "cd /repo && cargo test --workspace --no-fail-fast --offline",
            "source_commits": [],
            "add_only": True,
        },
        "engines": [
            {
                "name": "mirdump",
                "path": "mirdump/",
                "serves_properties": sorted(CLAIMS),
                "kind_free_text": "rustc_private driver (nightly) injected with RUSTC_WORKSPACE_WRAPPER; dumps "
                "type-checked, trait-resolved, drop-elaborated MIR + HIR/type-level facts per feature configuration",
            },
            {
                "name": "rules",
                "path": "rules/",
                "serves_properties": sorted(CLAIMS),
                "kind_free_text": "Python rule engine over the fact bases: CFG/dominators, SSA-style provenance, must "
                "guard-fact dataflow decided by a difference-constraint closure, call-graph effect summaries, "
                "typestate and sibling comparison rules",
            },
        ],
        "checks": checks,
        "not_applicable": na,
        "notes": "Static analysis only: no check executes the crate. Repairs of genuine defects are `fix:` commits in "
        "/repo recorded in known_findings.json. See DESIGN.md.",
    }
    with open(os.path.join(HERE, "MANIFEST.json"), "w") as fh:
        json.dump(m, fh, indent=1)
        fh.write("\n")


if __name__ == "__main__":
    main()
