#!/usr/bin/env python3
"""Records the event skeletons of the std::io impls (from the eio_both configuration) so that the
embedded siblings can be compared in configurations where std is not compiled."""
import json, os, sys
sys.path.insert(0, os.path.dirname(os.path.dirname(os.path.abspath(__file__))))
from rules import facts, mir
from rules.props import c16
P = mir.Program(facts.load_facts(["eio_both"])["eio_both"])
ref = {}
for meth, (trait, _) in c16.METHODS.items():
    f = P.fn("<CircularBuffer<N, u8> as std::%s>::%s" % (trait, meth))
    ref[meth] = [list(x) for x in c16.skel(f)]
json.dump(ref, open(c16.REF_FILE, "w"), indent=1)
print("written", c16.REF_FILE)
