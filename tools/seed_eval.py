#!/usr/bin/env python3
"""Evaluate a seeded change (patch.diff + demo.rs) produced by an independent sub-agent:
  1. on a scratch worktree of /repo HEAD: demo passes without the patch;
  2. with the patch: the crate's whole test suite still passes, the demo fails;
  3. run the registered checks (quick tier) against the patched worktree and record which fire.
Writes /verif/seeded/<id>/{patch.diff,demo.rs,notes.md,meta.json}. Never touches /repo's tree."""
import json
import os
import re
import shutil
import subprocess
import sys
import time

VERIF = os.path.dirname(os.path.dirname(os.path.abspath(__file__)))
TARGET = os.environ.get("SE_TARGET", "/tmp/se-target")


def sh(cmd, cwd=None, env=None, timeout=1800):
    e = dict(os.environ)
    e["CARGO_NET_OFFLINE"] = "true"
    if env:
        e.update(env)
    p = subprocess.run(cmd, shell=True, cwd=cwd, env=e, capture_output=True, text=True, timeout=timeout)
    return p.returncode, p.stdout + p.stderr


def main():
    src = sys.argv[1].rstrip("/")
    name = os.path.basename(src)
    tier = "quick"
    only = None
    for a in sys.argv[2:]:
        if a.startswith("--tier="):
            tier = a.split("=")[1]
        if a.startswith("--checks="):
            only = a.split("=")[1].split(",")
    wt = "/tmp/se-wt-" + name
    sh("git -C /repo worktree remove --force %s" % wt)
    shutil.rmtree(wt, ignore_errors=True)
    rc, out = sh("git -C /repo worktree add --detach %s HEAD" % wt)
    assert rc == 0, out
    if os.path.exists("/repo/Cargo.lock") and not os.path.exists(os.path.join(wt, "Cargo.lock")):
        shutil.copy("/repo/Cargo.lock", os.path.join(wt, "Cargo.lock"))  # untracked in /repo
    meta = {"id": name, "source": "independent sub-agent given only the property text and a scratch worktree",
            "repo_head": sh("git -C /repo rev-parse --short HEAD")[1].strip()}
    recheck = "--recheck" in sys.argv
    if recheck:
        # the change itself was verified earlier (suite passes, demo fails with / passes without):
        # only run the checks again
        mp = os.path.join(VERIF, "seeded", name, "meta.json")
        old = json.load(open(mp))
        for k in ("demo_without_change", "demo_with_change", "suite_with_change", "suite_counts", "demo_cmd", "demo_without_change_tail", "demo_with_change_tail"):
            if k in old:
                meta[k] = old[k]
    try:
        demo = os.path.join(src, "demo.rs")
        has_demo = os.path.exists(demo) and not recheck
        env = {"CARGO_TARGET_DIR": TARGET}
        over = {}
        if os.path.exists(os.path.join(src, "eval.json")):
            over = json.load(open(os.path.join(src, "eval.json")))
        demo_cmd = over.get("demo_cmd", "cargo test --offline --test seed_demo")
        meta["demo_cmd"] = demo_cmd
        if "nightly" in demo_cmd:
            env = {"CARGO_TARGET_DIR": TARGET + "-nightly"}
        if has_demo:
            shutil.copy(demo, os.path.join(wt, "tests", "seed_demo.rs"))
            rc, out = sh(demo_cmd + " 2>&1 | tail -15", cwd=wt, env=env)
            meta["demo_without_change"] = "pass" if re.search(r"test result: ok", out) and "FAILED" not in out else "FAIL"
            meta["demo_without_change_tail"] = out[-600:]
            os.remove(os.path.join(wt, "tests", "seed_demo.rs"))
        rc, out = sh("git apply --whitespace=nowarn %s" % os.path.join(src, "patch.diff"), cwd=wt)
        if rc != 0:
            rc, out = sh("git apply --3way --whitespace=nowarn %s" % os.path.join(src, "patch.diff"), cwd=wt)
        meta["patch_applies"] = rc == 0
        if rc != 0:
            meta["apply_error"] = out[-800:]
            print(json.dumps(meta, indent=1))
            return 1
        if not recheck:
          rc, out = sh("cargo test --workspace --no-fail-fast --offline 2>&1 | grep -E '^test result|FAILED|failed|error' | head -20", cwd=wt, env={"CARGO_TARGET_DIR": TARGET})
          results = re.findall(r"test result: (\w+)\. (\d+) passed; (\d+) failed", out)
          meta["suite_with_change"] = "pass" if results and all(r[0] == "ok" for r in results) and "error" not in out else "FAIL"
          meta["suite_counts"] = [(int(a), int(b)) for _, a, b in results]
        if has_demo:
            shutil.copy(demo, os.path.join(wt, "tests", "seed_demo.rs"))
            rc, out = sh(demo_cmd + " 2>&1 | tail -15", cwd=wt, env=env)
            meta["demo_with_change"] = "fail" if ("FAILED" in out or "error" in out or rc != 0) and "test result: ok" not in out else ("fail" if "FAILED" in out else "PASS")
            meta["demo_with_change_tail"] = out[-600:]
            os.remove(os.path.join(wt, "tests", "seed_demo.rs"))
        # checks
        man = json.load(open(os.path.join(VERIF, "MANIFEST.json")))
        fired = {}
        t0 = time.time()
        for c in man["checks"]:
            pid = c["property_id"]
            if only and pid not in only:
                continue
            rc, out = sh("./check %s --tier %s" % (pid, tier), cwd=VERIF, env={"VERIF_REPO": wt, "VERIF_NO_EVIDENCE": "1"})
            viol = []
            lines = out.splitlines()
            for i, l in enumerate(lines):
                m = re.match(r"^(\S+): \[(\w[\w-]*)\] (.*) in `(.*)` \(", l)
                if m:
                    viol.append("%s:%s:%s" % (m.group(2), m.group(4), m.group(3)))
            if rc != 0 or viol:
                fired[pid] = viol[:12]
        if "--merge" in sys.argv:
            # keep what the earlier (quick-tier) run recorded, add what this run found
            try:
                prev = json.load(open(os.path.join(VERIF, "seeded", name, "meta.json"))).get("checks_fired", {})
            except Exception:
                prev = {}
            for k_, v_ in prev.items():
                fired.setdefault(k_, v_)
            for k_ in list(fired):
                if k_ in (only or []) and k_ not in prev:
                    fired[k_] = [x + " [thorough tier]" for x in fired[k_]]
        meta["checks_fired"] = fired
        meta["checks_tier"] = tier
        meta["checks_wall_s"] = round(time.time() - t0, 1)
        m = re.match(r"^(C\d+)", name)
        meta["property"] = m.group(1) if m else "?"
        meta["detected_by_own_property"] = meta["property"] in fired
        meta["detected"] = bool(fired)
    finally:
        sh("git -C /repo worktree remove --force %s" % wt)
        shutil.rmtree(wt, ignore_errors=True)
    dst = os.path.join(VERIF, "seeded", name)
    os.makedirs(dst, exist_ok=True)
    for fn in ("patch.diff", "demo.rs", "notes.md"):
        if os.path.exists(os.path.join(src, fn)) and os.path.realpath(src) != os.path.realpath(dst):
            shutil.copy(os.path.join(src, fn), os.path.join(dst, fn))
    old = {}
    if os.path.exists(os.path.join(dst, "meta.json")):
        old = json.load(open(os.path.join(dst, "meta.json")))
    for k in ("breaks_property", "needs", "verdict", "comment"):
        if k in old:
            meta[k] = old[k]
    json.dump(meta, open(os.path.join(dst, "meta.json"), "w"), indent=1)
    print("%s: suite=%s demo(w/o)=%s demo(with)=%s fired=%s" % (name, meta.get("suite_with_change"), meta.get("demo_without_change"), meta.get("demo_with_change"), {k: len(v) for k, v in fired.items()}))
    return 0


if __name__ == "__main__":
    sys.exit(main())
