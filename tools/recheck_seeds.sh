#!/bin/bash
cd /verif
ls seeded | grep -E "^C[0-9]+-[ABCDEF]$" > /tmp/recheck-list.txt
mapfile -t L < /tmp/recheck-list.txt
n=${#L[@]}
for w in 0 1 2 3 4 5; do
  ( for ((i=w; i<n; i+=6)); do python3 tools/seed_eval.py /tmp/seed-out/${L[$i]} --recheck 2>&1 | grep -v conda | tail -1; done > /tmp/recheck-w$w.log 2>&1 ) &
done
wait
echo done > /tmp/recheck-done
