#!/bin/bash
# Re-run every registered check (quick tier) against each seeded change kept under /verif/seeded,
# six scratch worktrees at a time. C02-F is only visible to the thorough tier (DBGASSERT1).
cd /verif
mapfile -t L < <(ls seeded | grep -E "^C[0-9]+-[A-J]$")
n=${#L[@]}
out=$(mktemp -d)
for w in 0 1 2 3 4 5; do
  ( for ((i=w; i<n; i+=6)); do SE_TARGET=/tmp/se-target-$w python3 tools/seed_eval.py /verif/seeded/${L[$i]} --recheck 2>&1 | grep -v conda | tail -1; done > $out/w$w.log 2>&1 ) &
done
wait
python3 tools/seed_eval.py /verif/seeded/C02-F --recheck --tier=thorough 2>&1 | tail -1 > $out/c02f.log
cat $out/w*.log | grep "fired={}" | grep -v "^C02-F" && echo "UNDETECTED (above)"
cat $out/c02f.log
cat $out/w*.log | wc -l
rm -rf $out /tmp/se-target-[0-5]
python3 tools/seed_report.py | tail -1
