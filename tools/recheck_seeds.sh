#!/bin/bash
# Re-run every registered check (quick tier) against each seeded change kept under /verif/seeded, six scratch
# worktrees at a time; a change that no quick check reports (debug-build-only defects: C02-F, C09-J) is re-run
# against the thorough tier.
cd /verif
mapfile -t L < <(ls seeded | grep -E "^C[0-9]+-[A-Z]$")
n=${#L[@]}
out=$(mktemp -d)
for w in 0 1 2 3 4 5; do
  ( for ((i=w; i<n; i+=6)); do SE_TARGET=/tmp/se-target-$w python3 tools/seed_eval.py /verif/seeded/${L[$i]} --recheck 2>&1 | grep -v conda | tail -1; done > $out/w$w.log 2>&1 ) &
done
wait
for s in $(cat $out/w*.log | grep "fired={}" | cut -d: -f1); do
  python3 tools/seed_eval.py /verif/seeded/$s --recheck --tier=thorough 2>&1 | tail -1 | sed 's/$/  [thorough tier]/'
done | tee $out/thorough.log
grep "fired={}" $out/thorough.log && echo "UNDETECTED (above)"
# a change that lives in a nightly-only arm (or a debug-only assertion) is not in the quick tier's facts of its own
# property: re-run that property's thorough tier for the seeds whose own check was silent at the quick tier
for s in $(python3 - <<'PY'
import json, os
V = "/verif/seeded"
for sid in sorted(os.listdir(V)):
    mp = os.path.join(V, sid, "meta.json")
    if not os.path.exists(mp):
        continue
    m = json.load(open(mp))
    own = m.get("property")
    if own and m.get("checks_fired") and own not in m["checks_fired"]:
        print(sid)
PY
); do
  python3 tools/seed_eval.py /verif/seeded/$s --recheck --tier=thorough --checks=${s%-*} --merge 2>&1 | tail -1 | sed 's/$/  [own property, thorough tier]/'
done
cat $out/w*.log | wc -l
rm -rf $out /tmp/se-target-[0-5]
python3 tools/seed_report.py | tail -1
