#!/bin/bash
# Re-run every registered check (quick tier) against each seeded change kept under /verif/seeded, six scratch
# worktrees at a time; a change that no quick check reports (debug-build-only defects: C02-F, C09-J) is re-run
# against the thorough tier.
cd /verif
mapfile -t L < <(ls seeded | grep -E "^C[0-9]+-[A-Z]$")
n=${#L[@]}
out=$(mktemp -d)
for w in 0 1 2 3 4 5; do
  ( for ((i=w; i<n; i+=6)); do SE_TARGET=/tmp/se-target-$w python3 tools/seed_eval.py /verif/seeded/${L[$i]} --recheck 2>&1 | grep -v conda | tail -1; done > $out/w$w.log 2>&1 ) &
done
wait
for s in $(cat $out/w*.log | grep "fired={}" | cut -d: -f1); do
  python3 tools/seed_eval.py /verif/seeded/$s --recheck --tier=thorough 2>&1 | tail -1 | sed 's/$/  [thorough tier]/'
done | tee $out/thorough.log
grep "fired={}" $out/thorough.log && echo "UNDETECTED (above)"
cat $out/w*.log | wc -l
rm -rf $out /tmp/se-target-[0-5]
python3 tools/seed_report.py | tail -1
