#!/usr/bin/env python3
"""Checker self-test: every mutant of selftest/catalogue.json (one small edit of the crate that
still compiles) is applied to a scratch worktree outside /repo and /verif; the check(s) named in
its `expect` list must report a violation of the named rule. Checker validation, not property
evidence. Exit 0 iff every expectation is met."""
import json, os, re, shutil, subprocess, sys
from concurrent.futures import ThreadPoolExecutor

VERIF = os.path.dirname(os.path.dirname(os.path.abspath(__file__)))


def sh(cmd, cwd=None, env=None):
    e = dict(os.environ); e["CARGO_NET_OFFLINE"] = "true"
    if env: e.update(env)
    p = subprocess.run(cmd, shell=True, cwd=cwd, env=e, capture_output=True, text=True)
    return p.returncode, p.stdout + p.stderr


def run_one(m):
    wt = "/tmp/st-wt-%s-%d" % (m["name"], os.getpid())
    sh("git -C /repo worktree remove --force " + wt); shutil.rmtree(wt, ignore_errors=True)
    rc, out = sh("git -C /repo worktree add --detach %s HEAD" % wt)
    if os.path.exists("/repo/Cargo.lock") and not os.path.exists(os.path.join(wt, "Cargo.lock")):
        shutil.copy("/repo/Cargo.lock", os.path.join(wt, "Cargo.lock"))  # untracked in /repo
    res = {"name": m["name"], "results": {}, "ok": True}
    try:
        rc, out = sh("git apply --whitespace=nowarn %s" % os.path.join(VERIF, m["patch"]), cwd=wt)
        if rc != 0:
            res["ok"] = False; res["error"] = "patch does not apply: " + out[-300:]
            return res
        for exp in m["expect"]:
            pid, rule = exp.split(":")
            if ONLY_PROP and pid != ONLY_PROP:
                continue
            tier = m.get("tier", "quick")
            rc, out = sh("./check %s --tier %s" % (pid, tier), cwd=VERIF, env={"VERIF_REPO": wt, "VERIF_NO_EVIDENCE": "1"})
            rules = re.findall(r"^\S+: \[([\w-]+)\] ", out, re.M)
            hit = rule in rules
            res["results"][exp] = {"fired": hit, "rules": sorted(set(rules))}
            if not hit:
                res["ok"] = False
    finally:
        sh("git -C /repo worktree remove --force " + wt); shutil.rmtree(wt, ignore_errors=True)
    return res


def run_benign(m):
    """a behaviour-preserving edit: every registered check must stay silent"""
    wt = "/tmp/st-wt-%s-%d" % (m["name"], os.getpid())
    sh("git -C /repo worktree remove --force " + wt); shutil.rmtree(wt, ignore_errors=True)
    sh("git -C /repo worktree add --detach %s HEAD" % wt)
    if os.path.exists("/repo/Cargo.lock") and not os.path.exists(os.path.join(wt, "Cargo.lock")):
        shutil.copy("/repo/Cargo.lock", os.path.join(wt, "Cargo.lock"))
    res = {"name": m["name"], "alarms": {}}
    try:
        rc, out = sh("git apply --whitespace=nowarn %s" % os.path.join(VERIF, m["patch"]), cwd=wt)
        if rc != 0:
            res["alarms"]["apply"] = [out[-200:]]
            return res
        man = json.load(open(os.path.join(VERIF, "MANIFEST.json")))
        for c in man["checks"]:
            pid = c["property_id"]
            rc, out = sh("./check %s --tier quick" % pid, cwd=VERIF, env={"VERIF_REPO": wt, "VERIF_NO_EVIDENCE": "1"})
            v = re.findall(r"^\S+: \[([\w-]+)\] (.*) in `(.*)` \(", out, re.M)
            if rc != 0 or v:
                res["alarms"][pid] = ["%s:%s:%s" % (a, c_, b) for a, b, c_ in v][:5]
    finally:
        sh("git -C /repo worktree remove --force " + wt); shutil.rmtree(wt, ignore_errors=True)
    return res


ONLY_PROP = None


def main():
    global ONLY_PROP
    for a in sys.argv[1:]:
        if a.startswith("--only-property="):
            ONLY_PROP = a.split("=")[1]
    if "--benign" in sys.argv:
        cat = json.load(open(os.path.join(VERIF, "selftest", "benign.json")))
        with ThreadPoolExecutor(max_workers=6) as ex:
            results = list(ex.map(run_benign, cat))
        bad = 0
        for r in results:
            if r["alarms"]:
                bad += 1
                print("ALARM %-30s %s" % (r["name"], r["alarms"]))
            else:
                print("quiet %-30s" % r["name"])
        print("%d/%d behaviour-preserving edits leave every check silent" % (len(results) - bad, len(results)))
        return 1 if bad else 0
    cat = json.load(open(os.path.join(VERIF, "selftest", "catalogue.json")))
    only = [a for a in sys.argv[1:] if not a.startswith("-")]
    if only:
        cat = [m for m in cat if m["name"] in only]
    with ThreadPoolExecutor(max_workers=8) as ex:
        results = list(ex.map(run_one, cat))
    bad = 0
    for r in results:
        if r["ok"]:
            print("ok    %-34s %s" % (r["name"], ", ".join(r["results"])))
        else:
            bad += 1
            print("MISS  %-34s %s" % (r["name"], r.get("error") or {k: v["rules"] for k, v in r["results"].items() if not v["fired"]}))
    print("%d/%d mutants detected by every expected rule" % (len(results) - bad, len(results)))
    if not ONLY_PROP:
        json.dump(results, open(os.path.join(VERIF, "selftest", "last_run.json"), "w"), indent=1)
    return 1 if bad else 0


if __name__ == "__main__":
    sys.exit(main())
