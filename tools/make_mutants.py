#!/usr/bin/env python3
"""Generates the self-test mutants (DESIGN.md Appendix A) as patches against /repo HEAD.
Each mutant is a small edit that still compiles; selftest.py requires the named rule to fire."""
import json, os, subprocess, sys, shutil

VERIF = os.path.dirname(os.path.dirname(os.path.abspath(__file__)))
OUT = os.path.join(VERIF, "selftest", "mutants")
WT = "/tmp/mm-wt"

M = []
SKIP = {"pop_front_inc_start_first"}  # a value-level error (reads the wrong slot) that no structural rule can see
TIER = {"dbg_sub_mod_tightened": "thorough", "drain_read_assert_range_end": "thorough", "dbg_csp_add_tightened": "thorough", "dbg_drop_range_end_tightened": "thorough", "dbg_csp_offset_le": "thorough"}


def mut(name, file, old, new, expect, features=None, count=1):
    if name in SKIP:
        return
    M.append(dict(name=name, file=file, old=old, new=new, expect=expect, features=features, count=count))

L = "src/lib.rs"; D = "src/drain.rs"; I = "src/iter.rs"; E = "src/embedded_io.rs"; IO = "src/io.rs"

mut("pos1_raw_add", L, """    const fn get_maybe_uninit(&self, index: usize) -> &MaybeUninit<T> {
        debug_assert!(self.size > 0, "empty buffer");
        debug_assert!(index < N, "index out-of-bounds");
        debug_assert!(self.start < N, "start out-of-bounds");
        let index = add_mod(self.start, index, N);""", """    const fn get_maybe_uninit(&self, index: usize) -> &MaybeUninit<T> {
        debug_assert!(self.size > 0, "empty buffer");
        debug_assert!(index < N, "index out-of-bounds");
        debug_assert!(self.start < N, "start out-of-bounds");
        let index = (self.start + index) % N;""", ["C19:POS1"])
mut("boxed_no_start", L, "            core::ptr::addr_of_mut!((*ptr).start).write(0);\n", "", ["C12:CTOR1", "C04:CTOR1"])
mut("hash_segments", L, "        self.iter().for_each(|item| item.hash(state));", "        let (a, b) = self.as_slices();\n        a.hash(state);\n        b.hash(state);", ["C13:HASH1"])
mut("ord_len_first", L, "        self.iter().cmp(other.iter())", "        self.len().cmp(&other.len()).then_with(|| self.iter().cmp(other.iter()))", ["C13:ORD1"])
mut("remove_vec_alloc", L, """        let index = add_mod(self.start, index, N);
        let back_index = add_mod(self.start, self.size - 1, N);

        // SAFETY: `index` is in a valid range; the element is guaranteed to be initialized""", """        let index = add_mod(self.start, index, N);
        let back_index = add_mod(self.start, self.size - 1, N);
        #[cfg(feature = "alloc")]
        {
            let staged: Vec<usize> = (index..back_index).collect();
            let _ = staged.len();
        }

        // SAFETY: `index` is in a valid range; the element is guaranteed to be initialized""", ["C17:CFGDIFF1"])
mut("size_hint_none", I, """    fn size_hint(&self) -> (usize, Option<usize>) {
        let len = self.len();
        (len, Some(len))
    }
}

impl<T> ExactSizeIterator for Iter<'_, T> {""", """    fn size_hint(&self) -> (usize, Option<usize>) {
        let len = self.len();
        (len, None)
    }
}

impl<T> ExactSizeIterator for Iter<'_, T> {""", ["C08:ESI1"])
mut("clear_rotates", L, "        self.truncate_back(0)\n", "        self.truncate_back(0);\n        let start = self.start;\n        self.items.rotate_left(start);\n        self.start = 0;\n", ["C20:O1"])
mut("clone_from_no_clear", L, "        self.clear();\n        self.extend(other.iter().cloned());", "        self.extend(other.iter().cloned());", ["C12:CLONEPATH1"])
mut("nth_back_mut_saturating", L, """    pub fn nth_back_mut(&mut self, index: usize) -> Option<&mut T> {
        let index = self.size.checked_sub(index)?.checked_sub(1)?;""", """    pub fn nth_back_mut(&mut self, index: usize) -> Option<&mut T> {
        let index = self.size.checked_sub(index)?.saturating_sub(1);""", ["C07:TWIN"])
mut("try_push_back_gt", L, """    pub fn try_push_back(&mut self, item: T) -> Result<(), T> {
        if N == 0 {
            // A zero-capacity buffer is always full
            return Err(item);
        }
        if self.size >= N {""", """    pub fn try_push_back(&mut self, item: T) -> Result<(), T> {
        if N == 0 {
            // A zero-capacity buffer is always full
            return Err(item);
        }
        if self.size > N {""", ["C02:FULL1"])
mut("revert_f1", L, """    pub fn try_push_back(&mut self, item: T) -> Result<(), T> {
        if N == 0 {
            // A zero-capacity buffer is always full
            return Err(item);
        }""", """    pub fn try_push_back(&mut self, item: T) -> Result<(), T> {
        if N == 0 {
            return Ok(());
        }""", ["C02:OWN1", "C02:FULL1"])
mut("revert_f2", L, """        self.size = len;
        // SAFETY: `drop_range` is a valid range, so elements within are guaranteed to be
        // initialized. The `size` of the buffer is shrunk before dropping, so no value will be
        // dropped twice in case of panics.
        unsafe { self.drop_range(start, size, drop_range) };
    }

    /// Shortens the buffer, keeping only the back""", """        // SAFETY: `drop_range` is a valid range, so elements within are guaranteed to be
        // initialized. The `size` of the buffer is shrunk before dropping, so no value will be
        // dropped twice in case of panics.
        unsafe { self.drop_range(start, size, drop_range) };
        self.size = len;
    }

    /// Shortens the buffer, keeping only the back""", ["C05:PS1"])
mut("revert_f3", L, """        let mut arr = mem::ManuallyDrop::new(arr);""", """        let mut arr = arr;""", ["C05:PS2"], count=1)
mut("revert_f4", L, """            self.size += write_len;

            let other = &other[write_len..];
            let (left, _) = self.slices_uninit_mut();""", """            let other = &other[write_len..];
            let (_, left) = self.slices_uninit_mut();""", ["C06:OCC"])
mut("revert_f5", D, """        if N == 0 {
            // Nothing to move, and the size of the buffer can only be 0
            return;
        }

""", "", ["C11:MOD1", "C09:MOD1", "C14:MOD1"])
mut("get_index_gt", L, """    pub fn get(&self, index: usize) -> Option<&T> {
        if N == 0 || index >= self.size {""", """    pub fn get(&self, index: usize) -> Option<&T> {
        if N == 0 || index > self.size {""", ["C04:ACC1", "C07:NONE1"])
mut("pop_front_inc_start_first", L, """        let front = unsafe { self.front_maybe_uninit().assume_init_read() };
        self.dec_size();
        self.inc_start();
        Some(front)""", """        self.inc_start();
        let front = unsafe { self.back_maybe_uninit().assume_init_read() };
        self.dec_size();
        Some(front)""", ["C03:WHO1", "C03:OCC", "C07:TWIN", "C04:ACC1"])
mut("guard_bump_before_clone", L, """                guard.dst[i].write(src[i].clone());
                guard.initialized += 1;""", """                guard.initialized += 1;
                guard.dst[i].write(src[i].clone());""", ["C06:OCC"])
mut("fill_spare_with_reserve_first", L, """        while self.size < N {
            self.push_back(f());
        }
    }""", """        let old = self.size;
        self.size = N;
        for i in old..N {
            let slot = add_mod(self.start, i, N);
            self.items[slot].write(f());
        }
    }""", ["C06:OCC"])
mut("from_iter_zip_write_commit_late", L, """        let mut buf = Self::new();
        iter.into_iter().for_each(|item| {
            buf.push_back(item);
        });
        buf""", """        let mut buf = Self::new();
        let mut iter = iter.into_iter();
        let slots = buf.items.iter_mut().zip(&mut iter);
        buf.size = slots.map(|(slot, item)| slot.write(item)).count();
        iter.for_each(|item| {
            buf.push_back(item);
        });
        buf""", ["C06:OCC"])
mut("drain_clear_late", D, """        let buf_size = buf.size;
        buf.size = 0;

        let buf = NonNull::from(buf);
""", """        let buf_size = buf.size;
        let buf = NonNull::from(buf);
        if start == end {
            return Self { buf, buf_size, range: start..end, iter: start..end, phantom: PhantomData };
        }
        unsafe { (*buf.as_ptr()).size = 0 };
""", ["C10:DRN1"])
mut("drain_restore_before_droppers", D, """        let (right, left) = self.as_mut_slices();

        let right = Dropper(right);
        let left = Dropper(left);

        drop(right);
        drop(left);
""", """        unsafe { self.buf.as_mut().size = self.buf_size - self.range.len() };
        let (right, left) = self.as_mut_slices();

        let right = Dropper(right);
        let left = Dropper(left);

        drop(right);
        drop(left);
""", ["C05:DRN1", "C09:DRN1"])
mut("drain_clone", D, """impl<const N: usize, T> FusedIterator for Drain<'_, N, T> {}""", """impl<const N: usize, T> FusedIterator for Drain<'_, N, T> {}

impl<const N: usize, T> Clone for Drain<'_, N, T> {
    fn clone(&self) -> Self {
        Self { buf: self.buf, buf_size: self.buf_size, range: self.range.clone(), iter: self.iter.clone(), phantom: PhantomData }
    }
}""", ["C10:DRN1", "C15:IMPLS", "C15:WITNESS"])
mut("swap_assert_late", L, """        assert!(i < self.size, "i index out-of-bounds");
        assert!(j < self.size, "j index out-of-bounds");
        if i != j {
            let i = add_mod(self.start, i, N);
            let j = add_mod(self.start, j, N);
            // SAFETY: these are valid pointers
            unsafe { ptr::swap_nonoverlapping(&mut self.items[i], &mut self.items[j], 1) };
        }""", """        assert!(i < self.size, "i index out-of-bounds");
        if i != j {
            let i = add_mod(self.start, i, N);
            let jj = add_mod(self.start, j, N);
            // SAFETY: these are valid pointers
            unsafe { ptr::swap_nonoverlapping(&mut self.items[i], &mut self.items[jj], 1) };
        }
        assert!(j < self.size, "j index out-of-bounds");""", ["C11:PAN3"])
mut("to_vec_expect", L, """        vec.extend(self.iter().cloned());""", """        vec.extend(self.iter().cloned());
        let _first = self.front().expect("non-empty");""", ["C11:PAN1"])
mut("as_mut_slices_swapped", L, """        unsafe { (slice_assume_init_mut(front), slice_assume_init_mut(back)) }""", """        unsafe { (slice_assume_init_mut(back), slice_assume_init_mut(front)) }""", ["C07:VIEW2"])
mut("iter_mut_next_back_right_first", I, """        if let Some(item) = slice_take_last_mut(&mut self.left) {
            Some(item)
        } else if let Some(item) = slice_take_last_mut(&mut self.right) {""", """        if let Some(item) = slice_take_last_mut(&mut self.right) {
            Some(item)
        } else if let Some(item) = slice_take_last_mut(&mut self.left) {""", ["C08:ESI1"])
mut("sub_swap_remove_back_le", L, """    pub fn swap_remove_back(&mut self, index: usize) -> Option<T> {
        if index >= self.size {""", """    pub fn swap_remove_back(&mut self, index: usize) -> Option<T> {
        if index > self.size {""", ["C11:SUB1", "C19:SUB1"])
mut("sub_advance_back_swapped", I, """        if self.left.len() > count {
            let take_left = self.left.len() - count;
            slice_take(&mut self.left, take_left..);""", """        if self.left.len() > count {
            let take_left = count - self.left.len();
            slice_take(&mut self.left, take_left..);""", ["C11:SUB1", "C08:TWIN"])
mut("inv_size_replace_unchecked", L, """        let drop_range = len..size;
        self.size = len;""", """        let drop_range = len..size;
        let _ = core::mem::replace(&mut self.size, len + size);""", ["C04:INV1"])
mut("term_fill_spare_with_le", L, """        while self.size < N {
            self.push_back(f());""", """        while self.size <= N {
            self.push_back(f());""", ["C11:TERM1"])
mut("term_backfill_no_decrement", D, """            remaining -= copy_len;""", """            let _ = copy_len;""", ["C11:TERM1"])
mut("backfill_from_iter_end", D, """        let mut backfill = items.add(self.range.end);""", """        let mut backfill = items.add(self.iter.end);""", ["C03:OWNER1", "C04:REINT1", "C09:BACKFILL2"])
mut("backfill_hole_from_iter_start", D, """        let mut hole = items.add(self.range.start);""", """        let mut hole = items.add(self.iter.start);""", ["C03:OWNER1", "C09:BACKFILL2"])
mut("backfill_restore_iter_len", D, """        buf.size = self.buf_size - self.range.len();""", """        buf.size = self.buf_size - self.iter.len();""", ["C09:BACKFILL2"])
mut("remove_head_move_unguarded", L, """                // Move the values at the right of `index` by 1 position to the left
                ptr::copy(ptr.add(index).add(1), ptr.add(index), N - index - 1);
                // Move the leftmost value to the end of the array
                ptr::copy(ptr, ptr.add(N - 1), 1);
                // Move the values at the left of `back_index` by 1 position to the left
                ptr::copy(ptr.add(1), ptr, back_index);""", """                let start = self.start;
                ptr::copy(ptr.add(start), ptr.add(start).add(1), index - start);
                self.start = add_mod(start, 1, N);""", ["C20:HEADMOVE1"])
mut("over_range_size_end", D, """        buf.size = 0;""", """        buf.size = end;""", ["C04:REINT1", "C03:OWNER1", "C10:DRN1"])
mut("from_keeps_first", L, """            ptr::copy_nonoverlapping(arr_ptr.add(M - size), elems_ptr, size);""", """            ptr::copy_nonoverlapping(arr_ptr, elems_ptr, size);""", ["C12:FROMARR1", "C03:OWNER1"])
mut("from_drop_off_by_one", L, """            ptr::drop_in_place(&mut arr[..M - size]);""", """            ptr::drop_in_place(&mut arr[..(M - size).saturating_sub(1)]);""", ["C12:FROMARR1", "C03:OWNER1"])
mut("remove_chain_skips_leftmost", L, """                // Move the leftmost value to the end of the array
                ptr::copy(ptr, ptr.add(N - 1), 1);
""", "", ["C03:OWNER1", "C04:REINT1"])
mut("remove_chain_short", L, """                ptr::copy(ptr.add(index).add(1), ptr.add(index), back_index - index);""", """                ptr::copy(ptr.add(index).add(1), ptr.add(index), back_index - index - 1);""", ["C03:OWNER1"])
mut("remove_reads_back", L, """        let item = unsafe { self.items[index].assume_init_read() };

        // SAFETY: the pointers being moved""", """        let item = unsafe { self.items[back_index].assume_init_read() };

        // SAFETY: the pointers being moved""", ["C03:OWNER1"])
mut("drain_read_assert_range_end", D, """            index < self.iter.start || index >= self.iter.end,""", """            index < self.iter.start || index >= self.range.end,""", ["C11:DBGASSERT1"])
mut("no_std_keyed_on_alloc", L, """#![cfg_attr(not(feature = "std"), no_std)]""", """#![cfg_attr(not(feature = "alloc"), no_std)]""", ["C17:NOSTD"])
mut("eio_fill_buf_longer_slice", E, """impl<const N: usize> embedded_io::BufRead for CircularBuffer<N, u8> {
    fn fill_buf(&mut self) -> Result<&[u8], Self::Error> {
        let (front, back) = self.as_slices();
        if !front.is_empty() {""", """impl<const N: usize> embedded_io::BufRead for CircularBuffer<N, u8> {
    fn fill_buf(&mut self) -> Result<&[u8], Self::Error> {
        let (front, back) = self.as_slices();
        if front.len() >= back.len() {""", ["C16:TWIN"])
mut("dbg_csp_add_tightened", D, """        debug_assert!(increment <= self.slice_len);""", """        debug_assert!(increment < self.slice_len);""", ["C11:DBGASSERT1"])
mut("dbg_drop_range_end_tightened", L, """        debug_assert!(range.end <= size, "end of range out-of-bounds");""", """        debug_assert!(range.end < size, "end of range out-of-bounds");""", ["C11:DBGASSERT1"])
mut("consume_max", IO, """        let amt = cmp::min(amt, self.len());""", """        let amt = cmp::max(amt, self.len());""", ["C14:IO4"])
mut("view_back_off_by_one", L, """            let (back, front) = self.items.split_at(start);
            (front, &back[..end])""", """            let (back, front) = self.items.split_at(start);
            (front, &back[..end + 1])""", ["C07:VIEW2", "C04:VIEW2"])
mut("view_uninit_wrong_region", L, """            (&mut self.items[end..start], &mut [][..])""", """            (&mut self.items[start..end], &mut [][..])""", ["C04:VIEW2"])
mut("eq_mut_array_self_recursion", L, """    fn eq(&self, other: &&'a mut [U; M]) -> bool {
        self == *other
    }""", """    fn eq(&self, other: &&'a mut [U; M]) -> bool {
        self == other
    }""", ["C13:FWD1"])
mut("write_returns_min", IO, """        self.extend_from_slice(src);
        Ok(src.len())""", """        self.extend_from_slice(src);
        Ok(cmp::min(src.len(), N))""", ["C14:IO2"])
mut("embedded_read_no_truncate", E, """        count += back.read(&mut dst[count..])?;
        self.truncate_front(self.len() - count);
        Ok(count)
    }
}

#[cfg(feature = "embedded-io")]
impl<const N: usize> embedded_io::BufRead""", """        count += back.read(&mut dst[count..])?;
        Ok(count)
    }
}

#[cfg(feature = "embedded-io")]
impl<const N: usize> embedded_io::BufRead""", ["C16:TWIN"], features="embedded-io,embedded-io-async")
mut("embedded_async_write_yields", E, """    async fn write(&mut self, src: &[u8]) -> Result<usize, Self::Error> {
        self.extend_from_slice(src);""", """    async fn write(&mut self, src: &[u8]) -> Result<usize, Self::Error> {
        struct YieldOnce(bool);
        impl core::future::Future for YieldOnce {
            type Output = ();
            fn poll(mut self: core::pin::Pin<&mut Self>, cx: &mut core::task::Context<'_>) -> core::task::Poll<()> {
                if self.0 { core::task::Poll::Ready(()) } else { self.0 = true; cx.waker().wake_by_ref(); core::task::Poll::Pending }
            }
        }
        YieldOnce(false).await;
        self.extend_from_slice(src);""", ["C16:NOPEND1"], features="embedded-io,embedded-io-async")
mut("unstable_take_first_is_last", I, """fn slice_take_first<'a, T>(slice: &mut &'a [T]) -> Option<&'a T> {
    slice.split_off_first()""", """fn slice_take_first<'a, T>(slice: &mut &'a [T]) -> Option<&'a T> {
    slice.split_off_last()""", ["C18:DELEG1"], features="unstable")
mut("unstable_drain_slices_swapped", D, """            (right.assume_init_ref(), left.assume_init_ref())""", """            (left.assume_init_ref(), right.assume_init_ref())""", ["C18:DELEG1"], features="unstable")
mut("iter_raw_ptr_fields", I, """pub struct Iter<'a, T> {
    pub(crate) right: &'a [T],
    pub(crate) left: &'a [T],
}""", """pub struct Iter<'a, T> {
    pub(crate) right: &'a [T],
    pub(crate) left: &'a [T],
    pub(crate) _marker: core::marker::PhantomData<&'a mut T>,
}""", ["C15:VARIANCE"], count=1)
mut("iter_unbound_lifetime", L, """    pub fn iter(&self) -> Iter<'_, T> {
        Iter::new(self)
    }""", """    pub fn iter<'x>(&self) -> Iter<'x, T>
    where
        T: 'x,
    {
        // SAFETY: (deliberately wrong) extends the borrow
        Iter::new(unsafe { &*(self as *const Self) })
    }""", ["C15:SIG", "C15:WITNESS"])
mut("new_not_const", L, """    pub const fn new() -> Self {""", """    pub fn new() -> Self {""", ["C15:CONST", "C15:WITNESS"])

mut("kind_slice_by_len", L, """        let (front, back) = if start < end {
            (&self.items[start..end], &[][..])
        } else {
            let (back, front) = self.items.split_at(start);
            (front, &back[..end])
        };

        // SAFETY: The elements in these slices are guaranteed to be initialized
        unsafe { (slice_assume_init_ref(front), slice_assume_init_ref(back)) }""", """        let (front, back) = if start < end {
            (&self.items[..self.size], &[][..])
        } else {
            let (back, front) = self.items.split_at(start);
            (front, &back[..end])
        };

        // SAFETY: The elements in these slices are guaranteed to be initialized
        unsafe { (slice_assume_init_ref(front), slice_assume_init_ref(back)) }""", ["C07:KIND1", "C04:KIND1"])
mut("kind_cmp_start_for_size", L, """    pub fn truncate_front(&mut self, len: usize) {
        if N == 0 || len >= self.size {""", """    pub fn truncate_front(&mut self, len: usize) {
        if N == 0 || len >= self.start {""", ["C04:KIND1"])
mut("kind_swap_phys_to_get", L, """        self.swap(index, self.size - 1);
        self.pop_back()""", """        let last = add_mod(self.start, self.size - 1, N);
        self.swap(index, last);
        self.pop_back()""", ["C04:KIND1", "C20:KIND1"])

mut("dbg_sub_mod_tightened", L, """const fn sub_mod(x: usize, y: usize, m: usize) -> usize {
    debug_assert!(m > 0);
    debug_assert!(x <= m);
    debug_assert!(y <= m);""", """const fn sub_mod(x: usize, y: usize, m: usize) -> usize {
    debug_assert!(m > 0);
    debug_assert!(x <= m);
    debug_assert!(y < m);""", ["C11:DBGASSERT1"])

def sh(cmd, cwd=None):
    e = dict(os.environ); e["CARGO_NET_OFFLINE"] = "true"; e["CARGO_TARGET_DIR"] = "/tmp/mm-target"
    p = subprocess.run(cmd, shell=True, cwd=cwd, env=e, capture_output=True, text=True)
    return p.returncode, p.stdout + p.stderr

def main():
    only = sys.argv[1:]
    sh("git -C /repo worktree remove --force " + WT); shutil.rmtree(WT, ignore_errors=True)
    rc, out = sh("git -C /repo worktree add --detach %s HEAD" % WT); assert rc == 0, out
    cat = []
    try:
        for m in M:
            if only and m["name"] not in only:
                continue
            path = os.path.join(WT, m["file"])
            t = open(path).read()
            n = t.count(m["old"])
            if n < 1:
                print("NOT FOUND", m["name"]); continue
            if m.get("name") == "iter_raw_ptr_fields":
                t = t.replace(m["old"], m["new"], 1)
                # keep the crate compiling: every construction of Iter gets the marker
                t = t.replace("Self {\n            right: &[],\n            left: &[],\n        }", "Self {\n            right: &[],\n            left: &[],\n            _marker: core::marker::PhantomData,\n        }")
                t = t.replace("        Self { right, left }\n    }\n\n    pub(crate) fn over_range<const N: usize, R>(buf: &'a CircularBuffer<N, T>, range: R)", "        Self { right, left, _marker: core::marker::PhantomData }\n    }\n\n    pub(crate) fn over_range<const N: usize, R>(buf: &'a CircularBuffer<N, T>, range: R)")
                t = t.replace("        Self {\n            right: self.right,\n            left: self.left,\n        }", "        Self {\n            right: self.right,\n            left: self.left,\n            _marker: core::marker::PhantomData,\n        }")
                t = t.replace("        let it = Iter {\n            right: self.right,\n            left: self.left,\n        };", "        let it = Iter {\n            right: self.right,\n            left: self.left,\n            _marker: core::marker::PhantomData,\n        };")
                open(path, "w").write(t)
                dp = os.path.join(WT, "src/drain.rs"); dt = open(dp).read()
                dt = dt.replace("let it = Iter { right, left };", "let it = Iter { right, left, _marker: PhantomData };")
                open(dp, "w").write(dt)
            else:
                t = t.replace(m["old"], m["new"], m["count"])
                open(path, "w").write(t)
            feats = m.get("features")
            if feats == "unstable":
                rc, out = sh("cargo +nightly check --offline --lib --features unstable 2>&1 | tail -15", WT)
            elif feats:
                rc, out = sh("cargo check --offline --lib --features %s 2>&1 | tail -15" % feats, WT)
            else:
                rc, out = sh("cargo check --offline --lib 2>&1 | tail -15", WT)
            ok = "error" not in out
            rc2, diff = sh("git diff", WT)
            if ok:
                open(os.path.join(OUT, m["name"] + ".patch"), "w").write(diff)
                cat.append({"name": m["name"], "patch": "selftest/mutants/%s.patch" % m["name"], "expect": m["expect"], "features": feats})
                if m["name"] in TIER:
                    cat[-1]["tier"] = TIER[m["name"]]
                print("ok  ", m["name"])
            else:
                print("FAIL", m["name"], out[-600:])
            sh("git checkout -- .", WT)
    finally:
        sh("git -C /repo worktree remove --force " + WT); shutil.rmtree(WT, ignore_errors=True)
    if not only:
        json.dump(cat, open(os.path.join(VERIF, "selftest", "catalogue.json"), "w"), indent=1)

if __name__ == "__main__":
    main()
