#!/usr/bin/env python3
"""Evaluate an independently written behaviour-preserving refactoring: the crate's suite must pass
with it, and every registered check (quick tier) should stay silent. Writes
/verif/selftest/benign_agents/<id>/{patch.diff,notes.md,meta.json}."""
import json, os, re, shutil, subprocess, sys
VERIF = os.path.dirname(os.path.dirname(os.path.abspath(__file__)))

def sh(cmd, cwd=None, env=None):
    e = dict(os.environ); e["CARGO_NET_OFFLINE"] = "true"
    if env: e.update(env)
    p = subprocess.run(cmd, shell=True, cwd=cwd, env=e, capture_output=True, text=True)
    return p.returncode, p.stdout + p.stderr

def main():
    src = sys.argv[1].rstrip("/"); name = os.path.basename(src)
    recheck = "--recheck" in sys.argv
    wt = "/tmp/be-wt-" + name
    sh("git -C /repo worktree remove --force " + wt); shutil.rmtree(wt, ignore_errors=True)
    rc, out = sh("git -C /repo worktree add --detach %s HEAD" % wt); assert rc == 0, out
    shutil.copy("/repo/Cargo.lock", os.path.join(wt, "Cargo.lock"))
    dst = os.path.join(VERIF, "selftest", "benign_agents", name)
    meta = {"id": name}
    if recheck and os.path.exists(os.path.join(dst, "meta.json")):
        meta = json.load(open(os.path.join(dst, "meta.json")))
    try:
        rc, out = sh("git apply --whitespace=nowarn %s" % os.path.join(src if not recheck else dst, "patch.diff"), cwd=wt)
        meta["patch_applies"] = rc == 0
        if rc != 0:
            print(name, "patch does not apply", out[-200:]); return 1
        if not recheck:
            rc, out = sh("cargo test --workspace --no-fail-fast --offline 2>&1 | grep -E '^test result|FAILED|error' | head", cwd=wt, env={"CARGO_TARGET_DIR": os.environ.get("SE_TARGET", "/tmp/se-target-0")})
            res = re.findall(r"test result: (\w+)\.", out)
            meta["suite_with_change"] = "pass" if res and all(r == "ok" for r in res) and "error" not in out else "FAIL"
        man = json.load(open(os.path.join(VERIF, "MANIFEST.json")))
        alarms = {}
        for c in man["checks"]:
            pid = c["property_id"]
            rc, out = sh("./check %s --tier quick" % pid, cwd=VERIF, env={"VERIF_REPO": wt, "VERIF_NO_EVIDENCE": "1"})
            v = re.findall(r"^\S+: \[([\w-]+)\] (.*) in `(.*)` \(", out, re.M)
            if rc != 0 or v:
                alarms[pid] = ["%s:%s:%s" % (a, c_, b) for a, b, c_ in v][:6]
        meta["alarms"] = alarms
    finally:
        sh("git -C /repo worktree remove --force " + wt); shutil.rmtree(wt, ignore_errors=True)
    os.makedirs(dst, exist_ok=True)
    if not recheck:
        for fn in ("patch.diff", "notes.md"):
            if os.path.exists(os.path.join(src, fn)): shutil.copy(os.path.join(src, fn), os.path.join(dst, fn))
    json.dump(meta, open(os.path.join(dst, "meta.json"), "w"), indent=1)
    print("%s: suite=%s alarms=%s" % (name, meta.get("suite_with_change"), alarms))
    return 0

if __name__ == "__main__":
    sys.exit(main())
